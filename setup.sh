#!/bin/bash
# Build the Coq development from clean (full .vo build), extract the models, compile the
# OCaml driver, and self-test driver vs in-Coq evaluation.  Offline; everything on disk.
set -e
cd "$(dirname "$0")"
ROOT=$(pwd)
cd "$ROOT/coq"
timeout 300 coq_makefile -f _CoqProject -o Makefile > /dev/null
if [ "$1" = "--clean" ]; then timeout 300 make -s clean > /dev/null 2>&1 || true; fi
timeout 3400 make -j16 -s
cd "$ROOT/coq/Extract"
timeout 600 coqc -Q .. PMC Extract.v > /dev/null
timeout 600 ocamlfind ocamlopt -w -a model.mli model.ml driver.ml -o driver
cd "$ROOT"
# self-test: the extracted driver and Coq's own evaluator must agree
timeout 600 /venv/bin/python harness/selftest.py
echo "setup ok"
