"""props_c01_streams.py - streams of C01 added after the second audit (all quantify over "every structure x every CTL state formula";
they differ in HOW the caller arrived at the formula object / the label sets):

* EDITED FORMULA OBJECTS   a formula object with a history: built, (printed / hashed / model checked), then edited by its owner through the
                           public live operand list (subformulas()[i] = g, append / pop / reverse, atom.name = ...), then checked again - alone and
                           combined with a copy of what it was BEFORE the edit ("which states satisfy the new specification but not the old").
* LABEL OBJECTS            structures whose label sets contain objects that are merely == to the atom names (AtomicProposition objects of any of
                           the four language modules, instances of a str subclass), installed through the constructor, replace_labelling_function
                           or labels(s).add.
* RAW OPERANDS             formula objects built the documented way with RAW operands (Python bool / str given to the operator classes, the
                           overloaded & | ~), constants over-weighted.
Every answer is compared with the proved model on the intended tree (the harness applies the edits to the tuple independently of the library)."""
from common import *
from mccheck import *
from mccheck import _safe_tree, _build_shared

APS3 = ('p', 'q', 'r')
LEAF = ('true', 'false', 'ap')
STREAMS = ('edited formula objects', 'label objects', 'raw operands')


def tstr(t):
    """rendering of a tree READ BACK from a library object (may be malformed: an operator without operands)"""
    try:
        return fstr(t) if t and t[0] != 'unreadable' else repr(t)
    except Exception:  # noqa
        return repr(t)


def _ctl():
    return lang_module('CTL')


# =====================================================================================================================================
# tuple-level addressing
# =====================================================================================================================================
def positions(t, path=()):
    yield path, t
    if t[0] not in LEAF:
        for i, g in enumerate(t[1:]):
            yield from positions(g, path + (i,))


def node_at(t, path):
    for i in path:
        t = t[1 + i]
    return t


def replace_at(t, path, new):
    if not path:
        return new
    i = path[0]
    return t[:1 + i] + (replace_at(t[1 + i], path[1:], new),) + t[2 + i:]


def obj_at(o, path):
    for i in path:
        o = o.subformulas()[i]
    return o


def rand_state_sub(rng, aps=APS3):
    return rand_ctl(rng, rng.choice([0, 0, 1, 1, 2]), aps)


def rand_path_sub(rng, aps=APS3):
    o = rng.choice('XFGUR')
    if o in 'XFG':
        return (o, rand_ctl(rng, rng.randint(0, 1), aps))
    return (o, rand_ctl(rng, rng.randint(0, 1), aps), rand_ctl(rng, rng.randint(0, 1), aps))


# =====================================================================================================================================
# stream 1: formula objects edited by their owner between calls
# =====================================================================================================================================
def gen_edit(rng, t):
    """one edit of tree t -> (edit, new tree) or None.  Edits keep the tree a CTL state formula."""
    pos = list(positions(t))
    kind = rng.choice(['set', 'set', 'set', 'rename', 'rename', 'reverse', 'append', 'pop'])
    if kind == 'set':
        cand = [(p, g) for p, g in pos if p]
        if not cand:
            return None
        p, g = rng.choice(cand)
        new = rand_path_sub(rng) if g[0] in TEMPORAL else rand_state_sub(rng)
        if new == g:
            return None
        return ['set', list(p), new], replace_at(t, p, new)
    if kind == 'rename':
        cand = [(p, g) for p, g in pos if g[0] == 'ap']
        if not cand:
            return None
        p, g = rng.choice(cand)
        nm = rng.choice([a for a in APS3 if a != g[1]])
        return ['rename', list(p), nm], replace_at(t, p, ('ap', nm))
    if kind == 'reverse':
        cand = [(p, g) for p, g in pos if g[0] in NARY + ('imp', 'U', 'R') and len(g) > 2 and tuple(reversed(g[1:])) != g[1:]]
        if not cand:
            return None
        p, g = rng.choice(cand)
        return ['reverse', list(p)], replace_at(t, p, g[:1] + tuple(reversed(g[1:])))
    if kind == 'append':
        cand = [(p, g) for p, g in pos if g[0] in NARY]
        if not cand:
            return None
        p, g = rng.choice(cand)
        new = rand_state_sub(rng)
        return ['append', list(p), new], replace_at(t, p, g + (new,))
    cand = [(p, g) for p, g in pos if g[0] in NARY and len(g) > 3]
    if not cand:
        return None
    p, g = rng.choice(cand)
    i = rng.randrange(len(g) - 1)
    return ['pop', list(p), i], replace_at(t, p, g[:1 + i] + g[2 + i:])


def apply_edit(obj, e):
    """the owner's edit on the live object (public API: subformulas() returns the node's operand list, name is a public attribute)"""
    C = _ctl()
    k, path = e[0], e[1]
    if k == 'set':
        obj_at(obj, path[:-1]).subformulas()[path[-1]] = to_py(detuple(e[2]), C)
    elif k == 'rename':
        obj_at(obj, path).name = e[2]
    elif k == 'reverse':
        obj_at(obj, path).subformulas().reverse()
    elif k == 'append':
        obj_at(obj, path).subformulas().append(to_py(detuple(e[2]), C))
    elif k == 'pop':
        obj_at(obj, path).subformulas().pop(e[2])


def describe_edit(e):
    k, path = e[0], e[1]
    at = 'f' + ''.join('.subformulas()[%d]' % i for i in path)
    if k == 'set':
        return 'f' + ''.join('.subformulas()[%d]' % i for i in path[:-1]) + '.subformulas()[%d] = %s' % (path[-1], fstr(detuple(e[2])))
    if k == 'rename':
        return '%s.name = %r' % (at, e[2])
    if k == 'reverse':
        return '%s.subformulas().reverse()' % at
    if k == 'append':
        return '%s.subformulas().append(%s)' % (at, fstr(detuple(e[2])))
    return '%s.subformulas().pop(%d)' % (at, e[2])


NEW, OLD = ('ref', 0), ('ref', 1)


def gen_templates(rng):
    x = rand_ctl(rng, 1, APS3)
    pool = [('and', NEW, ('not', OLD)), ('and', OLD, ('not', NEW)), ('or', ('and', ('ap', 'p'), ('ap', 'q')), OLD, NEW), ('imp', OLD, NEW),
            ('imp', NEW, OLD), ('E', ('U', OLD, NEW)), ('A', ('R', NEW, OLD)), ('E', ('X', ('and', NEW, ('not', OLD)))),
            ('A', ('G', ('imp', OLD, ('E', ('F', NEW))))), ('not', ('or', ('not', NEW), OLD)), ('and', x, NEW, ('not', ('and', x, OLD))),
            ('E', ('G', ('or', NEW, ('not', OLD)))), ('A', ('U', ('not', OLD), NEW))]
    return [NEW] + rng.sample(pool, 2)


def gen_edit_session(rng):
    while True:
        f0 = gen_until(rng, lambda: rand_ctl(rng, rng.randint(1, 3), APS3), lambda t: t[0] not in LEAF and fsize(t) <= 14)
        if f0[0] in LEAF:
            continue
        edits, t = [], f0
        for _ in range(rng.choice([1, 1, 2])):
            r = None
            for _ in range(8):
                r = gen_edit(rng, t)
                if r:
                    break
            if r:
                edits.append(r[0])
                t = r[1]
        if not edits or t == f0 or not is_ctl_state(t) or tcount(t) > 6:
            continue
        m = rng.randint(2, 4)
        kd = rand_kripke(rng, m, aps=APS3)
        return {'stream': 'edited formula objects', 'logic': 'CTL', 'kripke': kd_json(kd), 'tree': f0, 'edited_tree': t,
                'before_the_edit': rng.choice(['modelcheck', 'modelcheck', 'modelcheck', 'str', 'hash', 'nothing']),
                'old_copy': rng.choice(['clone', 'clone', 'rebuilt']), 'edits': edits, 'queries': gen_templates(rng)}


def run_edit_session(spec):
    """-> records [(what, intended tree, answer, tree read back from the object queried)]"""
    C = _ctl()
    kd = kd_from_json(spec['kripke'])
    K = kd_py(kd)
    f0 = detuple(spec['tree'])
    obj = to_py(f0, C)
    old = obj.clone() if spec['old_copy'] == 'clone' else to_py(f0, C)
    recs = []

    def ask(what, o, tree):
        r = canon_answer(call(lambda: C.modelcheck(K, o)))
        recs.append({'what': what, 'tree': tree, 'ans': tuple(r), 'read_back': _safe_tree(o)})

    b = spec['before_the_edit']
    if b == 'modelcheck':
        ask('f before the edit', obj, f0)
    elif b == 'str':
        str(obj)
    elif b == 'hash':
        {obj: 1, old: 2}
    for i, e in enumerate(spec['edits']):
        try:
            apply_edit(obj, e)
        except Exception as ex:  # noqa
            recs.append({'what': 'edit %d (%s) raised %s' % (i, describe_edit(e), type(ex).__name__), 'edit_error': True})
            return recs
    t = detuple(spec['edited_tree'])
    for qi, tmpl in enumerate(spec['queries']):
        tmpl = detuple(tmpl)
        o = _build_shared(tmpl, C, [obj, old])
        ask('query %d: %s' % (qi, fstr(subst_names(tmpl))), o, subst_refs(tmpl, [t, f0]))
    return recs


def subst_names(t):
    if t[0] == 'ref':
        return ('ap', ['f', 'f_old'][t[1]])
    if t[0] in LEAF:
        return t
    return (t[0],) + tuple(subst_names(g) for g in t[1:])


def _edit_chunk(chunk):
    return [run_edit_session(s) for s in chunk]


def judge_edit_session(spec, recs, outs):
    probs, i = [], 0
    for r in recs:
        if r.get('edit_error'):
            probs.append((r['what'], {}))
            continue
        m = model_obs(outs[i])
        i += 1
        r['model'] = m
        if r['read_back'] != r['tree']:
            probs.append(('%s: the object queried does not have the intended tree %s but %s' % (r['what'], fstr(r['tree']), tstr(r['read_back'])),
                          {'impl': r['ans'], 'model': m}))
        elif tuple(r['ans']) != m:
            probs.append(('CTL.modelcheck on a formula object edited by its owner (f was %s, edits: %s) differs from the proved model on the tree the object has NOW; %s = %s'
                          % (fstr(detuple(spec['tree'])), '; '.join(describe_edit(e) for e in spec['edits']), r['what'], fstr(r['tree'])), {'impl': r['ans'], 'model': m}))
    return probs


def run_edited(R, n):
    rng = R.rng
    specs = [gen_edit_session(rng) for _ in range(n)]
    allrecs = pmap_chunks(_edit_chunk, specs, per=max(4, min(30, n // (3 * n_jobs()) + 1)))
    cmds, spans = [], []
    for spec, recs in zip(specs, allrecs):
        K = kd_py(kd_from_json(spec['kripke']))
        ks = kripke_sx(K)
        q = [['ctl', ks, fsx(r['tree'])] for r in recs if not r.get('edit_error')]
        spans.append((len(cmds), len(cmds) + len(q)))
        cmds += q
    outs = model_batch_parallel(cmds)
    bad = 0
    hist = R.cov.setdefault('edited_formula_objects', {'sessions': 0, 'modelcheck_calls': 0, 'edits': {}, 'before_the_edit': {}, 'sessions_with_problems': 0})
    for spec, recs, (a, b) in zip(specs, allrecs, spans):
        probs = judge_edit_session(spec, recs, outs[a:b])
        hist['sessions'] += 1
        hist['before_the_edit'][spec['before_the_edit']] = hist['before_the_edit'].get(spec['before_the_edit'], 0) + 1
        for e in spec['edits']:
            hist['edits'][e[0]] = hist['edits'].get(e[0], 0) + 1
        n_states = len(spec['kripke']['S'])
        for r in recs:
            if r.get('edit_error'):
                continue
            R.evaluations += 1
            hist['modelcheck_calls'] += 1
            if not probs and r['what'].startswith('query') and r['ans'][0] == 'ok' and 0 < len(r['ans'][1]) < n_states and has_temporal(r['tree']):
                R.nontriv(('edited', json.dumps(spec['kripke'], sort_keys=True), repr(spec['tree']), repr(spec['edits']), r['what']))
        if probs:
            bad += 1
            hist['sessions_with_problems'] += 1
            if bad <= 6:
                R.violation(probs[0][0], dict(spec, details=probs[0][1], all_problems=[p[0][:200] for p in probs[:6]]))
        elif hist['sessions'] <= 2:
            R.sample({'edited_formula_session': {'structure': spec['kripke'], 'f': fstr(detuple(spec['tree'])), 'before_the_edit': spec['before_the_edit'],
                                                 'edits': [describe_edit(e) for e in spec['edits']], 'queries': [r['what'] for r in recs if not r.get('edit_error')]}}, limit=8)
    return bad


def replay_edited(R, d):
    spec = {k: v for k, v in d.items() if k not in ('details', 'all_problems')}
    recs = run_edit_session(spec)
    ks = kripke_sx(kd_py(kd_from_json(spec['kripke'])))
    outs = model_batch([['ctl', ks, fsx(r['tree'])] for r in recs if not r.get('edit_error')])
    probs = judge_edit_session(spec, recs, outs)
    print('structure      :', spec['kripke'])
    print('f              :', fstr(detuple(spec['tree'])), '  (f_old = %s of f before the edit)' % ('f.clone()' if spec['old_copy'] == 'clone' else 'a separately built copy'))
    print('before the edit:', spec['before_the_edit'], '(f)')
    for e in spec['edits']:
        print('owner          :', describe_edit(e))
    print('f is now       :', fstr(detuple(spec['edited_tree'])))
    for r in recs:
        if r.get('edit_error'):
            print('   ', r['what'])
        else:
            print('    %-40s impl %s   model %s%s' % (r['what'], r['ans'], r['model'], '' if tuple(r['ans']) == r['model'] else '   <-- DIFFERENT'))
    for p in probs[:4]:
        print('PROBLEM:', p[0])
    if probs:
        R.violation('replayed: ' + probs[0][0], d)


# =====================================================================================================================================
# stream 2: label sets holding objects that are == to the atom names
# =====================================================================================================================================
class LabelName(str):
    """a label of an application that subclasses str (e.g. an interned signal name)"""
    __slots__ = ()


WRAPS = ['atoms:CTL', 'atoms:PL', 'atoms:LTL', 'atoms:CTLS', 'atoms:CTL', 'mixed', 'strsub', 'atoms:CTL', 'mixed2']
INSTALLS = ['ctor', 'ctor', 'replace', 'add', 'ctor', 'replace-list']


def wrap_label(wrap, s, i, a):
    """the label object standing for atom name a (i-th label of state number s)"""
    if wrap.startswith('atoms:'):
        return lang_module(wrap[6:]).AtomicProposition(a)
    if wrap == 'strsub':
        return LabelName(a)
    if wrap == 'mixed':
        return a if (s + i) % 2 else _ctl().AtomicProposition(a)
    return (a, lang_module('PL').AtomicProposition(a), LabelName(a), lang_module('CTLS').AtomicProposition(a))[(2 * s + i) % 4]


def build_K_label_objects(kd, wrap, install, rename=None):
    from pyModelChecking.kripke import Kripke
    ren = renaming(rename)
    inv = {}
    for s in list(kd['S']) + [x for e in kd['R'] for x in e]:
        inv[ren(s)] = s
    S, S0, Rl = [ren(s) for s in kd['S']], [ren(s) for s in kd['S0']], [(ren(a), ren(b)) for a, b in kd['R']]
    L = {ren(s): [wrap_label(wrap, s, i, a) for i, a in enumerate(ls)] for s, ls in kd['L'].items()}
    if install == 'ctor':
        K = Kripke(S=S, S0=S0, R=Rl, L=L)
    elif install == 'add':
        K = Kripke(S=S, S0=S0, R=Rl)
        for s, ls in L.items():
            for a in ls:
                K.labels(s).add(a)
    else:
        K = Kripke(S=S, S0=S0, R=Rl)
        K.replace_labelling_function({s: (list(ls) if install == 'replace-list' else set(ls)) for s, ls in L.items() if ls or inv[s] % 2})
    return K, inv


def _label_chunk(chunk):
    out = []
    for kd, f, wrap, install, rename in chunk:
        K, inv = build_K_label_objects(kd, wrap, install, rename)
        num = inv.__getitem__
        snap0 = kripke_snapshot(K)
        r = impl_mc('CTL', K, f, num=num)
        out.append((tuple(r), model_cmd('CTL', K, f, num=num), kripke_snapshot(K) == snap0, len(K.states())))
    return out


def run_label_objects(R, cases):
    items = []
    for ci, (kd, f) in enumerate(cases):
        items.append((kd, f, WRAPS[ci % len(WRAPS)], INSTALLS[ci % len(INSTALLS)], [None, None, 'str', None, 'tuple'][ci % 5]))
    res = pmap_chunks(_label_chunk, items, per=max(6, min(40, len(items) // (4 * n_jobs()) + 1)))
    outs = model_batch_parallel([c for _, c, _, _ in res])
    bad = 0
    hist = R.cov.setdefault('label_objects', {'cases': 0, 'label_elements': {}, 'installed_by': {}, 'differences': 0})
    for (kd, f, wrap, install, rename), (r, _, unchanged, n), o in zip(items, res, outs):
        R.evaluations += 1
        hist['cases'] += 1
        hist['label_elements'][wrap] = hist['label_elements'].get(wrap, 0) + 1
        hist['installed_by'][install] = hist['installed_by'].get(install, 0) + 1
        m = model_obs(o)
        if tuple(r) != m or not unchanged:
            bad += 1
            hist['differences'] += 1
            if bad <= 8:
                R.violation('CTL.modelcheck on a structure whose label sets hold objects == to the atom names (%s, installed by %s) differs from the proved model%s'
                            % (wrap, install, '' if unchanged else ' (and modified K)'),
                            {'stream': 'label objects', 'logic': 'CTL', 'kripke': kd_json(kd), 'formula': f, 'formula_str': fstr(f), 'label_elements': wrap,
                             'installed_by': install, 'states_renamed': rename, 'impl': r, 'model': m})
            continue
        R.count('agree_CTL_label_objects')
        if r[0] == 'ok' and has_temporal(f) and 0 < len(r[1]) < n and fatoms(f):
            R.nontriv(('labelobj', json.dumps(kd_json(kd), sort_keys=True), f, wrap, install, rename))
    return bad


def replay_label_objects(R, d):
    kd, f = kd_from_json(d['kripke']), detuple(d['formula'])
    K, inv = build_K_label_objects(kd, d['label_elements'], d['installed_by'], d.get('states_renamed'))
    num = inv.__getitem__
    r = impl_mc('CTL', K, f, num=num)
    m = model_obs(model_batch([model_cmd('CTL', K, f, num=num)])[0])
    print('formula :', fstr(f))
    print('K       :', K)
    print('labels  :', {repr(s): [(type(a).__module__.replace('pyModelChecking.', '') + '.' + type(a).__name__, str(a)) for a in K.labels(s)] for s in K.states()})
    print('impl    :', r)
    print('model   :', m)
    print('reference:', sorted(ref_check(kd, f)))
    if tuple(r) != m:
        R.violation('replayed: implementation differs from the proved model', d)


# =====================================================================================================================================
# stream 3: formula objects built with raw operands
# =====================================================================================================================================
def build_raw(f, C, rng, log):
    """object of tree f built top-down the way the documentation builds formulas: leaves given to an operator class as RAW Python values
    (True / False / 'name'), binary or/and sometimes through the overloaded & and |, negation sometimes through ~.  log collects the
    expression written."""
    t = f[0]
    if t == 'true' or t == 'false':
        log.append('Bool(%s)' % (t == 'true'))
        return C.Bool(t == 'true')
    if t == 'ap':
        log.append('AtomicProposition(%r)' % f[1])
        return C.AtomicProposition(f[1])
    args, texts = [], []
    for g in f[1:]:
        if g[0] in LEAF and rng.random() < 0.75:
            v = True if g[0] == 'true' else False if g[0] == 'false' else g[1]
            args.append(v)
            texts.append(repr(v))
        else:
            sub = []
            args.append(build_raw(g, C, rng, sub))
            texts.append(''.join(sub))
    has_obj = any(not isinstance(a, (bool, str)) for a in args)
    if t in NARY and len(args) == 2 and has_obj and rng.random() < 0.35:
        log.append('(%s %s %s)' % (texts[0], '&' if t == 'and' else '|', texts[1]))
        return (args[0] & args[1]) if t == 'and' else (args[0] | args[1])
    if t == 'not' and has_obj and rng.random() < 0.35:
        log.append('~%s' % texts[0])
        return ~args[0]
    log.append('%s(%s)' % (PYNAME[t], ', '.join(texts)))
    return getattr(C, PYNAME[t])(*args)


def const_rich(rng, f, p):
    """f with some of its leaves replaced by constants"""
    if f[0] in LEAF:
        return rng.choice([('true',), ('false',), ('false',)]) if rng.random() < p else f
    return (f[0],) + tuple(const_rich(rng, g, p) for g in f[1:])


def raw_cases(rng, n):
    out = []
    while len(out) < n:
        aps = ('p', 'q') if rng.random() < 0.85 else ('p', 'q', '')
        f = gen_until(rng, lambda: rand_ctl(rng, rng.randint(1, 3), aps), has_temporal)
        f = const_rich(rng, f, rng.choice([0.15, 0.3, 0.45]))
        if f[0] in LEAF or not any(g[0] in LEAF for h in subformulas(f) if h[0] not in LEAF for g in h[1:]):
            continue
        out.append((rand_kripke(rng, rng.randint(1, 4), aps=aps), f, rng.randrange(1 << 30)))
    return out


def _raw_one(kd, f, seed):
    C = _ctl()
    K = kd_py(kd)
    log = []
    b = call(lambda: build_raw(f, C, random.Random(seed), log))
    if b[0] != 'ok':
        return (('err', 'construction:' + b[1]), model_cmd('CTL', K, f), None, len(K.states()), ''.join(log))
    r = canon_answer(call(lambda: C.modelcheck(K, b[1])))
    return (tuple(r), model_cmd('CTL', K, f), _safe_tree(b[1]), len(K.states()), ''.join(log))


def _raw_chunk(chunk):
    return [_raw_one(*c) for c in chunk]


def run_raw(R, cases):
    res = pmap_chunks(_raw_chunk, cases, per=max(6, min(40, len(cases) // (4 * n_jobs()) + 1)))
    outs = model_batch_parallel([c for _, c, _, _, _ in res])
    bad = 0
    hist = R.cov.setdefault('raw_operands', {'cases': 0, 'raw_True': 0, 'raw_False': 0, 'raw_str': 0, 'overloaded_operators': 0, 'differences': 0})
    for (kd, f, seed), (r, _, tree, n, expr), o in zip(cases, res, outs):
        R.evaluations += 1
        hist['cases'] += 1
        bare = expr.replace('Bool(True)', '').replace('Bool(False)', '')
        for key, pat in (('raw_True', r'[(, ]True[,) ]'), ('raw_False', r'[(, ]False[,) ]'), ('raw_str', r"[(, ]'[^']*'[,) ]"), ('overloaded_operators', r'[&|~]')):
            if re.search(pat, bare):
                hist[key] += 1
        m = model_obs(o)
        if tuple(r) != m or tree != f:
            bad += 1
            hist['differences'] += 1
            if bad <= 8:
                if tree is not None and tree != f:
                    what = 'CTL.%s builds %s instead of %s' % (expr, tstr(tree), fstr(f))
                else:
                    what = 'CTL.modelcheck on a formula built with raw operands differs from the proved model'
                R.violation(what + ': modelcheck(K, %s) gives %s, the proved model on %s gives %s' % (expr, r, fstr(f), m),
                            {'stream': 'raw operands', 'logic': 'CTL', 'kripke': kd_json(kd), 'formula': f, 'formula_str': fstr(f), 'construction_seed': seed,
                             'expression': expr, 'impl': r, 'model': m, 'tree_built': tree})
            continue
        R.count('agree_CTL_raw_operands')
        if r[0] == 'ok' and 0 < len(r[1]) < n:
            R.nontriv(('raw', json.dumps(kd_json(kd), sort_keys=True), f, expr))
    return bad


def replay_raw(R, d):
    kd, f = kd_from_json(d['kripke']), detuple(d['formula'])
    r, cmd, tree, _, expr = _raw_one(kd, f, d['construction_seed'])
    m = model_obs(model_batch([cmd])[0])
    print('intended tree:', fstr(f))
    print('expression   : CTL.' + expr)
    print('tree built   :', tstr(tree))
    print('impl         :', r)
    print('model        :', m)
    print('reference    :', sorted(ref_check(kd, f)))
    if tuple(r) != m or tree != f:
        R.violation('replayed: implementation differs from the proved model', d)


def replay_stream(R, data):
    d = data['data']
    s = d.get('stream')
    if s == 'edited formula objects':
        return replay_edited(R, d)
    if s == 'label objects':
        return replay_label_objects(R, d)
    if s == 'raw operands':
        return replay_raw(R, d)
    raise ValueError(s)
