"""parsegen.py - shared machinery of the parser properties C09 (print -> parse round trip, printer
injectivity) and C10 (rejection contract): observation of the live Lark-based parsers, the model
commands, formula-shape enumeration, string generators (word sequences, glued forms, token-level
edits, respacing, character-level garbage) and a process pool for the implementation side.
Also: identifier atoms per logic (random names, names containing keyword spellings in any case, keywords of the other
logics), wide and tall formulas, a flat (preorder) formula encoding with iterative readers for results nested deeper than the
recursion limit, non-ASCII look-alikes of ASCII letters / digits / blanks / operators, very deep inputs, and sessions
(one parser object given a sequence with repetitions and look-alikes).

All randomness comes from the `rng` argument (R.rng); the pool only maps a pure function over
chunks of already generated inputs, so a run is deterministic given VERIF_SEED.
"""
import os, io, re, string, itertools, contextlib
from common import (Q, lang_module, to_py, tree_of, langs_in, fparse, fsx, subformulas,
                    is_pl, is_ctl_state, is_ctl_path, is_ltl_path, is_ltl_state,
                    rand_ctl, rand_path, rand_ctls_state, rand_pl, UNARY, BINARY, NARY,
                    model_batch, model_batch_parallel, lang_of_obj, TAG, fheight)

LANGS = ('PL', 'CTLS', 'CTL', 'LTL')
# identifier-style, non-reserved atoms; those starting like a keyword (or/and/U/R/X/A/true) are the risky ones
ATOMS = ('p', 'q', 'Ab', 'AX', 'orb', 'true_', '_x1', 'Until', 'Rx', 'U2')
LEAVES = tuple(('ap', a) for a in ATOMS) + (('true',), ('false',))
WORDS17 = ['true', 'false', 'not', 'or', 'and', '-->', 'A', 'E', 'X', 'F', 'G', 'U', 'R', '(', ')', 'p', 'q']
EXTRA = ['~', '|', '&', '"s t"', 'orb', 'Until', 'Ab', 'true_']
QUOTED = ['"a b"', '"x\\"y"', '"or"', '""', '"(p"', '"b\\\\"', '"caf\xe9"', '"A U"']
SYN = {'not': '~', 'or': '|', 'and': '&'}
GLUE = ['', '', '', ' ', ' ', '  ', '\t', '\n', '\r\n', '\f']
TOKEN_RE = re.compile(r'-->|[()~|&]|"(?:[^"\\]|\\.)*"|[A-Za-z_0-9]+')
JOBS = max(2, min(12, (os.cpu_count() or 4) - 2))

# spellings hard-wired in coq/Model/Parse.v (uop_of_word, split_kw, classify, lex_start) and Print.v
MODEL_SYMBOLS = {'Not': ['not', '~'], 'Or': ['or', '|'], 'And': ['and', '&'], 'Imply': ['-->'],
                 'A': ['A'], 'E': ['E'], 'X': ['X'], 'F': ['F'], 'G': ['G'], 'U': ['U'], 'R': ['R']}
MODEL_OPS = {'PL': ('Not', 'Or', 'And', 'Imply'),
             'CTLS': ('Not', 'Or', 'And', 'Imply', 'A', 'E', 'X', 'F', 'G', 'U', 'R'),
             'CTL': ('Not', 'Or', 'And', 'Imply', 'A', 'E', 'X', 'F', 'G', 'U', 'R'),
             'LTL': ('Not', 'Or', 'And', 'Imply', 'A', 'X', 'F', 'G', 'U', 'R')}


def symbol_table_diffs():
    """the symbol tables of the live modules vs the spellings the model was written for"""
    import importlib
    bad = []
    for L in LANGS:
        alpha = importlib.import_module('pyModelChecking.%s.language' % L).alphabet
        live = {k: list(c.symbols) for k, c in alpha.items() if k not in ('Bool', 'AtomicProposition')}
        want = {k: MODEL_SYMBOLS[k] for k in MODEL_OPS[L]}
        bools = dict(alpha['Bool'].symbols)
        if live != want or bools != {True: 'true', False: 'false'}:
            bad.append({'lang': L, 'live': live, 'live_bool': {str(k): v for k, v in bools.items()}, 'model': want})
    return bad


# ----------------------------------------------------------------------------------------
# observing the implementation
# ----------------------------------------------------------------------------------------
_PARSERS = {}


def parsers():
    if not _PARSERS:
        import pyModelChecking.parser as pp
        for L in LANGS:
            try:
                _PARSERS[L] = lang_module(L).Parser()
            except Exception as e:  # noqa   (e.g. a grammar Lark cannot build tables for)
                _PARSERS[L] = _Broken('%s.Parser() cannot be constructed: %s.%s: %s' % (L, type(e).__module__, type(e).__name__, ' '.join(str(e).split())[:200]))
        _PARSERS['_pp'] = pp
    return _PARSERS


class _Broken(object):
    """stands for a parser whose construction failed: every call reports that failure"""
    def __init__(self, why):
        self.why = why

    def __call__(self, s):
        raise RuntimeError('Parser() cannot be constructed: ' + self.why)


def observe(L, s, parser=None, flat_result=False):
    """outcome of <L>.Parser()(s) on the live library:
       ('ok', tree, langs)                  a formula; tree via class names, langs = modules of all its nodes
       ('okbad', text)                      returned something that is not a formula object
       ('err', kind, pos_ok, pos)           kind = 'UnexpectedToken' / 'UnexpectedCharacters' iff the exception's class IS
                                            pyModelChecking.parser.<that> (identity, not name), else 'other:<module>.<name>';
                                            pos_ok = .pos is an int with 0 <= pos <= len(s)
    parser: the parser object to call (default: this process's long-lived one of language L);
    flat_result: read the result ITERATIVELY into the preorder token list of flat() instead of a nested tuple (results
    nested deeper than the harness's recursive readers can follow; the recursion limit is never raised)"""
    P = parsers()
    pp = P['_pp']
    if parser is None:
        parser = P[L]
    if isinstance(parser, _Broken):
        return ('err', 'other:' + parser.why, False, None)
    buf = io.StringIO()
    try:
        with contextlib.redirect_stdout(buf):
            o = parser(s)
    except RecursionError:
        return ('err', 'other:builtins.RecursionError', False, None)
    except Exception as e:  # noqa
        t = type(e)
        if t is pp.UnexpectedToken:
            kind = 'UnexpectedToken'
        elif t is pp.UnexpectedCharacters:
            kind = 'UnexpectedCharacters'
        else:
            return ('err', 'other:%s.%s' % (t.__module__, t.__name__), False, repr(getattr(e, 'pos', None)))
        pos = getattr(e, 'pos', None)
        ok = isinstance(pos, int) and not isinstance(pos, bool) and 0 <= pos <= len(s)
        if ok:
            # the documented rendering of the error must work as well (it indexes with pos)
            try:
                str(e)
            except Exception:  # noqa
                ok = False
        return ('err', kind, ok, pos if isinstance(pos, int) else repr(pos))
    try:
        if flat_result:
            return ('ok',) + flat_of_obj(o)
        return ('ok', tree_of(o), tuple(sorted(langs_in(o))))
    except Exception as e:  # noqa
        return ('okbad', '%s: %r' % (type(o).__name__, e))


def observe4(s):
    return tuple(observe(L, s) for L in LANGS)


def observe4_chunk(strings):
    return [observe4(s) for s in strings]


_EARLEY = {}


def earley_accepts(L, s):
    """independent UPPER bound: Lark's Earley parser with the dynamic lexer on the live grammar text
    recognises the pure CFG (atom terminal = the regex, keywords not reserved)"""
    if L not in _EARLEY:
        from lark import Lark
        _EARLEY[L] = Lark(lang_module(L).Parser.grammar, start='formula', parser='earley', lexer='dynamic')
    try:
        _EARLEY[L].parse(s)
        return True
    except Exception:  # noqa
        return False


def earley_chunk(items):
    return [earley_accepts(L, s) for (L, s) in items]


def pmap(fn, items, jobs=None, chunk=None, min_parallel=400):
    """map a chunk function over items in a fork pool, order preserving"""
    items = list(items)
    jobs = jobs or JOBS
    if len(items) < min_parallel or jobs <= 1:
        return fn(items)
    import multiprocessing as mp
    chunk = chunk or max(50, min(4000, len(items) // (jobs * 4) + 1))
    chunks = [items[i:i + chunk] for i in range(0, len(items), chunk)]
    with mp.get_context('fork').Pool(jobs) as pool:
        res = pool.map(fn, chunks, 1)
    return [x for r in res for x in r]


# ----------------------------------------------------------------------------------------
# the model
# ----------------------------------------------------------------------------------------
def mstr(s):
    """the model works on 8-bit characters; every character outside the grammar's ASCII alphabet behaves the
    same in Lark (legal only inside a quoted atom), so code points > 255 are folded to 0xff for the model"""
    return ''.join(c if ord(c) < 256 else '\xff' for c in s)


def mtree(t):
    if t[0] == 'ap':
        return ('ap', mstr(t[1]))
    if t[0] in ('true', 'false'):
        return t
    return (t[0],) + tuple(mtree(g) for g in t[1:])


def parse_cmd(L, s):
    return ['parse', L, Q(mstr(s))]


def model_parse_result(a):
    return ('ok', fparse(a[1])) if a[0] == 'ok' else ('err', str(a[1]))


def agree(L, r, m):
    """implementation outcome r (observe) vs model outcome m: accept/reject and the tree"""
    if r[0] == 'ok':
        return m[0] == 'ok' and mtree(r[1]) == m[1]
    if r[0] == 'err':
        return m[0] == 'err' and m[1] == 'ParserError'
    return False


# ----------------------------------------------------------------------------------------
# documented grammars on trees (independent of the model): common.py recognisers + arities
# ----------------------------------------------------------------------------------------
def arities_ok(t):
    for g in subformulas(t):
        k = g[0]
        if k in ('true', 'false'):
            if len(g) != 1:
                return False
        elif k == 'ap':
            if len(g) != 2 or not isinstance(g[1], str):
                return False
        elif k in UNARY:
            if len(g) != 2:
                return False
        elif k in BINARY:
            if len(g) != 3:
                return False
        elif k in NARY:
            if len(g) < 3:
                return False
        else:
            return False
    return True


def doc_member(L, t):
    if not arities_ok(t):
        return False
    if L == 'PL':
        return is_pl(t)
    if L == 'CTL':
        return is_ctl_state(t) or is_ctl_path(t)
    if L == 'LTL':
        return is_ltl_path(t) or is_ltl_state(t)
    return True     # CTLS: p_formula = every operator tree


def n_ops(t):
    return sum(1 for g in subformulas(t) if g[0] not in ('true', 'false', 'ap'))


# ----------------------------------------------------------------------------------------
# formulas: shapes of bounded depth, leaf assignments, random
# ----------------------------------------------------------------------------------------
HOLE = ('?',)


def shapes(logic, depth):
    """every operator tree of nesting depth <= depth of the logic with a hole at each leaf; n-ary or/and with
    2 and 3 operands.  PL / LTL (path formulas) / CTLS (all operator trees): one level = one operator;
    CTL (state formulas): one level = a connective or a quantifier+temporal pair."""
    if logic == 'CTL':
        un = [lambda f: ('not', f)] + [(lambda f, q=q, o=o: (q, (o, f))) for q in 'AE' for o in 'XFG']
        bi = [lambda f, g: ('imp', f, g)] + [(lambda f, g, q=q, o=o: (q, (o, f, g))) for q in 'AE' for o in 'UR']
    else:
        ops = {'PL': ['not'], 'LTL': ['not', 'X', 'F', 'G'], 'CTLS': ['not', 'X', 'F', 'G', 'A', 'E']}[logic]
        un = [(lambda f, u=u: (u, f)) for u in ops]
        bi = [(lambda f, g, b=b: (b, f, g)) for b in (['imp'] if logic == 'PL' else ['imp', 'U', 'R'])]
    cur = [HOLE]
    for _ in range(depth):
        prev = cur
        new = [HOLE]
        for u in un:
            new += [u(f) for f in prev]
        for b in bi:
            new += [b(f, g) for f in prev for g in prev]
        for n in ('or', 'and'):
            new += [(n, f, g) for f in prev for g in prev]
            new += [(n, f, g, h) for f in prev for g in prev for h in prev]
        cur = new
    return cur


def n_holes(t):
    if t == HOLE:
        return 1
    if t[0] in ('true', 'false', 'ap'):
        return 0
    return sum(n_holes(g) for g in t[1:])


def fill(t, leaves):
    """replace the holes left to right by the items of the iterator"""
    if t == HOLE:
        return next(leaves)
    if t[0] in ('true', 'false', 'ap'):
        return t
    return (t[0],) + tuple(fill(g, leaves) for g in t[1:])


def fill_rot(t, r, step=5):
    """deterministic leaf assignment number r: hole i gets LEAVES[(r + step*i) mod 12]; over r = 0..11 every
    hole sees every leaf, neighbouring holes get different leaves (step is coprime to 12)"""
    return fill(t, (LEAVES[(r + step * i) % len(LEAVES)] for i in itertools.count()))


def fill_rand(t, rng):
    return fill(t, (rng.choice(LEAVES) for _ in itertools.count()))


def ctl_path_shapes(depth):
    """CTL path formulas (accepted by the CTL grammar's start rule): X/F/G s, s U s, s R s"""
    st = shapes('CTL', depth)
    return [(o, f) for o in 'XFG' for f in st] + [(o, f, g) for o in 'UR' for f in st for g in st]


def rand_formula(rng, logic, d, aps=ATOMS):
    """(logic, tree) of a random formula the parser of `logic` is documented to accept"""
    r = rng.random()
    if logic == 'PL':
        return rand_pl(rng, d, aps)
    if logic == 'LTL':
        g = rand_path(rng, max(0, d - 1) if r < 0.4 else d, aps, quant=False)
        return ('A', g) if r < 0.4 else g
    if logic == 'CTLS':
        return rand_ctls_state(rng, d, aps) if r < 0.5 else rand_path(rng, d, aps, quant=True)
    if r < 0.85:
        return rand_ctl(rng, d, aps)
    o = rng.choice('XFGUR')
    if o in 'XFG':
        return (o, rand_ctl(rng, d - 1, aps))
    return (o, rand_ctl(rng, d - 1, aps), rand_ctl(rng, d - 1, aps))


# ----------------------------------------------------------------------------------------
# strings
# ----------------------------------------------------------------------------------------
def seqs(alphabet, n, sep=' '):
    """all sequences of exactly n words"""
    for t in itertools.product(alphabet, repeat=n):
        yield sep.join(t)


def glued(alphabet, n):
    """all sequences of exactly n words with every choice of '' / ' ' per gap"""
    for t in itertools.product(alphabet, repeat=n):
        for gaps in itertools.product(('', ' '), repeat=n - 1):
            yield ''.join(w + g for w, g in zip(t, gaps + ('',)))


def rand_seq(rng, alphabet, n, glue=False):
    ws = [rng.choice(alphabet) for _ in range(n)]
    if not glue:
        return ' '.join(ws)
    return ''.join(w + (rng.choice(('', ' ')) if i + 1 < n else '') for i, w in enumerate(ws))


POOLS = ('PL', 'CTLS', 'CTLS_path', 'CTL_compact', 'CTL_as_CTLS', 'CTL_path', 'LTL', 'LTL_A')


def printed_pools(rng, n):
    """valid printed strings by pool: str() of random formulas of every logic (CTL both in its own compact
    notation and in CTL* notation)"""
    PLm, CTLSm, CTLm, LTLm = (lang_module(x) for x in LANGS)
    pools = {k: [] for k in POOLS}
    for _ in range(n):
        d = rng.choice((1, 2, 2, 3, 3, 4))
        pools['PL'].append(str(to_py(rand_pl(rng, d, ATOMS), PLm)))
        pools['CTLS'].append(str(to_py(rand_ctls_state(rng, d, ATOMS), CTLSm)))
        pools['CTLS_path'].append(str(to_py(rand_path(rng, d, ATOMS, quant=True), CTLSm)))
        f = rand_ctl(rng, d, ATOMS)
        pools['CTL_compact'].append(str(to_py(f, CTLm)))
        pools['CTL_as_CTLS'].append(str(to_py(f, CTLSm)))
        o = rng.choice('XFGUR')
        h = (o, rand_ctl(rng, d - 1, ATOMS)) if o in 'XFG' else (o, rand_ctl(rng, d - 1, ATOMS), rand_ctl(rng, d - 1, ATOMS))
        pools['CTL_path'].append(str(to_py(h, CTLSm)))
        g = rand_path(rng, d, ATOMS, quant=False)
        pools['LTL'].append(str(to_py(g, LTLm)))
        pools['LTL_A'].append(str(to_py(('A', g), LTLm)))
    return {k: sorted(set(v)) for k, v in pools.items()}


VOCAB = WORDS17 + EXTRA + list(ATOMS)


def mutate1(rng, toks):
    """exactly one token-level edit of the token list: (kind, new token list) or None.
    kinds del / ins / rep are at token edit distance 1, swap exchanges two adjacent tokens (one transposition)"""
    t = list(toks)
    kind = rng.choice(('del', 'ins', 'swap', 'rep'))
    if kind == 'del' and t:
        del t[rng.randrange(len(t))]
    elif kind == 'ins':
        t.insert(rng.randrange(len(t) + 1), rng.choice(VOCAB))
    elif kind == 'swap' and len(t) >= 2:
        i = rng.randrange(len(t) - 1)
        t[i], t[i + 1] = t[i + 1], t[i]
    elif kind == 'rep' and t:
        t[rng.randrange(len(t))] = rng.choice(VOCAB)
    else:
        return None
    if t == list(toks):
        return None
    return kind, t


def respace(rng, s):
    """same token sequence, other spelling: symbolic synonyms, quoted atoms, random glue between tokens"""
    toks = TOKEN_RE.findall(s)
    t2 = []
    for t in toks:
        if t in SYN and rng.random() < 0.5:
            t = SYN[t]
        elif t in ATOMS and rng.random() < 0.15:
            t = rng.choice(QUOTED)
        t2.append(t)
    mode = rng.random()
    out = []
    for i, t in enumerate(t2):
        out.append(t)
        if i + 1 < len(t2):
            a, b = t, t2[i + 1]
            wordish = (a[-1].isalnum() or a[-1] == '_') and (b[0].isalnum() or b[0] == '_')
            if mode < 0.5 and wordish:
                out.append(rng.choice((' ', ' ', '\t', '\n', '  ')))     # keep the words apart
            else:
                out.append(rng.choice(GLUE))                             # may merge words
    return ''.join(out)


# character-level garbage: everything the grammar has no token for, unbalanced quotes, arrows cut short,
# control characters, non-ASCII / non-BMP characters, mixed with a few legal fragments
PALETTE = (list('pqAEXFGUR()()  ~|&->"\\#\'_019.,;:!?[]{}=+*/<\t\n\r\f\x0b\x00\x7f') +
           ['\xe9', '\xa0', '\xff', '\u20ac', '\u03bb', '\u2227', '\u2192', '\u2028', '\U0001f600'] +
           ['or', 'and', 'not', 'true', 'false', '-->', '->', '--', ' ', ' ', '"a', 'b"', '\\"', 'A(', ' U '])


def garbage(rng, maxlen=12):
    return ''.join(rng.choice(PALETTE) for _ in range(rng.randint(0, maxlen)))


def char_mutation(rng, s):
    """one character-level edit of a valid string"""
    k = rng.choice(('ins', 'del', 'rep', 'dup', 'cut'))
    if k == 'ins' or not s:
        i = rng.randint(0, len(s))
        return s[:i] + rng.choice(PALETTE) + s[i:]
    i = rng.randrange(len(s))
    if k == 'del':
        return s[:i] + s[i + 1:]
    if k == 'rep':
        return s[:i] + rng.choice(PALETTE) + s[i + 1:]
    if k == 'dup':
        return s[:i] + s[i] + s[i:]
    return s[:i]


def long_inputs(rng):
    """very long / deeply nested inputs, within reason (a few thousand characters, nesting <= 450: deeper trees exceed the
    recursion limit of the HARNESS's own recursive readers; the parsers themselves are iterative and must not be depth-limited
    at all - deep_inputs() has nesting 500..5000, read with observe(..., flat_result=True))"""
    out = ['(' * 150 + 'p' + ')' * 150, '(' * 150 + 'p' + ')' * 149, '(' * 150 + 'p or q' + ')' * 150,
           'not ' * 200 + 'p', '~' * 200 + 'p', 'A X ' * 100 + 'p', 'A F E G ' * 60 + 'p', 'X ' * 200 + 'p',
           ' or '.join(['p'] * 300), ' and '.join(['(p or q)'] * 150), '|'.join(['p'] * 300) + ' and q',
           'A(' * 100 + 'p' + ' U q)' * 100, 'A(' * 100 + 'p' + ' U q)' * 99, '(' * 100 + 'p' + ' --> q)' * 100,
           'p or' + 'or' * 100, 'p or ' + 'orb' * 100, 'x' * 2000, 'p U' + 'U' * 500,
           '"' + 'a' * 3000 + '"', '"' + 'a' * 3000, '"' + '\\"' * 500 + '"', '"' + '\\' * 501 + '"', '#' * 1000,
           '-' * 999, 'p ' * 1000, '(' * 300, ')' * 300, 'not ' * 300, '\u20ac' * 500, ' ' * 2000, '\n' * 500 + 'p',
           '(' * 200 + 'A(p U ' * 50 + 'q' + ')' * 249, 'p --> ' * 200 + 'q',
           'not ' * 450 + 'p', '(' * 400 + 'p' + ')' * 400, 'X ' * 450 + 'p', '~' * 430 + '(p and q)', 'E G ' * 220 + 'q', 'A F ' * 220 + 'q']
    for _ in range(6):
        out.append(''.join(rng.choice(PALETTE) for _ in range(rng.randint(300, 2500))))
    return out


# hand-written strings: no-space forms, quoted atoms, escapes, garbage characters (see parse_probe.py)
def special_strings():
    import parse_probe
    return list(parse_probe.SPECIAL)


# ----------------------------------------------------------------------------------------
# flat (preorder) encoding of formulas: iterative, so nesting depth is not limited by Python's recursion limit;
# also the JSON form of tall formulas in replay files
# ----------------------------------------------------------------------------------------
def flat(t):
    """preorder token list of a formula tuple: 'true' / 'false' / 'ap:<name>' / [tag, arity]"""
    out, stack = [], [t]
    while stack:
        g = stack.pop()
        if g[0] == 'ap':
            out.append('ap:' + g[1])
        elif g[0] in ('true', 'false'):
            out.append(g[0])
        else:
            out.append([g[0], len(g) - 1])
            stack.extend(reversed(g[1:]))
    return out


def unflat(toks):
    """inverse of flat (iterative)"""
    stack = []
    for tk in reversed(list(toks)):
        if isinstance(tk, str):
            stack.append(('ap', tk[3:]) if tk.startswith('ap:') else (tk,))
        else:
            tag, k = tk
            stack.append((tag,) + tuple(stack.pop() for _ in range(k)))
    if len(stack) != 1:
        raise ValueError('not a preorder token list of one formula')
    return stack[0]


def flat_of_obj(o):
    """(preorder token list, sorted language names of all nodes) of a live formula object, read with an explicit stack
    through type(x).__name__ and .subformulas() only"""
    out, langs, stack = [], set(), [o]
    while stack:
        x = stack.pop()
        langs.add(lang_of_obj(x))
        name = type(x).__name__
        if name == 'Bool':
            out.append('true' if x._value else 'false')
        elif name == 'AtomicProposition':
            out.append('ap:' + str(x.name))
        else:
            subs = list(x.subformulas())
            out.append([TAG[name], len(subs)])
            stack.extend(reversed(subs))
    return out, tuple(sorted(langs))


def flat_of_sx(x):
    """preorder token list of the driver's s-expression of a formula (nested lists from the iterative sx_parse)"""
    out, stack = [], [x]
    while stack:
        g = stack.pop()
        t = g[0]
        if t == 't':
            out.append('true')
        elif t == 'f':
            out.append('false')
        elif t == 'a':
            out.append('ap:' + str(g[1]))
        else:
            out.append([str(t), len(g) - 1])
            stack.extend(reversed(g[1:]))
    return out


def mflat(toks):
    """atom names folded like mstr (what the 8-bit model sees)"""
    return [('ap:' + mstr(tk[3:])) if isinstance(tk, str) and tk.startswith('ap:') else list(tk) if not isinstance(tk, str) else tk
            for tk in toks]


def model_parse_result_flat(a):
    return ('ok', flat_of_sx(a[1])) if a[0] == 'ok' else ('err', str(a[1]))


def agree_flat(L, r, m):
    """agree() for outcomes read with flat_result=True / model_parse_result_flat"""
    if r[0] == 'ok':
        return m[0] == 'ok' and mflat(r[1]) == m[1]
    if r[0] == 'err':
        return m[0] == 'err' and m[1] == 'ParserError'
    return False


def doc_member_flat(L, toks):
    """the documented grammars on a preorder token list (iterative counterpart of doc_member): arities, and
    PL: no temporal operator or quantifier; LTL: no E, A only as the root; CTL: every A/E directly above a temporal
    operator and every temporal operator directly below an A/E (or the root: a path formula); CTLS: all operator trees"""
    prev = None
    for i, tk in enumerate(toks):
        if isinstance(tk, str):
            prev = None
            continue
        tag, k = tk
        if tag in UNARY:
            if k != 1:
                return False
        elif tag in BINARY:
            if k != 2:
                return False
        elif tag in NARY:
            if k < 2:
                return False
        else:
            return False
        temporal = tag in ('X', 'F', 'G', 'U', 'R')
        if L == 'PL' and (temporal or tag in ('A', 'E')):
            return False
        if L == 'LTL' and (tag == 'E' or (tag == 'A' and i != 0)):
            return False
        if L == 'CTL':
            if temporal and not (i == 0 or prev in ('A', 'E')):
                return False
            if prev in ('A', 'E') and not temporal:
                return False
        prev = tag
    if L == 'CTL' and prev in ('A', 'E'):
        return False
    return True


def compact(x):
    """JSON-friendly copy of replay details: formula tuples of height > 40 are replaced by {'flat': token list}"""
    if isinstance(x, tuple) and x and isinstance(x[0], str) and (x[0] in ('true', 'false', 'ap') or x[0] in TAG.values()) \
            and all(isinstance(g, tuple) for g in x[1:] if x[0] != 'ap'):
        return {'flat': flat(x)} if _height_iter(x) > 40 else x
    if isinstance(x, dict):
        return {k: compact(v) for k, v in x.items()}
    if isinstance(x, (list, tuple)):
        return [compact(v) for v in x]
    return x


def _height_iter(t):
    h, stack = 0, [(t, 0)]
    while stack:
        g, d = stack.pop()
        h = max(h, d)
        if g[0] not in ('true', 'false', 'ap'):
            stack.extend((c, d + 1) for c in g[1:])
    return h


# ----------------------------------------------------------------------------------------
# identifier atoms: random names, names that contain keyword spellings in any case, keywords of OTHER logics
# ----------------------------------------------------------------------------------------
KEYWORDS = ('true', 'false', 'not', 'or', 'and', 'A', 'E', 'X', 'F', 'G', 'U', 'R')
IDENT_RE = re.compile(r'[a-zA-Z_][a-zA-Z_0-9]*\Z')
IDCH1 = string.ascii_letters + '_'
IDCH = IDCH1 + string.digits
# names that a sloppy lexer / preprocessing step would confuse with an operator or a constant
RISKY_NAMES = ('isTrue', 'False_alarm', 'True', 'False', 'TRUE', 'FALSE', 'tRue', 'Not', 'NOT', 'nOt', 'Or', 'OR', 'And', 'AND',
               'a', 'e', 'x', 'f', 'g', 'u', 'r', 'nottrue', 'trueU', 'Up', 'pU', 'pUq', 'aRb', 'XX', 'AG', 'EF', 'AU', 'EX', 'Ex',
               'orand', 'andor', 'oror', 'notnot', 'falsefalse', 'TrueFalse', 'xTruey', 'a_or_b', 'p_and', 'U_', '_R', 'G1', 'F0',
               '_', '__', '_1', 'p_', 'P', 'Q', 'p1q', 'A', 'E', 'X', 'F', 'G', 'U', 'R')


def reserved_words(L):
    """the identifier-like spellings logic L reserves: its OWN symbol table (MODEL_OPS / MODEL_SYMBOLS, compared with the
    live modules by symbol_table_diffs).  'E' is an ordinary name in LTL, A E X F G U R are ordinary names in PL."""
    ws = {'true', 'false'}
    for k in MODEL_OPS[L]:
        ws.update(w for w in MODEL_SYMBOLS[k] if IDENT_RE.match(w))
    return ws


def case_variant(rng, w):
    k = rng.randrange(6)
    if k == 0:
        return w
    if k == 1:
        return w.lower()
    if k == 2:
        return w.upper()
    if k == 3:
        return w.capitalize()
    if k == 4:
        return w.swapcase()
    return ''.join(c.upper() if rng.random() < 0.5 else c.lower() for c in w)


def rand_ident(rng, L):
    """a random name matching [a-zA-Z_][a-zA-Z_0-9]* that logic L does not reserve"""
    res = reserved_words(L)
    while True:
        m = rng.random()
        if m < 0.25:
            a = rng.choice(IDCH1) + ''.join(rng.choice(IDCH) for _ in range(rng.choice((0, 0, 1, 1, 2, 3, 5, 8))))
        elif m < 0.45:
            a = case_variant(rng, rng.choice(KEYWORDS))
        else:
            a = ''.join(rng.choice(IDCH) for _ in range(rng.choice((0, 0, 1, 1, 2))))
            for _ in range(rng.choice((1, 1, 1, 2))):
                a += case_variant(rng, rng.choice(KEYWORDS + ('True', 'False')))
                a += ''.join(rng.choice(IDCH) for _ in range(rng.choice((0, 0, 1, 1, 2))))
        if IDENT_RE.match(a) and a not in res:
            return a


def ident_pool(rng, L, n_random=40):
    """the names used for logic L in the identifier streams: the risky hand-written ones L does not reserve, every keyword
    of another logic, and n_random random ones; sorted-unique, deterministic given rng"""
    res = reserved_words(L)
    pool = [a for a in RISKY_NAMES + KEYWORDS if a not in res]
    pool += [rand_ident(rng, L) for _ in range(n_random)]
    seen, out = set(), []
    for a in pool:
        if a not in seen:
            seen.add(a)
            out.append(a)
    return out


# ----------------------------------------------------------------------------------------
# wide (n-ary connectives with many operands) and tall (long spines) formulas
# ----------------------------------------------------------------------------------------
def _small(rng, logic, aps, d=1):
    """a small operand of the logic (state formula for CTL, path formula for LTL / CTL*)"""
    if logic == 'PL':
        return rand_pl(rng, d, aps)
    if logic == 'CTL':
        return rand_ctl(rng, d, aps)
    return rand_path(rng, d, aps, quant=(logic == 'CTLS'))


def contexts(logic):
    """ways to embed an operand w of the logic into a bigger formula of the logic (l = a leaf)"""
    cs = [lambda w, l: w, lambda w, l: ('not', w), lambda w, l: ('imp', w, l), lambda w, l: ('imp', l, w),
          lambda w, l: ('or', l, w), lambda w, l: ('and', w, l, l), lambda w, l: ('not', ('not', w))]
    if logic == 'LTL':
        cs += [lambda w, l: ('G', w), lambda w, l: ('U', w, l), lambda w, l: ('R', l, w), lambda w, l: ('A', w), lambda w, l: ('A', ('X', w))]
    if logic == 'CTLS':
        cs += [lambda w, l: ('G', w), lambda w, l: ('U', w, l), lambda w, l: ('A', w), lambda w, l: ('E', ('R', l, w)), lambda w, l: ('A', ('F', w))]
    if logic == 'CTL':
        cs += [lambda w, l: ('A', ('G', w)), lambda w, l: ('E', ('U', w, l)), lambda w, l: ('A', ('R', l, w)), lambda w, l: ('E', ('X', w)),
               lambda w, l: ('U', w, l), lambda w, l: ('F', w)]
    return cs


def wide_formulas(rng, logic, aps, n_random=24, big=(64, 150)):
    """formulas with an or / and of 4 and more operands: every arity 4..12 for both connectives, random arities up to 40,
    a few very wide ones; operands are leaves or small formulas of the logic, the wide node sits at the root or inside
    another operator (contexts)"""
    cs = contexts(logic)
    out = []
    arities = [(t, k) for t in ('or', 'and') for k in range(4, 13)]
    arities += [(rng.choice(('or', 'and')), rng.randint(13, 40)) for _ in range(n_random)]
    arities += [(t, k) for t in ('or', 'and') for k in big]
    for i, (t, k) in enumerate(arities):
        ops = tuple(_small(rng, logic, aps, rng.choice((0, 0, 1, 1, 2)) if k <= 40 else 0) for _ in range(k))
        w = (t,) + ops
        leaf = ('ap', rng.choice(aps))
        out.append(w)
        out.append(cs[i % len(cs)](w, leaf))
        out.append(rng.choice(cs)(w, leaf))
        if k <= 12:
            # a wide node among the operands of a wide node of the other kind
            other = 'and' if t == 'or' else 'or'
            ops2 = [_small(rng, logic, aps, 0) for _ in range(k - 1)]
            ops2.insert(rng.randrange(k), w)
            out.append((other,) + tuple(ops2))
    return out


def spine(rng, logic, aps, height):
    """a formula of the logic of (about) the given height: a long spine of unary operators, binary operators and n-ary
    connectives whose other operands are leaves / small formulas, on either side of the spine (so that operand order,
    grouping and every operator's spelling matter at every level)"""
    f = ('ap', rng.choice(aps))
    h = 0
    un = {'PL': ['not'], 'LTL': ['not', 'X', 'F', 'G'], 'CTLS': ['not', 'X', 'F', 'G', 'A', 'E'], 'CTL': ['not']}[logic]
    bi = ['imp'] if logic in ('PL', 'CTL') else ['imp', 'U', 'R']
    p_unary = rng.choice((0.5, 0.7, 0.9))
    while h < height:
        side = _small(rng, logic, aps, rng.choice((0, 0, 0, 1)))
        r = rng.random()
        if logic == 'CTL' and r < 0.5 and h + 2 <= height:
            q, o = rng.choice('AE'), rng.choice('XFGUR')
            if o in 'XFG':
                f = (q, (o, f))
            else:
                f = (q, (o, f, side) if rng.random() < 0.5 else (o, side, f))
            h += 2
            continue
        if r < p_unary:
            f = (rng.choice(un), f)
        elif rng.random() < 0.5:
            b = rng.choice(bi)
            f = (b, f, side) if rng.random() < 0.5 else (b, side, f)
        else:
            k = rng.choice((2, 2, 3, 5))
            ops = [_small(rng, logic, aps, 0) for _ in range(k - 1)]
            ops.insert(rng.randrange(k), f)
            f = (rng.choice(('or', 'and')),) + tuple(ops)
        h += 1
    if logic == 'LTL' and rng.random() < 0.3:
        # LTL: A only at the root, over a path formula
        f = ('A', f)
    return f


# ----------------------------------------------------------------------------------------
# C10: non-ASCII characters that a regex / str method treats like ASCII letters, digits, blanks or operators
# ----------------------------------------------------------------------------------------
UNI_DIGITS = ['\u0663', '\u06f3', '\u0968', '\u09e9', '\u0e53', '\u1049', '\uff11', '\uff19', '\U0001d7d9', '\U0001d7ce', '\U0001e950']   # Nd: \d, isdigit
UNI_NUMERIC = ['\xb2', '\xb9', '\xbd', '\u2460', '\u2167', '\u2082', '\u4e09']   # isdigit / isnumeric, not \d
UNI_FOLD = ['\u017f', '\u212a', '\u0130', '\u0131']   # [a-z] under re.IGNORECASE
UNI_LETTERS = ['\xe9', '\xdf', '\xaa', '\xb5', '\xc5', '\u03bb', '\u0430', '\u0440', '\u0410', '\uff21', '\uff50', '\uff55', '\u1d00', '\u212b', '\u2126', '\ufb01', '\u0101', '\u4e2d', '\U0001d41a', '\U00010400']   # \w / isalpha / NFKC or lookalikes of ASCII letters
UNI_JOIN = ['\u203f', '\u2040', '\ufe33', '\uff3f', '\u0301', '\u200d', '\u200c', '\u200b', '\xad', '\ufeff', '\xb7', '\u2118']   # isidentifier continue / invisible
UNI_SPACE = ['\x0b', '\x1c', '\x1d', '\x1e', '\x1f', '\x85', '\xa0', '\u1680', '\u2000', '\u2003', '\u2009', '\u2028', '\u2029', '\u202f', '\u205f', '\u3000']   # str.strip / \s, not WS
UNI_OPS = ['\xac', '\u2227', '\u2228', '\u2192', '\u27f6', '\u21d2', '\uff5e', '\uff06', '\uff5c', '\uff08', '\uff09', '\u201c', '\u201d', '\u2212', '\u2013', '\uff02', '\u02dc']   # lookalikes of ~ & | ( ) " - -->
UNI_WORDCH = UNI_DIGITS + UNI_NUMERIC + UNI_FOLD + UNI_LETTERS + UNI_JOIN
UNI_ALL = UNI_WORDCH + UNI_SPACE + UNI_OPS
UNI_TEMPLATES = ('%s', 'p%s', '%sp', 'p%sq', '_%s', '%s1', 'not p%s', 'p or q%s', '%s or p', 'A G (x%s --> F y)', 'E F %selvin', 'p U mi%st',
                 '(%s)', 'p %s q', 'p%s or q', '"%s"', '"a%sb" or q', 'A(p%sU q)', 'true%s', '%strue', 'no%s p', 'p o%s q')


def unicode_fixed():
    """every character of UNI_ALL in every template (alone, inside / at either end of a name, next to a keyword, as a blank,
    inside a quoted atom - the only legal place)"""
    return [t.replace('%s', u) for u in UNI_ALL for t in UNI_TEMPLATES]


def unicode_mutation(rng, s):
    """one non-ASCII character put into a valid string: inside / at an end of a name or keyword, instead of a blank, or
    instead of an operator character"""
    k = rng.random()
    words = [m for m in re.finditer(r'[A-Za-z_0-9]+', s)]
    if k < 0.55 and words:
        m = rng.choice(words)
        i = rng.randint(m.start(), m.end())
        u = rng.choice(UNI_WORDCH)
        if rng.random() < 0.6 or i == m.end():
            return s[:i] + u + s[i:]
        return s[:i] + u + s[i + 1:]
    blanks = [i for i, c in enumerate(s) if c == ' ']
    if k < 0.8 and blanks:
        i = rng.choice(blanks)
        return s[:i] + rng.choice(UNI_SPACE) + s[i + 1:]
    if k < 0.9:
        return rng.choice((lambda u: u + s, lambda u: s + u))(rng.choice(UNI_SPACE + UNI_JOIN))
    ops = [i for i, c in enumerate(s) if c in '()~|&->"']
    if ops:
        i = rng.choice(ops)
        return s[:i] + rng.choice(UNI_OPS) + s[i + 1:]
    return s + rng.choice(UNI_ALL)


def unicode_words(rng, n):
    """a short word sequence in which one or two words are names with non-ASCII characters"""
    ws = [rng.choice(WORDS17) for _ in range(n)]
    for _ in range(rng.choice((1, 1, 2))):
        a = ''.join(rng.choice(IDCH) for _ in range(rng.randint(0, 3)))
        i = rng.randint(0, len(a))
        a = a[:i] + rng.choice(UNI_WORDCH) + a[i:]
        ws[rng.randrange(n)] = a
    return ' '.join(ws)


def case_words(rng, n):
    """a word sequence over the 17 words in which some keywords are written in another case (all of them plain names)"""
    return ' '.join(case_variant(rng, w) if rng.random() < 0.4 else w for w in (rng.choice(WORDS17) for _ in range(n)))


# ----------------------------------------------------------------------------------------
# C10: inputs nested far deeper than Python's recursion limit (the LALR parsers are iterative: no depth limit)
# ----------------------------------------------------------------------------------------
def deep_inputs(rng):
    """strings with nesting 500..5000; their results are read iteratively (observe(..., flat_result=True))"""
    out = ['not ' * 1200 + 'p', '~' * 5000 + 'p', 'not ' * 999 + 'p', 'not ' * 1001 + 'q', 'E G ' * 600 + 'q', 'A F ' * 800 + 'p',
           'A X ' * 1000 + 'true', 'X ' * 1500 + 'p', 'G F ' * 900 + 'q', 'A ' + 'X ' * 1100 + 'p',
           '(' * 2000 + 'p' + ')' * 2000, '(' * 2000 + 'p' + ')' * 1999, '(' * 1999 + 'p' + ')' * 2000, '(' * 1500 + 'p or q' + ')' * 1500,
           '(p --> ' * 600 + 'q' + ')' * 600, '(' * 600 + 'p' + ' --> q)' * 600, '(p or ' * 1500 + 'q' + ')' * 1500, '(p and q and ' * 700 + 'q' + ')' * 700,
           'A(p U ' * 500 + 'q' + ')' * 500, 'E(' * 500 + 'p' + ' R q)' * 500, '(p U ' * 800 + 'q' + ')' * 800, 'A(p U ' * 500 + 'q' + ')' * 499,
           'not (' * 700 + 'p' + ')' * 700, '~(' * 700 + 'p' + ')' * 701, 'not ' * 1200 + 'p q', 'not ' * 1200, 'not ' * 1200 + '#', 'not ' * 1200 + '"a b"',
           'A G (p --> ' * 400 + 'q' + ')' * 400, 'G (p --> F ' * 400 + 'q' + ')' * 400]
    un = {'PL': ['not ', '~', '~ '], 'LTL': ['not ', '~', 'X ', 'F ', 'G '], 'CTLS': ['not ', '~', 'X ', 'F ', 'G ', 'A ', 'E '],
          'CTL': ['not ', '~', 'A X ', 'E F ', 'A G ', 'E X ']}
    for L in LANGS:
        for _ in range(3):
            n = rng.randint(500, 2500)
            body = rng.choice(('p', 'q', 'true', '(p or q)', '"a b"', 'Until'))
            out.append(''.join(rng.choice(un[L]) for _ in range(n)) + body)
        n = rng.randint(500, 1500)
        out.append(''.join(rng.choice(un[L]) + '(' for _ in range(n)) + 'p' + ')' * n)
    return out


def observe4_flat(s):
    return tuple(observe(L, s, flat_result=True) for L in LANGS)


def observe4_flat_chunk(strings):
    return [observe4_flat(s) for s in strings]


# ----------------------------------------------------------------------------------------
# C10: the same parser object used again and again (a parser must not remember anything about earlier calls)
# ----------------------------------------------------------------------------------------
def history_variant(rng, s):
    """a string that a lossy normalisation (strip, blank collapsing, case folding, NFKC) would identify with s"""
    k = rng.randrange(10)
    if k == 0:
        return s.strip()
    if k == 1:
        return rng.choice((' ', '\n', '\t', '  ')) + s
    if k == 2:
        return s + rng.choice((' ', '\n', '\t', '\r\n'))
    if k == 3:
        return rng.choice(UNI_SPACE) + s
    if k == 4:
        return s + rng.choice(UNI_SPACE)
    if k == 5:
        return ' '.join(s.split())
    if k == 6:
        return s.lower()
    if k == 7:
        return rng.choice((s.upper(), s.swapcase()))
    if k == 8:
        return s.replace(' ', rng.choice(('  ', '\t', '\xa0', '')))
    letters = [i for i, c in enumerate(s) if c in string.ascii_letters]
    if not letters:
        return s + '\ufeff'
    i = rng.choice(letters)
    return s[:i] + chr(ord(s[i]) - ord('!') + 0xff01) + s[i + 1:]     # the fullwidth form of that letter


def session(rng, base):
    """the sequence of strings one fresh set of parser objects is given: every base string twice in a row, then two
    look-alikes, then again; at the end all base strings a further time in another order"""
    seq = []
    for s in base:
        seq += [s, s, history_variant(rng, s), history_variant(rng, s), s]
    again = list(base)
    rng.shuffle(again)
    return seq + again


def fresh_parser(L):
    """a new parser object of logic L"""
    try:
        return lang_module(L).Parser()
    except Exception as e:  # noqa
        return _Broken('%s.Parser() cannot be constructed: %s.%s' % (L, type(e).__module__, type(e).__name__))


def fresh_parsers():
    return {L: fresh_parser(L) for L in LANGS}


def observe_session(seq):
    """outcomes [(per language) per string] of parsing the sequence on ONE fresh parser object per language"""
    P = fresh_parsers()
    return [tuple(observe(L, s, parser=P[L]) for L in LANGS) for s in seq]


def observe_session_chunk(seqs_):
    return [observe_session(q) for q in seqs_]
