"""parsegen.py - shared machinery of the parser properties C09 (print -> parse round trip, printer
injectivity) and C10 (rejection contract): observation of the live Lark-based parsers, the model
commands, formula-shape enumeration, string generators (word sequences, glued forms, token-level
edits, respacing, character-level garbage) and a process pool for the implementation side.

All randomness comes from the `rng` argument (R.rng); the pool only maps a pure function over
chunks of already generated inputs, so a run is deterministic given VERIF_SEED.
"""
import os, io, re, itertools, contextlib
from common import (Q, lang_module, to_py, tree_of, langs_in, fparse, fsx, subformulas,
                    is_pl, is_ctl_state, is_ctl_path, is_ltl_path, is_ltl_state,
                    rand_ctl, rand_path, rand_ctls_state, rand_pl, UNARY, BINARY, NARY,
                    model_batch, model_batch_parallel)

LANGS = ('PL', 'CTLS', 'CTL', 'LTL')
# identifier-style, non-reserved atoms; those starting like a keyword (or/and/U/R/X/A/true) are the risky ones
ATOMS = ('p', 'q', 'Ab', 'AX', 'orb', 'true_', '_x1', 'Until', 'Rx', 'U2')
LEAVES = tuple(('ap', a) for a in ATOMS) + (('true',), ('false',))
WORDS17 = ['true', 'false', 'not', 'or', 'and', '-->', 'A', 'E', 'X', 'F', 'G', 'U', 'R', '(', ')', 'p', 'q']
EXTRA = ['~', '|', '&', '"s t"', 'orb', 'Until', 'Ab', 'true_']
QUOTED = ['"a b"', '"x\\"y"', '"or"', '""', '"(p"', '"b\\\\"', '"caf\xe9"', '"A U"']
SYN = {'not': '~', 'or': '|', 'and': '&'}
GLUE = ['', '', '', ' ', ' ', '  ', '\t', '\n', '\r\n', '\f']
TOKEN_RE = re.compile(r'-->|[()~|&]|"(?:[^"\\]|\\.)*"|[A-Za-z_0-9]+')
JOBS = max(2, min(12, (os.cpu_count() or 4) - 2))

# spellings hard-wired in coq/Model/Parse.v (uop_of_word, split_kw, classify, lex_start) and Print.v
MODEL_SYMBOLS = {'Not': ['not', '~'], 'Or': ['or', '|'], 'And': ['and', '&'], 'Imply': ['-->'],
                 'A': ['A'], 'E': ['E'], 'X': ['X'], 'F': ['F'], 'G': ['G'], 'U': ['U'], 'R': ['R']}
MODEL_OPS = {'PL': ('Not', 'Or', 'And', 'Imply'),
             'CTLS': ('Not', 'Or', 'And', 'Imply', 'A', 'E', 'X', 'F', 'G', 'U', 'R'),
             'CTL': ('Not', 'Or', 'And', 'Imply', 'A', 'E', 'X', 'F', 'G', 'U', 'R'),
             'LTL': ('Not', 'Or', 'And', 'Imply', 'A', 'X', 'F', 'G', 'U', 'R')}


def symbol_table_diffs():
    """the symbol tables of the live modules vs the spellings the model was written for"""
    import importlib
    bad = []
    for L in LANGS:
        alpha = importlib.import_module('pyModelChecking.%s.language' % L).alphabet
        live = {k: list(c.symbols) for k, c in alpha.items() if k not in ('Bool', 'AtomicProposition')}
        want = {k: MODEL_SYMBOLS[k] for k in MODEL_OPS[L]}
        bools = dict(alpha['Bool'].symbols)
        if live != want or bools != {True: 'true', False: 'false'}:
            bad.append({'lang': L, 'live': live, 'live_bool': {str(k): v for k, v in bools.items()}, 'model': want})
    return bad


# ----------------------------------------------------------------------------------------
# observing the implementation
# ----------------------------------------------------------------------------------------
_PARSERS = {}


def parsers():
    if not _PARSERS:
        import pyModelChecking.parser as pp
        for L in LANGS:
            try:
                _PARSERS[L] = lang_module(L).Parser()
            except Exception as e:  # noqa   (e.g. a grammar Lark cannot build tables for)
                _PARSERS[L] = _Broken('%s.Parser() cannot be constructed: %s.%s: %s' % (L, type(e).__module__, type(e).__name__, ' '.join(str(e).split())[:200]))
        _PARSERS['_pp'] = pp
    return _PARSERS


class _Broken(object):
    """stands for a parser whose construction failed: every call reports that failure"""
    def __init__(self, why):
        self.why = why

    def __call__(self, s):
        raise RuntimeError('Parser() cannot be constructed: ' + self.why)


def observe(L, s):
    """outcome of <L>.Parser()(s) on the live library:
       ('ok', tree, langs)                  a formula; tree via class names, langs = modules of all its nodes
       ('okbad', text)                      returned something that is not a formula object
       ('err', kind, pos_ok, pos)           kind = 'UnexpectedToken' / 'UnexpectedCharacters' iff the exception's class IS
                                            pyModelChecking.parser.<that> (identity, not name), else 'other:<module>.<name>';
                                            pos_ok = .pos is an int with 0 <= pos <= len(s)"""
    P = parsers()
    pp = P['_pp']
    if isinstance(P[L], _Broken):
        return ('err', 'other:' + P[L].why, False, None)
    buf = io.StringIO()
    try:
        with contextlib.redirect_stdout(buf):
            o = P[L](s)
    except RecursionError:
        return ('err', 'other:builtins.RecursionError', False, None)
    except Exception as e:  # noqa
        t = type(e)
        if t is pp.UnexpectedToken:
            kind = 'UnexpectedToken'
        elif t is pp.UnexpectedCharacters:
            kind = 'UnexpectedCharacters'
        else:
            return ('err', 'other:%s.%s' % (t.__module__, t.__name__), False, repr(getattr(e, 'pos', None)))
        pos = getattr(e, 'pos', None)
        ok = isinstance(pos, int) and not isinstance(pos, bool) and 0 <= pos <= len(s)
        if ok:
            # the documented rendering of the error must work as well (it indexes with pos)
            try:
                str(e)
            except Exception:  # noqa
                ok = False
        return ('err', kind, ok, pos if isinstance(pos, int) else repr(pos))
    try:
        return ('ok', tree_of(o), tuple(sorted(langs_in(o))))
    except Exception as e:  # noqa
        return ('okbad', '%s: %r' % (type(o).__name__, e))


def observe4(s):
    return tuple(observe(L, s) for L in LANGS)


def observe4_chunk(strings):
    return [observe4(s) for s in strings]


_EARLEY = {}


def earley_accepts(L, s):
    """independent UPPER bound: Lark's Earley parser with the dynamic lexer on the live grammar text
    recognises the pure CFG (atom terminal = the regex, keywords not reserved)"""
    if L not in _EARLEY:
        from lark import Lark
        _EARLEY[L] = Lark(lang_module(L).Parser.grammar, start='formula', parser='earley', lexer='dynamic')
    try:
        _EARLEY[L].parse(s)
        return True
    except Exception:  # noqa
        return False


def earley_chunk(items):
    return [earley_accepts(L, s) for (L, s) in items]


def pmap(fn, items, jobs=None, chunk=None):
    """map a chunk function over items in a fork pool, order preserving"""
    items = list(items)
    jobs = jobs or JOBS
    if len(items) < 400 or jobs <= 1:
        return fn(items)
    import multiprocessing as mp
    chunk = chunk or max(50, min(4000, len(items) // (jobs * 4) + 1))
    chunks = [items[i:i + chunk] for i in range(0, len(items), chunk)]
    with mp.get_context('fork').Pool(jobs) as pool:
        res = pool.map(fn, chunks, 1)
    return [x for r in res for x in r]


# ----------------------------------------------------------------------------------------
# the model
# ----------------------------------------------------------------------------------------
def mstr(s):
    """the model works on 8-bit characters; every character outside the grammar's ASCII alphabet behaves the
    same in Lark (legal only inside a quoted atom), so code points > 255 are folded to 0xff for the model"""
    return ''.join(c if ord(c) < 256 else '\xff' for c in s)


def mtree(t):
    if t[0] == 'ap':
        return ('ap', mstr(t[1]))
    if t[0] in ('true', 'false'):
        return t
    return (t[0],) + tuple(mtree(g) for g in t[1:])


def parse_cmd(L, s):
    return ['parse', L, Q(mstr(s))]


def model_parse_result(a):
    return ('ok', fparse(a[1])) if a[0] == 'ok' else ('err', str(a[1]))


def agree(L, r, m):
    """implementation outcome r (observe) vs model outcome m: accept/reject and the tree"""
    if r[0] == 'ok':
        return m[0] == 'ok' and mtree(r[1]) == m[1]
    if r[0] == 'err':
        return m[0] == 'err' and m[1] == 'ParserError'
    return False


# ----------------------------------------------------------------------------------------
# documented grammars on trees (independent of the model): common.py recognisers + arities
# ----------------------------------------------------------------------------------------
def arities_ok(t):
    for g in subformulas(t):
        k = g[0]
        if k in ('true', 'false'):
            if len(g) != 1:
                return False
        elif k == 'ap':
            if len(g) != 2 or not isinstance(g[1], str):
                return False
        elif k in UNARY:
            if len(g) != 2:
                return False
        elif k in BINARY:
            if len(g) != 3:
                return False
        elif k in NARY:
            if len(g) < 3:
                return False
        else:
            return False
    return True


def doc_member(L, t):
    if not arities_ok(t):
        return False
    if L == 'PL':
        return is_pl(t)
    if L == 'CTL':
        return is_ctl_state(t) or is_ctl_path(t)
    if L == 'LTL':
        return is_ltl_path(t) or is_ltl_state(t)
    return True     # CTLS: p_formula = every operator tree


def n_ops(t):
    return sum(1 for g in subformulas(t) if g[0] not in ('true', 'false', 'ap'))


# ----------------------------------------------------------------------------------------
# formulas: shapes of bounded depth, leaf assignments, random
# ----------------------------------------------------------------------------------------
HOLE = ('?',)


def shapes(logic, depth):
    """every operator tree of nesting depth <= depth of the logic with a hole at each leaf; n-ary or/and with
    2 and 3 operands.  PL / LTL (path formulas) / CTLS (all operator trees): one level = one operator;
    CTL (state formulas): one level = a connective or a quantifier+temporal pair."""
    if logic == 'CTL':
        un = [lambda f: ('not', f)] + [(lambda f, q=q, o=o: (q, (o, f))) for q in 'AE' for o in 'XFG']
        bi = [lambda f, g: ('imp', f, g)] + [(lambda f, g, q=q, o=o: (q, (o, f, g))) for q in 'AE' for o in 'UR']
    else:
        ops = {'PL': ['not'], 'LTL': ['not', 'X', 'F', 'G'], 'CTLS': ['not', 'X', 'F', 'G', 'A', 'E']}[logic]
        un = [(lambda f, u=u: (u, f)) for u in ops]
        bi = [(lambda f, g, b=b: (b, f, g)) for b in (['imp'] if logic == 'PL' else ['imp', 'U', 'R'])]
    cur = [HOLE]
    for _ in range(depth):
        prev = cur
        new = [HOLE]
        for u in un:
            new += [u(f) for f in prev]
        for b in bi:
            new += [b(f, g) for f in prev for g in prev]
        for n in ('or', 'and'):
            new += [(n, f, g) for f in prev for g in prev]
            new += [(n, f, g, h) for f in prev for g in prev for h in prev]
        cur = new
    return cur


def n_holes(t):
    if t == HOLE:
        return 1
    if t[0] in ('true', 'false', 'ap'):
        return 0
    return sum(n_holes(g) for g in t[1:])


def fill(t, leaves):
    """replace the holes left to right by the items of the iterator"""
    if t == HOLE:
        return next(leaves)
    if t[0] in ('true', 'false', 'ap'):
        return t
    return (t[0],) + tuple(fill(g, leaves) for g in t[1:])


def fill_rot(t, r, step=5):
    """deterministic leaf assignment number r: hole i gets LEAVES[(r + step*i) mod 12]; over r = 0..11 every
    hole sees every leaf, neighbouring holes get different leaves (step is coprime to 12)"""
    return fill(t, (LEAVES[(r + step * i) % len(LEAVES)] for i in itertools.count()))


def fill_rand(t, rng):
    return fill(t, (rng.choice(LEAVES) for _ in itertools.count()))


def ctl_path_shapes(depth):
    """CTL path formulas (accepted by the CTL grammar's start rule): X/F/G s, s U s, s R s"""
    st = shapes('CTL', depth)
    return [(o, f) for o in 'XFG' for f in st] + [(o, f, g) for o in 'UR' for f in st for g in st]


def rand_formula(rng, logic, d, aps=ATOMS):
    """(logic, tree) of a random formula the parser of `logic` is documented to accept"""
    r = rng.random()
    if logic == 'PL':
        return rand_pl(rng, d, aps)
    if logic == 'LTL':
        g = rand_path(rng, max(0, d - 1) if r < 0.4 else d, aps, quant=False)
        return ('A', g) if r < 0.4 else g
    if logic == 'CTLS':
        return rand_ctls_state(rng, d, aps) if r < 0.5 else rand_path(rng, d, aps, quant=True)
    if r < 0.85:
        return rand_ctl(rng, d, aps)
    o = rng.choice('XFGUR')
    if o in 'XFG':
        return (o, rand_ctl(rng, d - 1, aps))
    return (o, rand_ctl(rng, d - 1, aps), rand_ctl(rng, d - 1, aps))


# ----------------------------------------------------------------------------------------
# strings
# ----------------------------------------------------------------------------------------
def seqs(alphabet, n, sep=' '):
    """all sequences of exactly n words"""
    for t in itertools.product(alphabet, repeat=n):
        yield sep.join(t)


def glued(alphabet, n):
    """all sequences of exactly n words with every choice of '' / ' ' per gap"""
    for t in itertools.product(alphabet, repeat=n):
        for gaps in itertools.product(('', ' '), repeat=n - 1):
            yield ''.join(w + g for w, g in zip(t, gaps + ('',)))


def rand_seq(rng, alphabet, n, glue=False):
    ws = [rng.choice(alphabet) for _ in range(n)]
    if not glue:
        return ' '.join(ws)
    return ''.join(w + (rng.choice(('', ' ')) if i + 1 < n else '') for i, w in enumerate(ws))


POOLS = ('PL', 'CTLS', 'CTLS_path', 'CTL_compact', 'CTL_as_CTLS', 'CTL_path', 'LTL', 'LTL_A')


def printed_pools(rng, n):
    """valid printed strings by pool: str() of random formulas of every logic (CTL both in its own compact
    notation and in CTL* notation)"""
    PLm, CTLSm, CTLm, LTLm = (lang_module(x) for x in LANGS)
    pools = {k: [] for k in POOLS}
    for _ in range(n):
        d = rng.choice((1, 2, 2, 3, 3, 4))
        pools['PL'].append(str(to_py(rand_pl(rng, d, ATOMS), PLm)))
        pools['CTLS'].append(str(to_py(rand_ctls_state(rng, d, ATOMS), CTLSm)))
        pools['CTLS_path'].append(str(to_py(rand_path(rng, d, ATOMS, quant=True), CTLSm)))
        f = rand_ctl(rng, d, ATOMS)
        pools['CTL_compact'].append(str(to_py(f, CTLm)))
        pools['CTL_as_CTLS'].append(str(to_py(f, CTLSm)))
        o = rng.choice('XFGUR')
        h = (o, rand_ctl(rng, d - 1, ATOMS)) if o in 'XFG' else (o, rand_ctl(rng, d - 1, ATOMS), rand_ctl(rng, d - 1, ATOMS))
        pools['CTL_path'].append(str(to_py(h, CTLSm)))
        g = rand_path(rng, d, ATOMS, quant=False)
        pools['LTL'].append(str(to_py(g, LTLm)))
        pools['LTL_A'].append(str(to_py(('A', g), LTLm)))
    return {k: sorted(set(v)) for k, v in pools.items()}


VOCAB = WORDS17 + EXTRA + list(ATOMS)


def mutate1(rng, toks):
    """exactly one token-level edit of the token list: (kind, new token list) or None.
    kinds del / ins / rep are at token edit distance 1, swap exchanges two adjacent tokens (one transposition)"""
    t = list(toks)
    kind = rng.choice(('del', 'ins', 'swap', 'rep'))
    if kind == 'del' and t:
        del t[rng.randrange(len(t))]
    elif kind == 'ins':
        t.insert(rng.randrange(len(t) + 1), rng.choice(VOCAB))
    elif kind == 'swap' and len(t) >= 2:
        i = rng.randrange(len(t) - 1)
        t[i], t[i + 1] = t[i + 1], t[i]
    elif kind == 'rep' and t:
        t[rng.randrange(len(t))] = rng.choice(VOCAB)
    else:
        return None
    if t == list(toks):
        return None
    return kind, t


def respace(rng, s):
    """same token sequence, other spelling: symbolic synonyms, quoted atoms, random glue between tokens"""
    toks = TOKEN_RE.findall(s)
    t2 = []
    for t in toks:
        if t in SYN and rng.random() < 0.5:
            t = SYN[t]
        elif t in ATOMS and rng.random() < 0.15:
            t = rng.choice(QUOTED)
        t2.append(t)
    mode = rng.random()
    out = []
    for i, t in enumerate(t2):
        out.append(t)
        if i + 1 < len(t2):
            a, b = t, t2[i + 1]
            wordish = (a[-1].isalnum() or a[-1] == '_') and (b[0].isalnum() or b[0] == '_')
            if mode < 0.5 and wordish:
                out.append(rng.choice((' ', ' ', '\t', '\n', '  ')))     # keep the words apart
            else:
                out.append(rng.choice(GLUE))                             # may merge words
    return ''.join(out)


# character-level garbage: everything the grammar has no token for, unbalanced quotes, arrows cut short,
# control characters, non-ASCII / non-BMP characters, mixed with a few legal fragments
PALETTE = (list('pqAEXFGUR()()  ~|&->"\\#\'_019.,;:!?[]{}=+*/<\t\n\r\f\x0b\x00\x7f') +
           ['\xe9', '\xa0', '\xff', '\u20ac', '\u03bb', '\u2227', '\u2192', '\u2028', '\U0001f600'] +
           ['or', 'and', 'not', 'true', 'false', '-->', '->', '--', ' ', ' ', '"a', 'b"', '\\"', 'A(', ' U '])


def garbage(rng, maxlen=12):
    return ''.join(rng.choice(PALETTE) for _ in range(rng.randint(0, maxlen)))


def char_mutation(rng, s):
    """one character-level edit of a valid string"""
    k = rng.choice(('ins', 'del', 'rep', 'dup', 'cut'))
    if k == 'ins' or not s:
        i = rng.randint(0, len(s))
        return s[:i] + rng.choice(PALETTE) + s[i:]
    i = rng.randrange(len(s))
    if k == 'del':
        return s[:i] + s[i + 1:]
    if k == 'rep':
        return s[:i] + rng.choice(PALETTE) + s[i + 1:]
    if k == 'dup':
        return s[:i] + s[i] + s[i:]
    return s[:i]


def long_inputs(rng):
    """very long / deeply nested inputs, within reason (a few thousand characters, nesting <= 450: deeper trees exceed the
    recursion limit of the HARNESS's own readers; the parsers themselves are iterative and must not be depth-limited at all)"""
    out = ['(' * 150 + 'p' + ')' * 150, '(' * 150 + 'p' + ')' * 149, '(' * 150 + 'p or q' + ')' * 150,
           'not ' * 200 + 'p', '~' * 200 + 'p', 'A X ' * 100 + 'p', 'A F E G ' * 60 + 'p', 'X ' * 200 + 'p',
           ' or '.join(['p'] * 300), ' and '.join(['(p or q)'] * 150), '|'.join(['p'] * 300) + ' and q',
           'A(' * 100 + 'p' + ' U q)' * 100, 'A(' * 100 + 'p' + ' U q)' * 99, '(' * 100 + 'p' + ' --> q)' * 100,
           'p or' + 'or' * 100, 'p or ' + 'orb' * 100, 'x' * 2000, 'p U' + 'U' * 500,
           '"' + 'a' * 3000 + '"', '"' + 'a' * 3000, '"' + '\\"' * 500 + '"', '"' + '\\' * 501 + '"', '#' * 1000,
           '-' * 999, 'p ' * 1000, '(' * 300, ')' * 300, 'not ' * 300, '\u20ac' * 500, ' ' * 2000, '\n' * 500 + 'p',
           '(' * 200 + 'A(p U ' * 50 + 'q' + ')' * 249, 'p --> ' * 200 + 'q',
           'not ' * 450 + 'p', '(' * 400 + 'p' + ')' * 400, 'X ' * 450 + 'p', '~' * 430 + '(p and q)', 'E G ' * 220 + 'q', 'A F ' * 220 + 'q']
    for _ in range(6):
        out.append(''.join(rng.choice(PALETTE) for _ in range(rng.randint(300, 2500))))
    return out


# hand-written strings: no-space forms, quoted atoms, escapes, garbage characters (see parse_probe.py)
def special_strings():
    import parse_probe
    return list(parse_probe.SPECIAL)
