"""c18_worker.py - the library worker of bddlib.py under ANOTHER table of variable names (check C18, stream (f)).

bddlib.NAMES (a, ab, b, bb, e_x) is shared by C16-C18; C18 also has to build orderings out of names with an underscore,
a leading underscore, digits, capitals, soft keywords, keyword prefixes and long names.  The table comes in the environment
variable C18_NAMES (a JSON list of 5 names); everything else is bddlib.worker_main, unchanged."""
import sys, os, json
sys.path.insert(0, os.path.dirname(os.path.abspath(__file__)))
import bddlib as B

if __name__ == '__main__':
    names = json.loads(os.environ['C18_NAMES'])
    if not (isinstance(names, list) and len(names) == len(B.NAMES) and len(set(names)) == len(names)):
        raise SystemExit('C18_NAMES: expected %d distinct names' % len(B.NAMES))
    B.NAMES = [str(x) for x in names]
    B.worker_main()
