"""c04_extra.py - helpers of props_c04 (second audit round):
* presentations of a structure whose states are NOT 0..n-1: value-hashed renamings (mccheck.RENAMES) and states that are
  plain class instances hashed by IDENTITY (a copy of such a state is a different state), some of which refuse to be copied;
* formulas built through the documented operator overloads `&`, `|`, `~` (both operand orders, raw str / bool shorthands on
  either side) instead of the class constructors;
* one-operand or/and nodes sprinkled into a formula (the n-ary constructors accept them: And(f) means f);
* LARGE structures (more than 1000 states: deeper than the interpreter's recursion limit, one big cycle, a wide fan-out)."""
from common import *
from mccheck import *


# ----------------------------------------------------------------------------------------
# presentations
# ----------------------------------------------------------------------------------------
class Node(object):
    """a state that is a plain class instance: default __eq__ / __hash__, i.e. identity"""

    def __init__(self, i):
        self.i = i

    def __repr__(self):
        return 'n%d' % self.i


class Resource(Node):
    """an identity-hashed state that wraps something that cannot be copied / pickled (a handle, a lock)"""

    def __copy__(self):
        raise TypeError('a Resource cannot be copied')

    def __deepcopy__(self, memo):
        raise TypeError('a Resource cannot be copied')

    def __reduce_ex__(self, proto):
        raise TypeError('a Resource cannot be pickled')


STATE_KINDS = ['object', 'str', 'object-nocopy', 'tuple', 'object', 'mixed', 'object-nocopy', 'sparse']


def present(kd):
    """live Kripke object of kd under kd['states'] (None: the states 0..n-1 themselves) -> (K, num) with num: state of K -> number
    (None = identity).  A state of a result that is not (identical to, for the object kinds) a state of K has no number."""
    st = kd.get('states')
    if not st:
        return kd_py(kd), None
    if st in RENAMES:
        K, inv = build_K(kd, rename=st)
        return K, inv.__getitem__
    cls = {'object': Node, 'object-nocopy': Resource}[st]
    nodes = {}

    def ren(i):
        if i not in nodes:
            nodes[i] = cls(i)
        return nodes[i]
    kd2 = {'S': [ren(s) for s in kd['S']], 'S0': [ren(s) for s in kd['S0']], 'R': [(ren(a), ren(b)) for a, b in kd['R']],
           'L': {ren(s): list(ls) for s, ls in kd['L'].items()}}
    K = kd_py(kd2)
    if kd.get('alias'):
        alias_labels(K)
    inv = {v: k for k, v in nodes.items()}
    return K, inv.__getitem__


def kdj(kd):
    j = kd_json(kd)
    if kd.get('states'):
        j['states'] = kd['states']
    return j


def kd_unj(j):
    kd = kd_from_json(j)
    if j.get('states'):
        kd['states'] = j['states']
    return kd


# ----------------------------------------------------------------------------------------
# formulas through the operator overloads
# ----------------------------------------------------------------------------------------
def to_py_ops(f, L, k):
    """the object of tree f in language module L built with `&`, `|`, `~` wherever the tree has and / or / not (n-ary nodes
    fold to the left), leaves given as raw str / bool shorthands or as objects (choices drawn from Random(k)); a raw operand on
    the LEFT of an operator goes through Formula.__rand__ / __ror__, on the right through __and__ / __or__.
    Implication, the temporal operators and the quantifiers have no overload: constructors (which accept the shorthands)."""
    rnd = random.Random(k)

    def raw(x):
        return isinstance(x, (bool, str))

    def obj(x):
        if isinstance(x, bool):
            return L.Bool(x)
        if isinstance(x, str):
            return L.AtomicProposition(x)
        return x

    def go(f):
        t = f[0]
        if t in ('true', 'false'):
            return (t == 'true') if rnd.random() < 0.5 else L.Bool(t == 'true')
        if t == 'ap':
            return f[1] if rnd.random() < 0.6 else L.AtomicProposition(f[1])
        if t == 'not':
            return ~obj(go(f[1]))
        if t in NARY:
            xs = [go(g) for g in f[1:]]
            if len(xs) == 1:
                return getattr(L, PYNAME[t])(xs[0])
            acc = xs[0]
            for x in xs[1:]:
                if raw(acc) and raw(x):
                    if rnd.random() < 0.5:
                        acc = obj(acc)
                    else:
                        x = obj(x)
                acc = (acc & x) if t == 'and' else (acc | x)
            return acc
        return getattr(L, PYNAME[t])(*[go(g) for g in f[1:]])
    return obj(go(f))


def n_bool_nodes(f):
    return sum(1 for g in subformulas(f) if g[0] in ('not', 'and', 'or'))


# ----------------------------------------------------------------------------------------
# one-operand or/and nodes
# ----------------------------------------------------------------------------------------
def wrap1(rng, f, p=0.35, force=True, paths=True):
    """f with one-operand or/and nodes wrapped around some subformulas (around the root when nothing else was chosen);
    paths=False: never around a temporal operator (in CTL the operand of a quantifier is the temporal operator itself)"""
    hit = [0]

    def go(g):
        if g[0] not in ('true', 'false', 'ap'):
            g = (g[0],) + tuple(go(x) for x in g[1:])
        if rng.random() < p and (paths or g[0] not in TEMPORAL):
            hit[0] += 1
            g = (rng.choice(NARY), g)
            if rng.random() < 0.15:
                g = (rng.choice(NARY), g)
        return g
    out = go(f)
    if force and not hit[0]:
        out = (rng.choice(NARY), out)
    return out


def has_unary_nary(f):
    return any(g[0] in NARY and len(g) == 2 for g in subformulas(f))


# ----------------------------------------------------------------------------------------
# large structures
# ----------------------------------------------------------------------------------------
BIG_SHAPES = ['chain', 'lasso', 'cycle', 'comb', 'star', 'ladder']


def big_kd(shape, n, lseed):
    """a structure with n > 1000 states over {p, q}: deep (chain into a self-loop, lasso, one cycle, comb, ladder) or wide (star);
    labels from Random(lseed): q on a prefix and on scattered states, p on the last state and a few others"""
    rnd = random.Random(lseed)
    S = list(range(n))
    if shape == 'chain':
        R = [(i, i + 1) for i in range(n - 1)] + [(n - 1, n - 1)]
    elif shape == 'lasso':
        R = [(i, i + 1) for i in range(n - 1)] + [(n - 1, rnd.randrange(n // 2))]
    elif shape == 'cycle':
        R = [(i, (i + 1) % n) for i in range(n)]
    elif shape == 'comb':
        R = [(i, i + 1) for i in range(n - 1)] + [(i, i) for i in range(0, n, 3)] + [(n - 1, n - 1)]
    elif shape == 'star':
        R = [(0, i) for i in range(1, n)] + [(i, i) for i in range(1, n)] + [(rnd.randrange(1, n), 0)]
    elif shape == 'ladder':
        h = n // 2
        R = [(i, i + 1) for i in range(h - 1)] + [(h + i, h + i + 1) for i in range(n - h - 1)]
        R += [(i, h + i) for i in range(0, h, 7)] + [(h - 1, h - 1), (n - 1, h)]
    else:
        raise ValueError(shape)
    cut = rnd.randrange(n // 4, n)
    L = {i: [] for i in S}
    for i in S:
        if i < cut or rnd.random() < 0.1:
            L[i].append('q')
    for i in [n - 1] + [rnd.randrange(n) for _ in range(rnd.randint(0, 3))]:
        if 'p' not in L[i]:
            L[i].append('p')
    order = list(S)
    if rnd.random() < 0.5:
        rnd.shuffle(order)          # the states are not handed over in path order
    rnd.shuffle(R)
    return {'S': order, 'S0': [], 'R': R, 'L': L}
