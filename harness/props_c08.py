"""C08 - formula objects always belong to their logic; out-of-logic input is rejected.

Theorems (Properties/C08.v): C08_construct(_total), C08_built_objects_are_members, C08_members_can_be_built,
C08_cast(_total), C08_guard_ctl, C08_guard_ltl, C08_inclusions.

Correspondence: every operator tree over the union alphabet x every language module is pushed through
  construct  - built bottom-up with the module's own classes            vs  (mk L op (L g)...) folded bottom-up
  apply      - one operator of module L on operands built in OTHER modules (the library casts them) or given
               as raw python str / bool                                 vs  (mk L op (Li gi)...)
  cast       - obj.cast_to(M) for every object that could be built      vs  (cast M (L f))
  guard      - CTL/LTL/CTLS.modelcheck(K, obj) and (K, text)            vs  (ctl K f) / (ltl K f) / (ctls L K f), (parse M text)
  nonkripke  - modelcheck(<not a Kripke>, formula[, F=...]) must raise TypeError (monitored, no model needed); the list
               contains Kripke-LIKE objects (delegating wrapper, duck-typed class, labelled DiGraph subclass)
  program    - EXPRESSIONS over objects / raw str / raw bool: constructors, the python operators & | ~ (both the direct
               and the reflected form, chained), .clone(), .cast_to(M), objects built from raw operands; the value
               is observed directly, cast to every module, or handed to a modelcheck function (with and without F)
                                                                        vs  the same steps folded with (mk ..) / (cast ..)
  names      - atoms NAMED like the printed form of a formula (and of its restricted-syntax rewriting), interleaved with that
               formula in one session, bare AND inside an enclosing LTL / CTL* context, every part guarded before and after
  absorbed   - guards on formulas whose offending part is ABSORBED by a constant (true or x, false and x, x --> true, ...), sits
               next to a NEUTRAL constant, or hides in the 3rd / 4th operand of an or / and BELOW the root
  payloads   - AtomicProposition(<not a str>) must raise TypeError; the atom of a str holds that str (monitored)
Observation = ('ok', tree_of(result), languages of ALL nodes) or ('err', exception enum).  The model's reading of the
documented grammars (member bits, mk/cast/guard verdicts) is double-checked against the independent recognisers of
common.py; a disagreement THERE is a machinery error (exception -> CHECK-ERROR), never a violation."""
from common import *
import collections

LEVEL = 'proof'
LANGS = ('PL', 'CTLS', 'CTL', 'LTL')
CHECKERS = ('CTL', 'LTL', 'CTLS')
LEAVES = (('ap', 'p'), ('true',))
LEAVES4 = (('ap', 'p'), ('ap', 'q'), ('true',), ('false',))
LEAFT = ('true', 'false', 'ap')
RAWS = (('raw', 'p'), ('raw', 'q'), ('raw', True), ('raw', False))
# fairness arguments (JSON-able: lists of lists of states of KD; handed to the library as lists of sets)
FAIRS = ([[0]], [[1], [2]], [], [[0, 1, 2]], [[2], [0, 1]])
OPS1 = UNARY            # not X F G A E
OPS2 = BINARY           # imp U R
OPSN = NARY             # or and  (2 and 3 operands)
KD = {'S': [0, 1, 2], 'S0': [0], 'R': [(0, 1), (1, 2), (2, 2), (1, 0)], 'L': {0: ['p'], 1: [], 2: ['p', 'q']}}
MAXV = 40               # replay files written per run (the total number of disagreements is in the evidence)

# D13 (fixed in /repo by "fix: raw str/bool operands bypassed the operand class check"): regression corpus, runs first
CORPUS = [
    {'kind': 'apply', 'lang': 'CTL', 'op': 'A', 'operands': [('raw', 'p')]},
    {'kind': 'apply', 'lang': 'CTL', 'op': 'A', 'operands': [('raw', True)]},
    {'kind': 'apply', 'lang': 'CTL', 'op': 'E', 'operands': [('raw', 'p')]},
    {'kind': 'apply', 'lang': 'CTL', 'op': 'E', 'operands': [('raw', False)]},
    # D12 (fix F8): PL operators accepted temporal operands of other modules
    {'kind': 'apply', 'lang': 'PL', 'op': 'not', 'operands': [('obj', 'CTLS', ('A', ('ap', 'p')))]},
    {'kind': 'apply', 'lang': 'PL', 'op': 'or', 'operands': [('raw', 'p'), ('obj', 'LTL', ('X', ('ap', 'p')))]},
]


class MissingClass(Exception):
    """the language module has no class for the operator (LTL.E, PL.X): 'cannot be built'"""


def detuple(x):
    if isinstance(x, list):
        return tuple(detuple(y) for y in x)
    return x


def pymember(L, f):
    """documented grammar of the module's logic, by the independent recognisers of common.py"""
    if L == 'PL':
        return is_pl(f)
    if L == 'CTLS':
        return True
    if L == 'CTL':
        return is_ctl_state(f) or is_ctl_path(f)
    return is_ltl_path(f) or is_ltl_state(f)


PYSTATE = {'CTL': is_ctl_state, 'LTL': is_ltl_state, 'CTLS': is_ctls_state}


def machinery(cond, msg):
    if not cond:
        raise RuntimeError('C08 machinery: model and independent recogniser disagree: ' + msg)


# ----------------------------------------------------------------------------------------
# implementation side
# ----------------------------------------------------------------------------------------
def build(f, L):
    """bottom-up with the classes of module L only"""
    t = f[0]
    if t == 'true':
        return L.Bool(True)
    if t == 'false':
        return L.Bool(False)
    if t == 'ap':
        return L.AtomicProposition(f[1])
    kids = [build(g, L) for g in f[1:]]
    cls = getattr(L, PYNAME[t], None)
    if cls is None:
        raise MissingClass(PYNAME[t])
    return cls(*kids)


def raw_of(g):
    return g[1] if g[0] == 'ap' else g[0] == 'true'


def build_raw(f, L):
    """same tree with the classes of module L, but every leaf operand is handed to its operator as a RAW python str / bool
    (such objects keep height 0 above raw operands)"""
    t = f[0]
    if t in LEAFT:
        return build(f, L)
    kids = [raw_of(g) if g[0] in LEAFT else build_raw(g, L) for g in f[1:]]
    cls = getattr(L, PYNAME[t], None)
    if cls is None:
        raise MissingClass(PYNAME[t])
    return cls(*kids)


def build_mode(f, L, mode):
    return build_raw(f, L) if mode == 'raw' else build(f, L)


def fair_arg(F):
    return None if F is None else [set(c) for c in F]


def read_obj(o):
    try:
        return ('ok', tree_of(o), sorted(langs_in(o)))
    except Exception as e:  # an object whose shape cannot even be read back
        return ('ok', 'unreadable:' + type(e).__name__, [lang_of_obj(o)])


def guarded(fn):
    """-> (observation, object or None, missing_class flag)"""
    buf = io.StringIO()
    try:
        with contextlib.redirect_stdout(buf):
            o = fn()
    except MissingClass:
        return ('err', 'TypeError'), None, True
    except RecursionError:
        return ('err', 'other:RecursionError'), None, False
    except Exception as e:  # noqa
        return ('err', exc_name(e)), None, False
    return read_obj(o), o, False


def impl_construct(Ln, f):
    L = lang_module(Ln)
    return guarded(lambda: build(f, L))


def impl_apply(Ln, op, operands):
    """operands: ('raw', 'p') | ('raw', True) | ('obj', Li, tree) | ('rawobj', Li, tree) = object built from raw leaf
    operands.  The operand objects are built first (they are chosen buildable); only the application of L's operator
    is observed."""
    L = lang_module(Ln)
    args, before = [], []
    for od in operands:
        if od[0] == 'raw':
            args.append(od[1])
            before.append(None)
        else:
            a = build_mode(od[2], lang_module(od[1]), 'raw' if od[0] == 'rawobj' else 'obj')
            args.append(a)
            before.append(read_obj(a))

    def go():
        cls = getattr(L, PYNAME[op], None)
        if cls is None:
            raise MissingClass(PYNAME[op])
        return cls(*args)
    obs, o, missing = guarded(go)
    untouched = all(b is None or read_obj(a) == b for a, b in zip(args, before))
    return obs, o, missing, untouched


def impl_cast(Ln, f, Mn, o=None, mode='obj'):
    if o is None:
        o = build_mode(f, lang_module(Ln), mode)
    before = ('ok', f, [Ln])
    M = lang_module(Mn)
    obs, o2, _ = guarded(lambda: o.cast_to(M))
    return obs, read_obj(o) == before


_PARSERS = {}


def parser_of(Mn):
    if Mn not in _PARSERS:
        _PARSERS[Mn] = lang_module(Mn).Parser()
    return _PARSERS[Mn]


def canon_mc(r):
    if r[0] == 'ok':
        v = r[1]
        if isinstance(v, (set, frozenset)):
            return ('ok', sorted(v))
        return ('err', 'other:not-a-set:' + type(v).__name__)
    return ('err', r[1])


def impl_guard(Mn, K, arg, text=False, F=None):
    M = lang_module(Mn)
    kw = {} if F is None else {'F': fair_arg(F)}
    if text:
        P = parser_of(Mn)
        return canon_mc(call(lambda: M.modelcheck(K, arg, parser=P, **kw)))
    return canon_mc(call(lambda: M.modelcheck(K, arg, **kw)))


# ----------------------------------------------------------------------------------------
# model side
# ----------------------------------------------------------------------------------------
def op_sx(t, f=None):
    if t == 'true':
        return ['t']
    if t == 'false':
        return ['f']
    if t == 'ap':
        return ['a', Q(f[1])]
    return t


def model_built(o):
    """(ok (L form)) / (err E) -> observation comparable with read_obj"""
    if o[0] == 'ok':
        return ('ok', fparse(o[1][1]), [str(o[1][0])])
    return ('err', str(o[1]))


def model_build_all(keys, MB):
    """model of 'construct': fold (mk L op (L g)...) bottom-up; MB memo (L, tree) -> observation"""
    need = {}
    stack = list(keys)
    while stack:
        k = stack.pop()
        if k in MB or k in need:
            continue
        need[k] = fheight(k[1])
        if k[1][0] not in LEAFT:
            stack.extend((k[0], g) for g in k[1][1:])
    levels = collections.defaultdict(list)
    for k, h in need.items():
        levels[h].append(k)
    for h in sorted(levels):
        cmds, ks = [], []
        for (L, f) in levels[h]:
            t = f[0]
            kids = () if t in LEAFT else f[1:]
            bad = next((MB[(L, g)] for g in kids if MB[(L, g)][0] == 'err'), None)
            if bad is not None:
                MB[(L, f)] = bad       # the exception of the first operand that cannot be built propagates
                machinery(not pymember(L, f), 'operand not buildable but %s member of %s' % (fstr(f), L))
                continue
            cmds.append(['mk', L, op_sx(t, f)] + [[L, fsx(g)] for g in kids])
            ks.append((L, f))
        for k, o in zip(ks, model_batch_parallel(cmds)):
            m = model_built(o)
            machinery((m[0] == 'ok') == pymember(*k), 'mk %s %s -> %s' % (k[0], fstr(k[1]), m[0]))
            MB[k] = m
    return MB


def operand_obj(Ln, od):
    if od[0] == 'raw':
        return [Ln, fsx(('ap', od[1]) if isinstance(od[1], str) else (('true',) if od[1] else ('false',)))]
    return [od[1], fsx(od[2])]


def operand_tree(od):
    if od[0] == 'raw':
        return ('ap', od[1]) if isinstance(od[1], str) else (('true',) if od[1] else ('false',))
    return od[2]


def apply_cmd(Ln, op, operands):
    return ['mk', Ln, op] + [operand_obj(Ln, od) for od in operands]


def guard_cmd(Mn, Ln, ks, f):
    if Mn == 'CTL':
        return ['ctl', ks, fsx(f)]
    if Mn == 'LTL':
        return ['ltl', ks, fsx(f)]
    return ['ctls', Ln if Ln != 'PL' else 'CTLS', ks, fsx(f)]


def model_mc(o):
    if o[0] == 'ok':
        return ('ok', sorted(ints(o[1])))
    return ('err', str(o[1]))


def check_recognisers(trees):
    """model's member bits vs the independent recognisers (machinery check)"""
    outs = model_batch_parallel([['member', fsx(f)] for f in trees])
    for f, o in zip(trees, outs):
        bits = [x == '1' for x in o]
        mine = [is_pl(f), is_ctls_state(f), is_ctl_state(f), is_ctl_path(f), is_ltl_path(f), is_ltl_state(f), True]
        machinery(bits == mine, 'member %s: model %s recognisers %s' % (fstr(f), bits, mine))
    return len(trees)


# ----------------------------------------------------------------------------------------
# judging
# ----------------------------------------------------------------------------------------
class Judge:
    def __init__(self, R):
        self.R = R
        self.total_bad = 0
        self.hist = collections.defaultdict(collections.Counter)

    def bad(self, what, data, no_input=False):
        self.total_bad += 1
        if len(self.R.violations) < MAXV:
            self.R.violation(what, data, no_input=no_input)

    def built(self, kind, data, impl, model, untouched=True):
        """construct / apply / cast: observation must equal the model's"""
        R = self.R
        R.evaluations += 1
        self.hist[kind + ':' + data['lang'] + ('' if kind != 'cast' else '->' + data['target'])][impl[1] if impl[0] == 'err' else 'ok'] += 1
        d = dict(data, kind=kind, impl=impl, model=model)
        if not untouched:
            self.bad('%s modified its operand / the cast object' % kind, d)
            return False
        if tuple(impl) == tuple(model):
            return True
        if impl[0] == 'ok' and model[0] == 'err':
            what = '%s: an object that is NOT a formula of %s was returned instead of TypeError' % (kind, data.get('target', data['lang']))
        elif impl[0] == 'err' and impl[1] != 'TypeError':
            what = '%s raised %s (only TypeError is permitted)' % (kind, impl[1])
        elif impl[0] == 'err':
            what = '%s rejected a formula of %s that the documented grammar contains' % (kind, data.get('target', data['lang']))
        else:
            what = '%s: result has the wrong structure or nodes of another language module' % kind
        self.bad(what, d)
        return False

    def guard(self, data, impl, model, conservative_ok=False, sets=True):
        """sets=False (a fairness argument F was given): only accepted / rejected (+ the exception) is compared; WHICH
        states a fair checker returns is property C15"""
        R = self.R
        R.evaluations += 1
        if not sets:
            impl = ('ok', '<a set>') if impl[0] == 'ok' else impl
            model = ('ok', '<a set>') if model[0] == 'ok' else model
        key = 'guard%s:%s(%s)' % ('' if sets else '+F', data['checker'], data.get('lang', 'text'))
        self.hist[key]['set' if impl[0] == 'ok' else impl[1]] += 1
        d = dict(data, impl=impl, model=model)
        if tuple(impl) == tuple(model):
            return True
        if impl[0] == 'ok' and model[0] == 'err':
            self.bad('%s.modelcheck returned a set for an argument outside its logic / not a state formula' % data['checker'], d)
        elif impl[0] == 'err' and impl[1] not in ('TypeError',) and not (model[0] == 'err' and model[1] == impl[1]):
            self.bad('%s.modelcheck raised %s (TypeError required)' % (data['checker'], impl[1]), d)
        elif impl[0] == 'err' and model[0] == 'ok':
            if conservative_ok:
                R.count('conservative_rejections(LTL.modelcheck of CTL-module objects, CTLS.modelcheck of PL-module objects)')
                return True
            # the property only forbids returning a set; losing a state formula of the logic is a correspondence break
            self.bad('%s.modelcheck rejected a state formula of its logic' % data['checker'], d, no_input=True)
        elif impl[0] == 'ok' and model[0] == 'ok':
            self.bad('%s.modelcheck: guard agrees but the returned set differs from the model (exactness is C01-C03)' % data['checker'], d, no_input=True)
        else:
            self.bad('%s.modelcheck: %s instead of %s' % (data['checker'], impl, model), d)
        return False


# ----------------------------------------------------------------------------------------
# programs: expressions over objects, raw operands, constructors, the operators & | ~, clone, cast_to
#   ('obj', Li, tree, mode)  object of module Li built bottom-up (mode 'raw': its leaf operands were raw str / bool)
#   ('raw', v)               a raw python str / bool (only as an operand)
#   ('ctor', L, op, e...)    L.Op(e...)
#   ('and'|'or', a, b)       a & b, a | b   (python dispatch: a's method, the reflected method of b when a is raw)
#   ('inv', a)  ~a           ('clone', a)  a.clone()           ('cast', M, a)  a.cast_to(M)
# ----------------------------------------------------------------------------------------
def ekids(e):
    k = e[0]
    if k in ('obj', 'raw'):
        return ()
    if k == 'ctor':
        return e[3:]
    if k == 'cast':
        return e[2:3]
    return e[1:]


def impl_expr(e):
    k = e[0]
    if k == 'obj':
        return build_mode(e[2], lang_module(e[1]), e[3])
    if k == 'raw':
        return e[1]
    if k == 'ctor':
        cls = getattr(lang_module(e[1]), PYNAME[e[2]], None)
        if cls is None:
            raise MissingClass(PYNAME[e[2]])
        return cls(*[impl_expr(x) for x in e[3:]])
    if k == 'and':
        return impl_expr(e[1]) & impl_expr(e[2])
    if k == 'or':
        return impl_expr(e[1]) | impl_expr(e[2])
    if k == 'inv':
        return ~impl_expr(e[1])
    if k == 'clone':
        return impl_expr(e[1]).clone()
    if k == 'cast':
        return impl_expr(e[2]).cast_to(lang_module(e[1]))
    raise ValueError(k)


def impl_program(e):
    """-> observation, object"""
    obs, o, _ = guarded(lambda: impl_expr(e))
    return obs, o


def estr(e):
    k = e[0]
    if k == 'obj':
        return '<%s object %s%s>' % (e[1], fstr(e[2]), ' built from raw operands' if e[3] == 'raw' else '')
    if k == 'raw':
        return repr(e[1])
    if k == 'ctor':
        return '%s.%s(%s)' % (e[1], PYNAME[e[2]], ', '.join(estr(x) for x in e[3:]))
    if k in ('and', 'or'):
        return '(%s %s %s)' % (estr(e[1]), '&' if k == 'and' else '|', estr(e[2]))
    if k == 'inv':
        return '~' + estr(e[1])
    if k == 'clone':
        return estr(e[1]) + '.clone()'
    return '%s.cast_to(%s)' % (estr(e[2]), e[1])


def raw_tree(v):
    return ('ap', v) if isinstance(v, str) else (('true',) if v else ('false',))


def model_eval(exprs, MB):
    """model of the programs: every step is one (mk L op ...) / (cast M ...) of the proved model; an exception of a
    sub-expression propagates (python evaluates operands left to right).
    -> val: expr -> ('ok', L, tree) | ('err', E) | ('raw', v);  step: expr -> module in which the last step runs"""
    val, step, hs = {}, {}, {}

    def height(e):
        if e not in hs:
            hs[e] = 0 if e[0] in ('obj', 'raw') else 1 + max(height(x) for x in ekids(e))
        return hs[e]
    for e in exprs:
        height(e)
    model_build_all([(e[1], e[2]) for e in hs if e[0] == 'obj'], MB)
    levels = collections.defaultdict(list)
    for e, h in hs.items():
        levels[h].append(e)

    def arg(L, v):
        return [L, fsx(raw_tree(v[1]))] if v[0] == 'raw' else [v[1], fsx(v[2])]

    def tre(v):
        return raw_tree(v[1]) if v[0] == 'raw' else v[2]
    for h in sorted(levels):
        cmds, es, chk = [], [], []
        for e in levels[h]:
            k = e[0]
            if k == 'raw':
                val[e] = ('raw', e[1])
                continue
            if k == 'obj':
                m = MB[(e[1], e[2])]
                val[e] = ('ok', e[1], e[2]) if m[0] == 'ok' else m
                step[e] = e[1]
                continue
            vs = [val[x] for x in ekids(e)]
            bad = next((v for v in vs if v[0] == 'err'), None)
            if k == 'ctor':
                step[e] = e[1]
            elif k == 'cast':
                step[e] = e[1]
            else:
                lead = next((v for v in vs if v[0] == 'ok'), None)
                step[e] = lead[1] if lead else '-'
            if bad is not None:
                val[e] = bad
                continue
            L = step[e]
            if k == 'clone':
                val[e] = vs[0]
                continue
            if k == 'cast':
                cmds.append(['cast', L, arg(L, vs[0])])
                chk.append((L, vs[0][2]))
            else:
                op = e[2] if k == 'ctor' else ('not' if k == 'inv' else k)
                cmds.append(['mk', L, op] + [arg(L, v) for v in vs])
                chk.append((L, (op,) + tuple(tre(v) for v in vs)))
            es.append(e)
        for e, c, o in zip(es, chk, model_batch_parallel(cmds) if cmds else []):
            m = model_built(o)
            machinery((m[0] == 'ok') == pymember(*c), 'program step %s: %s %s -> %s' % (estr(e), c[0], fstr(c[1]), m[0]))
            val[e] = ('ok', m[2][0], m[1]) if m[0] == 'ok' else m
    return val, step


def model_obs(v):
    return ('ok', v[2], [v[1]]) if v[0] == 'ok' else tuple(v)


def gen_chain(rng, opnds_by_lang, opnds_all):
    """a & b | c ...: 2-4 operands joined by the python operators, left- and right-nested, direct and reflected; most
    operands come from one home module, some from the others, some are raw"""
    home = rng.choice(LANGS)

    def opnd(raw_ok):
        x = rng.random()
        if raw_ok and x < 0.2:
            return rng.choice(RAWS)
        return rng.choice(opnds_by_lang[home]) if x < 0.75 else rng.choice(opnds_all)
    e = opnd(False)
    for _ in range(rng.choice((1, 2, 2, 3))):
        o = opnd(True)
        op = rng.choice(('and', 'or'))
        e = (op, e, o) if rng.random() < 0.7 else (op, o, e)
        x = rng.random()
        if x < 0.12:
            e = ('inv', e)
        elif x < 0.2:
            e = ('clone', e)
    return e


def render(rng, f, L, builtset):
    """one way of writing the tree f as a program, mostly in module L: constructors or operators, object or raw leaves,
    ready-made sub-objects, clones and casts in between"""
    t = f[0]
    Li = L if rng.random() < 0.85 else rng.choice(LANGS)
    if t in LEAFT:
        return ('obj', Li, f, 'obj')
    if fheight(f) <= 1 and rng.random() < 0.3 and (Li, f) in builtset:
        return ('obj', Li, f, rng.choice(('obj', 'raw')))
    kids = [('raw', raw_of(g)) if g[0] in LEAFT and rng.random() < 0.35 else render(rng, g, L, builtset) for g in f[1:]]
    if t == 'not' and kids[0][0] != 'raw' and rng.random() < 0.6:
        e = ('inv', kids[0])
    elif t in ('and', 'or') and not (kids[0][0] == 'raw' and kids[1][0] == 'raw') and rng.random() < 0.7:
        e = kids[0]
        for k in kids[1:]:
            e = (t, e, k)
    else:
        e = ('ctor', Li, t) + tuple(kids)
    x = rng.random()
    if x < 0.08:
        e = ('clone', e)
    elif x < 0.14:
        e = ('cast', rng.choice(LANGS), e)
    return e


# ----------------------------------------------------------------------------------------
# things that are not Kripke structures (by name, so that a recorded case can be replayed)
# ----------------------------------------------------------------------------------------
def non_kripkes():
    from pyModelChecking.graph import DiGraph
    from pyModelChecking import Kripke
    real = kd_py(KD)

    class Recorder(object):
        """a logging wrapper: delegates every attribute to a real Kripke structure"""
        def __init__(self, k):
            self._k = k

        def __getattr__(self, name):
            return getattr(self._k, name)

    class Duck(object):
        """the methods of a Kripke structure, no inheritance"""
        def __init__(self, k):
            self._k = k

        def states(self):
            return self._k.states()

        def nodes(self):
            return self._k.nodes()

        def edges(self):
            return self._k.edges()

        def next(self, v):
            return self._k.next(v)

        def labels(self, *a):
            return self._k.labels(*a)

        def clone(self):
            return Duck(self._k.clone())

        def label_fair_states(self, F):
            return self._k.label_fair_states(F)

        def get_reversed_graph(self):
            return self._k.get_reversed_graph()

    class LabelledGraph(DiGraph):
        """a DiGraph subclass with states()/labels() (a DiGraph, not a Kripke)"""
        def __init__(self, k):
            DiGraph.__init__(self, V=list(k.states()), E=list(k.edges()))
            self._k = k

        def states(self):
            return self.nodes()

        def labels(self, *a):
            return self._k.labels(*a)

        def clone(self):
            return LabelledGraph(self._k)

        def label_fair_states(self, F):
            return self._k.clone().label_fair_states(F)
    import types
    ns = types.SimpleNamespace(**{n: getattr(real, n) for n in dir(real) if not n.startswith('__') and callable(getattr(real, n))})
    return [('None', None), ('int', 0), ('str', 'K'), ('dict', {}), ('list', [(0, 0)]), ('DiGraph', DiGraph(V=[0], E=[(0, 0)])),
            ('class Kripke', Kripke), ('object', object()),
            ('wrapper delegating every attribute to a Kripke via __getattr__', Recorder(real)),
            ('duck-typed class with the Kripke methods', Duck(real)),
            ('DiGraph subclass with states() and labels()', LabelledGraph(real)),
            ('namespace holding the bound methods of a Kripke', ns),
            ('tuple (S, S0, R, L)', ([0, 1], [0], [(0, 1), (1, 0)], {0: ['p'], 1: []}))]


NONK_GOOD = {'CTL': ('A', ('G', ('ap', 'p'))), 'LTL': ('A', ('G', ('ap', 'p'))), 'CTLS': ('A', ('G', ('F', ('ap', 'p'))))}
NONK_EXTRA = {'CTL': ('E', ('X', ('ap', 'p'))), 'LTL': ('A', ('X', ('ap', 'p'))), 'CTLS': ('or', ('ap', 'p'), ('E', ('X', ('ap', 'p'))))}


def nonk_arg(Mn, Ln, arg_kind):
    if arg_kind == 'object':
        return build(NONK_GOOD[Mn], lang_module(Ln))
    if arg_kind == 'text':
        return str(build(NONK_GOOD[Mn], lang_module('CTLS')))
    if arg_kind == 'object2':
        return build_raw(NONK_EXTRA[Mn], lang_module(Ln))
    if arg_kind == 'atom':
        return build(('ap', 'p'), lang_module(Ln))
    if arg_kind == 'text-atom':
        return 'p'
    return build(('X', ('ap', 'p')), lang_module(Ln))


NONK_KINDS = ('object', 'text', 'bad-object', 'object2', 'atom', 'text-atom')


# ----------------------------------------------------------------------------------------
# payloads of atoms that are not str (by their repr, so that a recorded case can be replayed)
# ----------------------------------------------------------------------------------------
ATOM_PAYLOADS = ("b'p'", "b''", "bytearray(b'p')", "memoryview(b'p')", '1', '0', '2.5', 'None', "('p',)", "['p']", "{'p'}", "frozenset('p')",
                 'True', "b'true'", "b'A(X(p))'", "str", "object()")
ATOM_FORMS = ('AtomicProposition', 'Not', 'Or-right', 'Or-left', 'A', 'X', 'U-right')


def atom_form_str(form, vr):
    return {'AtomicProposition': 'AtomicProposition(%s)', 'Not': 'Not(%s)', 'Or-right': "Or('p', %s)", 'Or-left': "Or(%s, 'p')", 'A': 'A(%s)',
            'X': 'X(%s)', 'U-right': "U('p', %s)"}[form] % vr


def atom_payload_obs(Ln, vr, form):
    """-> ('ok', short description) | ('err', enum).  Bool payloads are legal raw operands of operators (they mean the constants) and
    are only used with the AtomicProposition form."""
    L = lang_module(Ln)
    X = eval(vr, {})
    if form != 'AtomicProposition' and isinstance(X, bool):
        return ('err', 'TypeError')

    def go():
        if form == 'AtomicProposition':
            return L.AtomicProposition(X)
        if form == 'Not':
            return L.Not(X)
        if form == 'Or-right':
            return L.Or('p', X)
        if form == 'Or-left':
            return L.Or(X, 'p')
        cls = getattr(L, {'A': 'A', 'X': 'X', 'U-right': 'U'}[form], None)
        if cls is None:
            raise TypeError('no such class')
        return cls('p', X) if form == 'U-right' else cls(X)
    r = call(go)
    return (r[0], (type(r[1]).__module__.split('.')[-2] + '.' + type(r[1]).__name__ + ' ' + str(r[1])[:60]) if r[0] == 'ok' else r[1])


# ----------------------------------------------------------------------------------------
# case generation
# ----------------------------------------------------------------------------------------
def relabel(rng, f):
    if f[0] in LEAFT:
        return rng.choice(LEAVES4)
    return (f[0],) + tuple(relabel(rng, g) for g in f[1:])


def nary3(pool):
    return [(t, a, b, c) for t in OPSN for a in pool for b in pool for c in pool]


P_, Q_, T_, F_ = ('ap', 'p'), ('ap', 'q'), ('true',), ('false',)
# sub-formulas that put a formula outside CTL / LTL (quantifiers LTL does not have or only has at the root, bare path formulas)
OFFENDERS = [('E', P_), ('A', ('X', P_)), ('E', ('U', P_, Q_)), ('A', ('F', ('G', P_))), ('E', ('G', ('F', Q_))), ('A', ('not', ('X', Q_))),
             ('X', P_), ('U', P_, Q_), ('F', ('G', P_))]


def contexts_of(w):
    """the formula w alone and below quantifiers / temporal operators / a Boolean connective"""
    return [w, ('A', w), ('E', w), ('A', ('X', w)), ('A', ('U', w, P_)), ('A', ('G', ('or', w, Q_))), ('or', ('A', w), Q_),
            ('A', ('not', w)), ('A', ('imp', Q_, w))]


def absorbed_templates(x):
    """x made semantically irrelevant by a CONSTANT (absorbing element), kept by a neutral constant, doubly negated: a guard that runs
    after constant folding / simplification no longer sees (or wrongly drops) the operator that puts the formula outside the logic"""
    nx = ('not', x)
    return [('or', T_, x), ('or', x, T_), ('or', P_, x, T_), ('or', nx, T_), ('and', F_, x), ('and', x, F_), ('and', x, Q_, F_), ('and', F_, nx),
            ('imp', F_, x), ('imp', x, T_), ('or', ('not', F_), x), ('and', ('not', T_), x), ('not', ('or', x, T_)), ('not', ('and', F_, x)),
            ('or', F_, x), ('and', T_, x), ('and', x, T_), ('imp', T_, x), ('imp', x, F_), ('not', nx), ('not', ('not', nx)),
            ('or', ('and', F_, x), P_), ('and', ('or', T_, x), Q_)]


def hidden_templates(x):
    """x in every operand position of a 3-ary and (some of) a 4-ary or / and (the library's connectives are n-ary; the audit's escape
    looked at the first two operands only)"""
    out = []
    for t in OPSN:
        out += [(t, x, P_, Q_), (t, P_, x, Q_), (t, P_, Q_, x), (t, P_, Q_, ('not', x)), (t, P_, Q_, T_, x), (t, P_, F_, x, Q_),
                (t, P_, Q_, ('not', Q_), ('X', x)), (t, ('X', P_), Q_, x)]
    return out


def offender_stream(templ):
    out = []
    for x in OFFENDERS:
        for w in templ(x):
            out += contexts_of(w)
    return list(dict.fromkeys(out))


def gen_depth3(rng, n, d2, members):
    """trees of depth exactly 3 (root over the depth<=2 enumeration, one operand of depth 2); 60% of them draw the
    operands from the members of one target logic so that enough of them are formulas of CTL / LTL / PL"""
    deep = {L: [f for f in members[L] if fheight(f) == 2] for L in LANGS}
    out, seen = [], set()
    allops = list(OPS1) + list(OPS2) + list(OPSN) + ['or3', 'and3']
    while len(out) < n:
        op = rng.choice(allops)
        k = 1 if op in OPS1 else (3 if op.endswith('3') else 2)
        L = rng.choice(LANGS) if rng.random() < 0.6 else 'CTLS'
        kids = [rng.choice(members[L]) for _ in range(k)]
        kids[rng.randrange(k)] = rng.choice(deep[L])
        f = (op[:-1] if op.endswith('3') else op,) + tuple(kids)
        if f not in seen:
            seen.add(f)
            out.append(f)
    return out


def run(R):
    rng = R.rng
    # introspective tie: the model's class-lattice tables vs tables regenerated from the live classes
    import lattice
    diffs = lattice.lattice_check(R)
    if diffs:
        R.violation('the class lattice of the language modules differs from the tables of the model (coq/Model/Syntax.v): %s' % '; '.join(diffs[:4]),
                    {'correspondence': 'lattice tables (in_alphabet / isinst / required)', 'differences': diffs}, no_input=True)
    J = Judge(R)
    MB = {}
    T = {}
    t_last = [time.time()]

    def mark(name):
        T[name] = round(time.time() - t_last[0], 1)
        t_last[0] = time.time()
    K = kd_py(KD)
    ks = kripke_sx(K)
    ksnap = kripke_snapshot(K)
    R.rule = ('operator trees over {p, true} x {not X F G A E, --> U R, or/and with 2 and 3 operands}: ALL trees of depth <= 2 with binary or/and (5986), '
              'ternary or/and over depth <= 1 operands (all 16 at depth 1; 2500 / 30000 of the 78592 at depth 2), depth 3 sampled with a bias towards '
              'members of one logic; x 4 language modules x {construct bottom-up, cast_to each module, each modelcheck on a fixed 3-state structure as '
              'object and as text}; apply = one operator on operands built in other modules / raw str / raw bool (unary exhaustive over depth <= 1 '
              'operands, the rest sampled in quick); compared: success + tree + language module of every node, or exception enum; '
              'non-trivial = the tree is not propositional (so the four logics disagree about it).  ALSO: the same shapes over the leaves '
              '{p, q, true, false} (depth <= 1 complete, 1000 / 6000 deeper ones); construct / cast sources / apply operands / guard arguments built '
              'from RAW str / bool leaf operands (mode raw); PROGRAMS = expressions over ready objects (object- and raw-built, every module), raw '
              'operands, constructors, the python operators & | ~ in direct and reflected form (all pairs over a pool of atoms, constants, state, path '
              'and quantified formulas of every module + raw operands; random chains of 2-4 operands, left and right nested; trees re-written with '
              'operators), .clone() and .cast_to(M) in between; each program is folded step by step with the model (mk / cast), its value is compared, '
              'and a sample is handed to the three modelcheck functions; guards (objects, text, programs) and the non-Kripke cases also run WITH a '
              'fairness argument F (5 shapes; then accepted / rejected + exception are compared, the returned states are C15); non-Kripke first '
              'arguments include Kripke-LIKE objects (delegating wrapper, duck-typed class, DiGraph subclass with labels, namespace of bound methods) x '
              '6 formula arguments x 4 values of F; NAMES = sessions in which a formula, then atoms named like its printed form (alone, negated, in a '
              'disjunction), then the formula again are cast to every module and guarded, plus fixed odd names (true, not p, A(X(p)), the empty name); '
              'in every session the guards also run on the argument INSIDE two of 10 enclosing contexts (A X ., A(. or q), A(q U .), E F ., ...: the atom '
              'and the formula print alike there), a second atom is named like the restricted-syntax rewriting of the formula, and the formula part is '
              'guarded again AFTER the atoms (ordered pairs of calls in one process).  ABSORBED / HIDDEN offenders: 9 offending sub-formulas x '
              '{absorbed by a constant: true or x, x or true, false and x, x --> true, false --> x, ...; kept by a neutral constant; doubly negated; '
              'in each operand position of a 3-ary and in the 3rd / 4th position of a 4-ary or / and} x 9 contexts (alone, under A, E, A X, A U, '
              'A G(. or q), A . or q, A not, A(q --> .)) guarded by the three checkers (sampled 500 + 300 in quick) and, for the n-ary ones plus random '
              '3-/4-ary connectives below the root, pushed through construct / cast / guard like every other tree.  PAYLOADS: AtomicProposition(v) for 17 '
              'values v that are not str (bytes, bytearray, memoryview, numbers, containers, a class) must raise TypeError, the operators given v as a '
              'raw operand must not return an object, and the atom of a str holds exactly that str')

    # ---- 0. corpus of past defects (D12, D13) ----------------------------------------------
    run_apply(R, J, [(c['lang'], c['op'], c['operands']) for c in CORPUS], corpus=True)

    mark('corpus')
    # ---- 1. trees ------------------------------------------------------------------------
    d1 = all_trees(1, LEAVES, OPS1, OPS2, OPSN)
    d2 = all_trees(2, LEAVES, OPS1, OPS2, OPSN)
    t3_1 = nary3(list(LEAVES))
    pool1 = d1 + t3_1                                  # every tree of depth <= 1 (50)
    t3_2 = [f for f in nary3(d1) if fheight(f) == 2]
    t3_2 = rng.sample(t3_2, 30000 if R.thorough else 2500)
    members = {L: [f for f in d2 if pymember(L, f)] for L in LANGS}
    d3 = gen_depth3(rng, 40000 if R.thorough else 2500, d2, members)
    trees = d2 + t3_1 + t3_2 + d3
    # the same shapes over the leaves {p, q, true, false}: every tree of depth <= 1 (binary and ternary), deeper ones sampled
    seen_t = set(trees)
    d1x = [f for f in all_trees(1, LEAVES4, OPS1, OPS2, OPSN) + nary3(list(LEAVES4)) if f not in seen_t]
    seen_t.update(d1x)
    variants = []
    src_v = d2[len(d1):] + t3_2 + d3
    while len(variants) < (6000 if R.thorough else 1000):
        g = relabel(rng, rng.choice(src_v))
        if g not in seen_t and any(x in (('false',), ('ap', 'q')) for x in subformulas(g)):
            seen_t.add(g)
            variants.append(g)
    # 3- and 4-ary or / and BELOW the root (under quantifiers, temporal operators, connectives), each operand position in turn deep
    inner = [f for f in offender_stream(hidden_templates) if f not in seen_t]
    fill = [g for g in d1 if g[0] not in LEAFT]
    for _ in range(4000 if R.thorough else 250):
        k = rng.choice((3, 3, 4))
        kids = [rng.choice(LEAVES4) for _i in range(k)]
        kids[rng.randrange(k)] = rng.choice(fill)
        w = (rng.choice(OPSN),) + tuple(kids)
        inner.append(rng.choice(contexts_of(w)[1:]))
    inner = [f for f in dict.fromkeys(inner) if f not in seen_t]
    if not R.thorough:
        inner = rng.sample(inner, min(len(inner), 300))
    seen_t.update(inner)
    trees = trees + d1x + variants + inner
    assert len(set(trees)) == len(trees)
    R.cov['trees'] = {'depth<=2 binary (exhaustive)': len(d2), 'ternary depth 1': len(t3_1), 'ternary depth 2': len(t3_2), 'depth 3 sampled': len(d3),
                      'depth<=1 over the leaves p,q,true,false (exhaustive, new ones)': len(d1x), 'deeper shapes with leaves redrawn from p,q,true,false': len(variants),
                      '3-/4-ary or/and below the root (offender or deep operand in each position)': len(inner)}
    R.cov['recogniser_cross_checks'] = check_recognisers(trees)

    mark('trees+recognisers')
    # ---- 2. construct --------------------------------------------------------------------
    keys = [(L, f) for f in trees for L in LANGS]
    model_build_all(keys, MB)
    built = []           # (L, f) that the implementation built and that agree with the model
    missing = 0
    for (Ln, f) in keys:
        obs, o, miss = impl_construct(Ln, f)
        missing += miss
        ok = J.built('construct', {'lang': Ln, 'tree': f, 'tree_str': fstr(f)}, obs, MB[(Ln, f)])
        if ok and obs[0] == 'ok':
            built.append((Ln, f))
        if ok and not is_pl(f):
            R.nontriv(('construct', Ln, f))
            if obs[0] == 'err' and fheight(f) == 2:
                R.sample({'construct': '%s: %s' % (Ln, fstr(f)), 'outcome': obs[1]}, limit=2)
    R.cov['missing_class_counted_as_TypeError'] = missing
    # the same constructions with the leaf operands given as RAW python str / bool
    rkeys = [k for k in keys if fheight(k[1]) >= 1]
    rkeys = [k for k in rkeys if fheight(k[1]) == 1] + rng.sample([k for k in rkeys if fheight(k[1]) > 1], 20000 if R.thorough else 1800)
    for (Ln, f) in rkeys:
        L = lang_module(Ln)
        obs, o, _ = guarded(lambda: build_raw(f, L))
        ok = J.built('construct', {'lang': Ln, 'tree': f, 'tree_str': fstr(f), 'mode': 'raw'}, obs, MB[(Ln, f)])
        if ok and not is_pl(f):
            R.nontriv(('construct-raw', Ln, f))

    mark('construct')
    # ---- 3. cast_to ----------------------------------------------------------------------
    cast_src = built if R.thorough else [b for b in built if fheight(b[1]) <= 2] + rng.sample([b for b in built if fheight(b[1]) > 2], min(600, sum(1 for b in built if fheight(b[1]) > 2)))
    cases = [(Ln, f, Mn, 'obj') for (Ln, f) in cast_src for Mn in LANGS]
    # sources built from RAW leaf operands (their height attribute stays 0 above the raw operands)
    raw_src = [b for b in cast_src if fheight(b[1]) >= 1]
    raw_src = [b for b in raw_src if fheight(b[1]) == 1] + rng.sample([b for b in raw_src if fheight(b[1]) > 1], 12000 if R.thorough else 1100)
    cases += [(Ln, f, Mn, 'raw') for (Ln, f) in raw_src for Mn in LANGS]
    ucases = list(dict.fromkeys(c[:3] for c in cases))
    mcast = dict(zip(ucases, model_batch_parallel([['cast', Mn, [Ln, fsx(f)]] for (Ln, f, Mn) in ucases])))
    src_obj, src_key = None, None
    for (Ln, f, Mn, mode) in cases:
        m = model_built(mcast[(Ln, f, Mn)])
        machinery((m[0] == 'ok') == pymember(Mn, f), 'cast %s %s -> %s' % (Mn, fstr(f), m[0]))
        if src_key != (Ln, f, mode):       # one source object, cast to the four modules in turn
            src_obj, src_key = build_mode(f, lang_module(Ln), mode), (Ln, f, mode)
        obs, same = impl_cast(Ln, f, Mn, src_obj)
        ok = J.built('cast', {'lang': Ln, 'target': Mn, 'tree': f, 'tree_str': fstr(f), 'mode': mode}, obs, m, untouched=same)
        if ok and not is_pl(f) and Ln != Mn:
            R.nontriv(('cast', Ln, Mn, f, mode))
            if obs[0] == 'ok' and fheight(f) == 2 and Mn in ('CTL', 'LTL'):
                R.sample({'cast': '%s object %s -> %s' % (Ln, fstr(f), Mn), 'outcome': 'same tree, all nodes ' + Mn}, limit=4)

    mark('cast')
    # ---- 4. apply: foreign-module and raw operands -----------------------------------------
    objs1 = [(Ln, f) for (Ln, f) in built if fheight(f) <= 1]
    objs2 = [(Ln, f) for (Ln, f) in built if fheight(f) == 2]
    raws = [('raw', 'p'), ('raw', 'q'), ('raw', True), ('raw', False)]
    acases = []
    for Ln in LANGS:
        for op in OPS1:
            acases += [(Ln, op, [r]) for r in raws]
            acases += [(Ln, op, [('obj', Li, g)]) for (Li, g) in objs1]
        for op in OPS2 + OPSN:
            acases += [(Ln, op, [a, b]) for a in raws for b in raws]
        for op in OPSN:
            acases += [(Ln, op, [a, b, c]) for a in raws[::2] for b in raws[1::2] for c in raws[:3]]
    opnd1 = [('obj', Li, g) for (Li, g) in objs1]
    opnd2 = [('obj', Li, g) for (Li, g) in objs2]
    # operands that were themselves built from raw str / bool operands
    ropnd1 = [('rawobj', Li, g) for (Li, g) in objs1 if fheight(g) == 1]
    ropnd2 = [('rawobj', Li, g) for (Li, g) in objs2]
    for Ln in LANGS:
        for op in OPS1:
            acases += [(Ln, op, [od]) for od in (ropnd1 if R.thorough else rng.sample(ropnd1, 150))]
    if R.thorough:
        p1 = set(pool1)         # all pairs over the depth <= 1 operands with leaves p / true; the {p, q, true, false} ones are sampled below
        opnd1p = [od for od in opnd1 if od[2] in p1]
        for Ln in LANGS:
            for op in OPS2 + OPSN:
                acases += [(Ln, op, [a, b]) for a in opnd1p for b in opnd1p]
    nrand = 60000 if R.thorough else 7000
    for _ in range(nrand):
        Ln = rng.choice(LANGS)
        op = rng.choice(OPS1 + OPS2 + OPSN + OPS2 + OPSN)
        k = 1 if op in OPS1 else (2 if op in OPS2 or rng.random() < 0.7 else 3)
        ods = []
        for _i in range(k):
            x = rng.random()
            y = rng.random() < 0.25
            ods.append(rng.choice(raws) if x < 0.15 else (rng.choice(ropnd1 if y else opnd1) if x < 0.6 else rng.choice(ropnd2 if y else opnd2)))
        acases.append((Ln, op, ods))
    run_apply(R, J, acases)

    mark('apply')
    # ---- 4b. programs: constructors, & | ~ (direct, reflected, chained), clone, cast_to, raw-built objects ----
    run_programs(R, J, rng, MB, built, objs1, objs2, members, trees, K, ks)
    mark('programs')
    # ---- 4c. atoms named like the printed form of a formula, interleaved with that formula -------------------
    run_names(R, J, rng, built, K, ks)
    mark('names')
    # ---- 5. modelcheck guards --------------------------------------------------------------
    gobjs = [b for b in built if fheight(b[1]) <= 1]
    rest = [b for b in built if fheight(b[1]) == 2]
    gobjs += rest if R.thorough else rng.sample(rest, 2000)
    deep = [b for b in built if fheight(b[1]) == 3]
    gobjs += rng.sample(deep, min(len(deep), 4000 if R.thorough else 150))
    # formulas whose offending part is REDUNDANT (x or not x, x and not x, x --> x, repeated operands): a guard that runs after some
    # simplification / rewriting of the formula would no longer see the quantifier or operator that puts the formula outside the logic
    offenders = OFFENDERS
    red = []
    for x in offenders:
        nx = ('not', x)
        for w in (('or', x, nx), ('or', nx, x), ('or', nx, x, P_), ('and', x, nx), ('imp', x, x), ('or', x, x), ('and', nx, nx, x),
                  ('or', ('and', x, Q_), nx), ('not', ('and', x, nx))):
            red += [w, ('A', w), ('E', w), ('A', ('X', w)), ('A', ('U', w, P_)), ('A', ('G', ('or', w, Q_))), ('or', ('A', w), Q_)]
    red = [f for f in dict.fromkeys(red) if pymember('CTLS', f)]
    if not R.thorough:
        red = rng.sample(red, min(len(red), 220))
    gobjs += [('CTLS', f) for f in red]
    R.cov['guard_redundant_offender_templates'] = len(red)
    # the offender ABSORBED by a constant (true or x, false and x, x --> true ...), next to a neutral constant, doubly negated; and the
    # offender in the 3rd / 4th operand of an n-ary or / and below the root
    absorbed = offender_stream(absorbed_templates)
    hidden = offender_stream(hidden_templates)
    if not R.thorough:
        absorbed = rng.sample(absorbed, min(len(absorbed), 500))
        hidden = rng.sample(hidden, min(len(hidden), 300))
    have = set(f for (_l, f) in gobjs)
    extra = [f for f in dict.fromkeys(absorbed + hidden) if f not in have]
    gobjs += [('CTLS', f) for f in extra]
    R.cov['guard_absorbed_offender_templates'] = len(absorbed)
    R.cov['guard_offender_in_3rd_4th_operand_below_root'] = len(hidden)
    gcases = [(Mn, Ln, f) for (Ln, f) in gobjs for Mn in CHECKERS]
    outs = model_batch_parallel([guard_cmd(Mn, Ln, ks, f) for (Mn, Ln, f) in gcases])
    for (Mn, Ln, f), o in zip(gcases, outs):
        m = model_mc(o)
        machinery((m[0] == 'ok') == PYSTATE[Mn](f), 'guard %s %s -> %s' % (Mn, fstr(f), m))
        obj = build(f, lang_module(Ln))
        before = read_obj(obj)
        obs = impl_guard(Mn, K, obj)
        if read_obj(obj) != before or kripke_snapshot(K) != ksnap:
            J.bad('modelcheck modified its arguments', {'kind': 'guard', 'checker': Mn, 'lang': Ln, 'tree': f, 'tree_str': fstr(f)}, no_input=True)
            K = kd_py(KD)
        cons = (Mn == 'LTL' and Ln == 'CTL') or (Mn == 'CTLS' and Ln == 'PL')
        ok = J.guard({'kind': 'guard', 'checker': Mn, 'lang': Ln, 'tree': f, 'tree_str': fstr(f)}, obs, m, conservative_ok=cons)
        if ok and not is_pl(f):
            R.nontriv(('guard', Mn, Ln, f))
            if m[0] == 'ok' and fheight(f) == 2 and 0 < len(m[1]) < 3:
                R.sample({'modelcheck': '%s.modelcheck(K, %s object %s)' % (Mn, Ln, fstr(f)), 'result': m[1]}, limit=8)
    # the same guards WITH a fairness argument F and / or on objects built from RAW leaf operands: which arguments a checker accepts
    # does not depend on F (with F only accepted / rejected + the exception is compared; the returned states are property C15)
    mg = dict(zip(gcases, outs))
    acc = [c for c in gcases if mg[c][0] == 'ok']
    rej = [c for c in gcases if mg[c][0] != 'ok']
    fsub = rng.sample(acc, min(len(acc), 12000 if R.thorough else 1300)) + rng.sample(rej, min(len(rej), 10000 if R.thorough else 1100))
    for (Mn, Ln, f) in fsub:
        mode = rng.choice(('obj', 'raw')) if fheight(f) >= 1 else 'obj'
        F = rng.choice(FAIRS) if mode == 'obj' or rng.random() < 0.6 else None
        m = model_mc(mg[(Mn, Ln, f)])
        obs = impl_guard(Mn, K, build_mode(f, lang_module(Ln), mode), F=F)
        if kripke_snapshot(K) != ksnap:
            J.bad('modelcheck modified its arguments', {'kind': 'guard', 'checker': Mn, 'lang': Ln, 'tree': f, 'tree_str': fstr(f), 'F': F, 'mode': mode}, no_input=True)
            K = kd_py(KD)
        cons = (Mn == 'LTL' and Ln == 'CTL') or (Mn == 'CTLS' and Ln == 'PL')
        ok = J.guard({'kind': 'guard', 'checker': Mn, 'lang': Ln, 'tree': f, 'tree_str': fstr(f), 'F': F, 'mode': mode}, obs, m, conservative_ok=cons, sets=F is None)
        if ok and not is_pl(f):
            R.nontriv(('guard', Mn, Ln, f, mode, str(F)))
    # the same guards on DEGENERATE structures (no state at all; one state): which formulas a checker accepts does not depend on K
    from pyModelChecking.kripke import Kripke as _Kripke
    small = [('the empty structure Kripke()', _Kripke()), ('a one-state structure', _Kripke(R=[(0, 0)], L={0: ['p']}))]
    sub = rng.sample(gcases, min(len(gcases), 3000 if R.thorough else 450))
    for kname, K0 in small:
        ks0 = kripke_sx(K0)
        outs0 = model_batch_parallel([guard_cmd(Mn, Ln, ks0, f) for (Mn, Ln, f) in sub])
        for (Mn, Ln, f), o in zip(sub, outs0):
            m = model_mc(o)
            obs = impl_guard(Mn, K0, build(f, lang_module(Ln)))
            cons = (Mn == 'LTL' and Ln == 'CTL') or (Mn == 'CTLS' and Ln == 'PL')
            J.guard({'kind': 'guard', 'checker': Mn, 'lang': Ln, 'tree': f, 'tree_str': fstr(f), 'structure': kname}, obs, m, conservative_ok=cons)
    mark('guard objects')
    # text: the standard (CTL*) printed form of the tree, parsed by the checker's own parser
    ttrees = [f for f in d1] + (d2[len(d1):] if R.thorough else rng.sample(d2[len(d1):], 700)) + rng.sample(t3_2, 100) + rng.sample(d3, 2000 if R.thorough else 100)
    texts = [str(x) for x in model_batch_parallel([['print', 'CTLS', fsx(f)] for f in ttrees])]
    tcases = [(Mn, f, s) for f, s in zip(ttrees, texts) for Mn in CHECKERS]
    pouts = model_batch_parallel([['parse', Mn, Q(s)] for (Mn, f, s) in tcases])
    parsed = [fparse(o[1]) if o[0] == 'ok' else None for o in pouts]
    gidx = [i for i, g in enumerate(parsed) if g is not None]
    gouts = model_batch_parallel([guard_cmd(tcases[i][0], tcases[i][0], ks, parsed[i]) for i in gidx])
    mres = {i: model_mc(o) for i, o in zip(gidx, gouts)}
    for i, (Mn, f, s) in enumerate(tcases):
        if parsed[i] is None:
            m = ('err', str(pouts[i][1]))
        else:
            m = mres[i]
            machinery((m[0] == 'ok') == PYSTATE[Mn](parsed[i]), 'text guard %s %r -> %s' % (Mn, s, m))
        obs = impl_guard(Mn, K, s, text=True)
        ok = J.guard({'kind': 'guard_text', 'checker': Mn, 'text': s, 'tree': f}, obs, m)
        if ok and not is_pl(f):
            R.nontriv(('guard_text', Mn, s))
    for i in rng.sample(range(len(tcases)), min(len(tcases), 3000 if R.thorough else 400)):
        (Mn, f, s) = tcases[i]
        F = rng.choice(FAIRS)
        m = ('err', str(pouts[i][1])) if parsed[i] is None else mres[i]
        ok = J.guard({'kind': 'guard_text', 'checker': Mn, 'text': s, 'tree': f, 'F': F}, impl_guard(Mn, K, s, text=True, F=F), m, sets=False)
        if ok and not is_pl(f):
            R.nontriv(('guard_text', Mn, s, str(F)))
    mark('guard text')
    # a non-Kripke first argument (among them Kripke-LIKE objects), with and without a fairness argument
    nonk = non_kripkes()
    R.cov['non_kripke_first_arguments'] = [nm for nm, _ in nonk]
    for Mn in CHECKERS:
        for nm, X in nonk:
            for Ln in ('CTLS', Mn):
                for arg_kind in NONK_KINDS:
                    for F in (None, [[0]], [], [[0, 1]]):
                        arg = nonk_arg(Mn, Ln, arg_kind)
                        obs = impl_guard(Mn, X, arg, text=arg_kind.startswith('text'), F=F)
                        R.evaluations += 1
                        J.hist['nonkripke:' + Mn][obs[1] if obs[0] == 'err' else 'set'] += 1
                        if tuple(obs) != ('err', 'TypeError'):
                            J.bad('%s.modelcheck(<%s>, ...%s) did not raise TypeError' % (Mn, nm, '' if F is None else ', F=...'),
                                  {'kind': 'nonkripke', 'checker': Mn, 'first_argument': nm, 'lang': Ln, 'formula': arg_kind, 'F': F, 'impl': obs,
                                   'model': ('err', 'TypeError')})
                        else:
                            R.nontriv(('nonkripke', Mn, nm, Ln, arg_kind, str(F)))

    # ---- 5b. the Boolean constant is built from a Python bool and from nothing else: True == 1 == 1.0 and they hash alike, so a
    #          membership / equality test instead of a type test would let numbers in (an object that is not a documented formula)
    for Ln in LANGS:
        L = lang_module(Ln)
        for X in (1, 0, 1.0, 0.0, 1 + 0j, 2, -1, None, 'true', 'True', '', [], (True,), [True]):
            R.evaluations += 1
            r = call(lambda: L.Bool(X))
            if r != ('err', 'TypeError'):
                J.bad('%s.Bool(%r) did not raise TypeError' % (Ln, X), {'kind': 'bool_ctor', 'lang': Ln, 'value': repr(X),
                                                                        'impl': [r[0], str(r[1])[:80]], 'model': ['err', 'TypeError']})
        for X in (True, False):
            r = call(lambda: (type(L.Bool(X)._value), L.Bool(X)._value))
            if r != ('ok', (bool, X)):
                J.bad('%s.Bool(%r) does not hold the Python bool' % (Ln, X), {'kind': 'bool_ctor', 'lang': Ln, 'value': repr(X), 'impl': [r[0], str(r[1])[:80]]})

    # ---- 5c. the payload of an atom is a str and nothing else (documented ":type name: str"): bytes / bytearray / numbers / containers
    #          would give an object that is no documented formula (and silently ANOTHER atom: "b'p'"); an operator handed such a value
    #          as a raw operand must not return an object either (which exception it raises is outside the quantifier, see 6.)
    np_ = 0
    for Ln in LANGS:
        for vr in ATOM_PAYLOADS:
            for form in ATOM_FORMS:
                R.evaluations += 1
                np_ += 1
                r = atom_payload_obs(Ln, vr, form)
                good = (r == ('err', 'TypeError')) if form == 'AtomicProposition' else r[0] == 'err'
                if not good:
                    J.bad('%s.%s did not raise %s: a value that is not a str became (part of) a formula' % (Ln, atom_form_str(form, vr), 'TypeError' if form == 'AtomicProposition' else 'an exception'),
                          {'kind': 'atom_ctor', 'lang': Ln, 'value': vr, 'form': form, 'impl': list(r), 'model': ['err', 'TypeError']})
                else:
                    R.nontriv(('atom_ctor', Ln, vr, form))
        for nm in ('p', '', 'A(X(p))', 'true', ' q', 'p\u00e9'):
            R.evaluations += 1
            r = call(lambda: (lambda a: (type(a.name), a.name, tree_of(a)))(lang_module(Ln).AtomicProposition(nm)))
            if r != ('ok', (str, nm, ('ap', nm))):
                J.bad('%s.AtomicProposition(%r) does not hold the given str' % (Ln, nm), {'kind': 'atom_ctor', 'lang': Ln, 'value': repr(nm), 'form': 'name',
                                                                                          'impl': [r[0], str(r[1])[:80]], 'model': ['ok', repr(nm)]})
    R.cov['atom_payloads_not_str'] = {'values': list(ATOM_PAYLOADS), 'forms': list(ATOM_FORMS), 'cases': np_}

    # ---- 6. informational: operands that are not formulas at all (outside the property's quantifier) ---------
    info = collections.Counter()
    for Ln in LANGS:
        L = lang_module(Ln)
        for X in (1, None, 3.5, ['p'], ('p',), object()):
            for fn in (lambda: L.Not(X), lambda: L.Or('p', X), lambda: L.AtomicProposition(X) if not isinstance(X, str) else None, lambda: L.Bool(X)):
                r = call(fn)
                info['built' if r[0] == 'ok' and r[1] is not None else (r[1] if r[0] == 'err' else 'skipped')] += 1
    R.cov['informational_non_formula_operands(outside quantifier; AttributeError = err_msg reads phi.__desc__)'] = dict(info)

    mark('nonkripke+info')
    R.cov['section_wall_s'] = T
    R.cov['outcome_histograms'] = {k: dict(v) for k, v in sorted(J.hist.items())}
    R.cov['disagreements_total'] = J.total_bad
    R.cov['depth_histogram_of_constructions'] = dict(collections.Counter(fheight(f) for f in trees))
    R.exhaustive = False   # depth <= 2 with binary or/and is complete; ternary/depth 3/apply are sampled


def expr_temporal(e):
    if e[0] == 'raw':
        return False
    if e[0] == 'obj':
        return not is_pl(e[2])
    return (e[0] == 'ctor' and e[2] in TEMPORAL + ('A', 'E')) or any(expr_temporal(x) for x in ekids(e))


def cons_guard(Mn, Ln):
    return (Mn == 'LTL' and Ln == 'CTL') or (Mn == 'CTLS' and Ln == 'PL')


def run_programs(R, J, rng, MB, built, objs1, objs2, members, trees, K, ks):
    builtset = set(built)
    oall = [('obj', Li, g, 'obj') for (Li, g) in objs1] + [('obj', Li, g, 'raw') for (Li, g) in objs1 if fheight(g) == 1]
    o2 = [('obj', Li, g, m) for (Li, g) in objs2 for m in ('obj', 'raw')]
    oall += rng.sample(o2, min(len(o2), 6000 if R.thorough else 600))
    oby = {L: [o for o in oall if o[1] == L] for L in LANGS}
    progs, pseen = [], set()

    def addp(e):
        if e not in pseen:
            pseen.add(e)
            progs.append(e)
    # small scope, complete: x & y, x | y (hence also the reflected forms), ~x, x.clone() over a pool of objects of every kind
    # (atoms, constants, state / path / quantified formulas of every module, object- and raw-built) and the raw operands
    P_, Q_ = ('ap', 'p'), ('ap', 'q')
    shapes = [P_, ('false',), ('not', P_), ('or', P_, Q_), ('X', P_), ('U', P_, Q_), ('A', ('X', P_)), ('E', ('F', P_)), ('A', ('not', P_)), ('A', ('G', ('F', P_)))]
    pool = [('obj', L, g, m) for L in LANGS for g in shapes for m in (('obj', 'raw') if fheight(g) == 1 else ('obj',)) if (L, g) in builtset]
    for a in pool + list(RAWS):
        for b in pool + list(RAWS):
            if a[0] == 'raw' and b[0] == 'raw':
                continue
            addp(('and', a, b))
            addp(('or', a, b))
    for a in dict.fromkeys(pool + rng.sample(oall, min(len(oall), 4000 if R.thorough else 500))):
        addp(('inv', a))
        addp(('clone', a))
        addp(('inv', ('clone', a)))
        if a in pool:
            for M in LANGS:
                addp(('cast', M, ('clone', a)))
    nsmall = len(progs)
    # chains a & b | c ... (the audit's escape: the operator form of And(a, b, c) must reject what the constructor rejects)
    nch = 20000 if R.thorough else 2600
    for _ in range(nch):
        e = gen_chain(rng, oby, oall)
        if rng.random() < 0.2:
            e = ('cast', rng.choice(LANGS), e)
        addp(e)
    # trees written as programs
    nren = 25000 if R.thorough else 3200
    anyt = [f for f in trees if 1 <= fheight(f) <= 3]
    for _ in range(nren):
        L = rng.choice(LANGS)
        f = rng.choice(members[L]) if rng.random() < 0.55 else rng.choice(anyt)
        if f[0] in LEAFT:
            continue
        e = render(rng, f, L, builtset)
        if e[0] == 'obj':
            continue
        if rng.random() < 0.2:
            e = ('cast', rng.choice(LANGS), e)
        addp(e)
    val, step = model_eval(progs, MB)
    kinds = collections.Counter()
    for e in progs:
        obs, _ = impl_program(e)
        m = model_obs(val[e])
        ok = J.built('program', {'lang': step[e], 'expr': e, 'python': estr(e)}, obs, m)
        kinds[e[0] + (':ok' if m[0] == 'ok' else ':TypeError')] += 1
        if ok and expr_temporal(e):
            R.nontriv(('program', e))
            if obs[0] == 'err' and e[0] in ('and', 'or') and e[1][0] in ('and', 'or'):
                R.sample({'program': estr(e), 'outcome': obs[1]}, limit=10)
    # the value of a program handed to the modelcheck functions (with and without a fairness argument)
    okp = [e for e in progs if val[e][0] == 'ok']
    gp = rng.sample(okp, min(len(okp), 10000 if R.thorough else 1100))
    gcs = [(Mn, e, rng.choice((None,) + FAIRS)) for e in gp for Mn in CHECKERS]
    outs = model_batch_parallel([guard_cmd(Mn, val[e][1], ks, val[e][2]) for (Mn, e, F) in gcs])
    for (Mn, e, F), o in zip(gcs, outs):
        m = model_mc(o)
        Ln, f = val[e][1], val[e][2]
        machinery((m[0] == 'ok') == PYSTATE[Mn](f), 'program guard %s %s -> %s' % (Mn, fstr(f), m))
        try:
            obj = impl_expr(e)
        except Exception:
            continue              # already reported above
        obs = impl_guard(Mn, K, obj, F=F)
        ok = J.guard({'kind': 'program_guard', 'checker': Mn, 'lang': Ln, 'expr': e, 'python': estr(e), 'F': F}, obs, m,
                     conservative_ok=cons_guard(Mn, Ln), sets=F is None)
        if ok and not is_pl(f):
            R.nontriv(('program_guard', Mn, e, str(F)))
    R.cov['operator_programs'] = {'small scope (complete)': nsmall, 'total distinct': len(progs), 'by root step and model outcome': dict(kinds),
                         'handed to modelcheck': len(gcs)}


P0, Q0 = ('ap', 'p'), ('ap', 'q')
NAME_FIXED = (('true', ('true',)), ('false', ('false',)), ('True', ('true',)), ('not p', ('not', P0)), ('(p or q)', ('or', P0, Q0)), ('p and q', ('and', P0, Q0)),
              ('A(X(p))', ('A', ('X', P0))), ('A X p', ('A', ('X', P0))), ('E', None), ('A', None), ('U', None), ('p U q', ('U', P0, Q0)), ('~p', ('not', P0)),
              ('p --> q', ('imp', P0, Q0)), ('(p)', P0), (' p', P0), ('', None))


# enclosing contexts for the names sessions: the atom named like f and f itself sit at the same place of the same LTL / CTL* formula, so the
# two arguments print alike (a cache, memo or table keyed by the formula / its text cannot tell them apart) but only one is in the logic
NAME_CTX = (lambda w: ('A', ('X', w)), lambda w: ('A', ('or', w, Q0)), lambda w: ('A', ('U', Q0, w)), lambda w: ('E', ('F', w)),
            lambda w: ('A', ('G', ('not', w))), lambda w: ('A', ('or', P0, Q0, w)), lambda w: ('A', w), lambda w: ('not', ('E', ('X', w))),
            lambda w: ('A', ('and', ('F', w), Q0)), lambda w: ('E', ('U', w, ('X', P0))))


def name_session(rng, Ln, f, name, name2=None):
    """ONE session: steps on the formula f (may be None), then on atoms named `name` (= the printed form of f; name2 = the printed form of
    its rewriting to the restricted syntax), then on f again; the order within each part is random.  Guards run on the bare argument and
    on the argument inside two enclosing contexts (built in the CTL* module).  Every step is compared with the model; a recorded case
    carries the steps before it."""
    at = ('ap', name)
    ats = [at] + ([('ap', name2)] if name2 is not None and name2 != name else [])
    xs = [at, ('not', at), ('or', at, ('ap', 'q'))]
    ctx = [NAME_CTX[i] for i in rng.sample(range(len(NAME_CTX)), 2)]
    fsteps = [] if f is None else [['cast', Ln, f, Mn] for Mn in LANGS] + [['guard', Mn, Ln, f] for Mn in CHECKERS]
    fsteps += [] if f is None else [['apply', Mn, op, Ln, f] for Mn in LANGS if Mn != Ln for op in ('not', 'A')]
    fsteps += [] if f is None else [['guard', Mn, 'CTLS', C(f)] for C in ctx for Mn in CHECKERS]
    asteps = [['cast', Ln, x, Mn] for x in xs for Mn in LANGS] + [['guard', Mn, Ln, at] for Mn in CHECKERS]
    asteps += [['apply', Mn, op, Ln, at] for Mn in LANGS if Mn != Ln for op in ('not', 'A')]
    asteps += [['guard', Mn, 'CTLS', C(a)] for a in ats for C in ctx for Mn in CHECKERS]
    f2 = list(fsteps)
    rng.shuffle(fsteps)
    rng.shuffle(asteps)
    rng.shuffle(f2)
    return fsteps + asteps + f2


def step_cmd(st, ks):
    if st[0] == 'cast':
        return ['cast', st[3], [st[1], fsx(st[2])]]
    if st[0] == 'apply':           # a foreign operand: the operator of module st[1] casts it
        return apply_cmd(st[1], st[2], [('obj', st[3], st[4])])
    return guard_cmd(st[1], st[2], ks, st[3])


def step_impl(st, K):
    if st[0] == 'cast':
        return impl_cast(st[1], st[2], st[3])
    if st[0] == 'apply':
        obs, _, _, untouched = impl_apply(st[1], st[2], [('obj', st[3], st[4])])
        return obs, untouched
    return impl_guard(st[1], K, build(st[3], lang_module(st[2]))), True


def run_names(R, J, rng, built, K, ks):
    cand = [b for b in built if 1 <= fheight(b[1]) <= 2]
    sessions = []
    nses = 800 if R.thorough else 110
    # half of the sessions about formulas with a quantifier inside (the ones an enclosing LTL / CTL context must reject)
    candq = [b for b in cand if any(g[0] in ('A', 'E') for g in subformulas(b[1]))]
    picks = rng.sample(candq, min(len(candq), nses // 2)) + rng.sample(cand, min(len(cand), nses - nses // 2))
    nrestricted = 0
    for (Ln, f) in dict.fromkeys(picks):
        r = call(lambda: str(build(f, lang_module(Ln))))
        if r[0] == 'ok' and isinstance(r[1], str) and all(ord(c) < 256 for c in r[1]):
            r2 = call(lambda: str(build(f, lang_module('CTLS')).get_equivalent_restricted_formula()))
            n2 = r2[1] if r2[0] == 'ok' and isinstance(r2[1], str) and all(ord(c) < 256 for c in r2[1]) and r2[1] != r[1] else None
            nrestricted += n2 is not None
            sessions.append(name_session(rng, Ln, f, r[1], n2))
    bs = set(built)
    for name, f in NAME_FIXED:
        for Ln in (LANGS if R.thorough else rng.sample(LANGS, 2)):
            sessions.append(name_session(rng, Ln, f if (Ln, f) in bs else None, name))
    outs = iter(model_batch_parallel([step_cmd(st, ks) for ses in sessions for st in ses]))
    n = 0
    for si, ses in enumerate(sessions):
        for i, st in enumerate(ses):
            o = next(outs)
            n += 1
            if st[0] == 'cast':
                obs, same = step_impl(st, K)
                ok = J.built('cast', {'lang': st[1], 'target': st[3], 'tree': st[2], 'tree_str': fstr(st[2]), 'mode': 'obj', 'prelude': ses[:i]},
                             obs, model_built(o), untouched=same)
                if ok:
                    R.nontriv(('names-cast',) + tuple(map(str, st)))
            elif st[0] == 'apply':
                obs, same = step_impl(st, K)
                J.built('apply', {'lang': st[1], 'op': st[2], 'operands': [['obj', st[3], st[4]]], 'prelude': ses[:i],
                                  'python': '%s.%s(<%s object %s>)' % (st[1], PYNAME[st[2]], st[3], fstr(st[4]))}, obs, model_built(o), untouched=same)
            else:
                obs, _ = step_impl(st, K)
                ok = J.guard({'kind': 'guard', 'checker': st[1], 'lang': st[2], 'tree': st[3], 'tree_str': fstr(st[3]), 'prelude': ses[:i]}, obs, model_mc(o),
                             conservative_ok=cons_guard(st[1], st[2]))
                if ok and fheight(st[3]) >= 1:
                    R.nontriv(('names-guard', si, i))
    R.cov['atoms_named_like_formulas'] = {'sessions': len(sessions), 'steps': n, 'sessions with a second atom named like the restricted-syntax form': nrestricted,
                                          'enclosing contexts (2 per session)': len(NAME_CTX)}


def run_apply(R, J, acases, corpus=False):
    outs = model_batch_parallel([apply_cmd(Ln, op, ods) for (Ln, op, ods) in acases])
    for (Ln, op, ods), o in zip(acases, outs):
        m = model_built(o)
        kids = [operand_tree(od) for od in ods]
        f = (op,) + tuple(kids)
        machinery((m[0] == 'ok') == pymember(Ln, f), 'apply %s %s -> %s' % (Ln, fstr(f), m[0]))
        obs, o2, miss, untouched = impl_apply(Ln, op, ods)
        data = {'lang': Ln, 'op': op, 'operands': [list(od) for od in ods],
                'python': '%s.%s(%s)' % (Ln, PYNAME[op], ', '.join(repr(od[1]) if od[0] == 'raw' else '<%s object %s%s>' % (od[1], fstr(od[2]), ' built from raw operands' if od[0] == 'rawobj' else '') for od in ods))}
        ok = J.built('apply', data, obs, m, untouched=untouched)
        if corpus:
            R.count('corpus_cases')
        foreign = any(od[0] != 'raw' and od[1] != Ln for od in ods)
        if ok and (foreign or any(od[0] == 'raw' for od in ods)) and not is_pl(f):
            R.nontriv(('apply', Ln, op, tuple(map(tuple, ods))))
            if foreign and obs[0] == 'ok' and Ln == 'CTL':
                R.sample({'apply': data['python'], 'outcome': 'tree %s, all nodes %s' % (fstr(obs[1]), obs[2])}, limit=6)


# ----------------------------------------------------------------------------------------
# replay
# ----------------------------------------------------------------------------------------
def replay(R, data):
    d = data['data']
    kind = d['kind']
    K = kd_py(KD)
    ks = kripke_sx(K)
    F = d.get('F')
    mode = d.get('mode', 'obj')
    sets = F is None
    for st in d.get('prelude', []):      # the earlier steps of the session (atoms named like formulas)
        st = [detuple(x) for x in st]
        print('first:', st[0], [('atom ' if x[0] == 'ap' else '') + repr(fstr(x)) if isinstance(x, tuple) else x for x in st[1:]], '->', step_impl(st, K)[0])
    if kind == 'construct':
        f = detuple(d['tree'])
        if mode == 'raw':
            obs, _, _ = guarded(lambda: build_raw(f, lang_module(d['lang'])))
        else:
            obs, _, _ = impl_construct(d['lang'], f)
        m = model_build_all([(d['lang'], f)], {})[(d['lang'], f)]
    elif kind == 'apply':
        ods = [tuple(detuple(x)) for x in d['operands']]
        obs, _, _, untouched = impl_apply(d['lang'], d['op'], ods)
        m = model_built(model_batch([apply_cmd(d['lang'], d['op'], ods)])[0])
        print('call :', d.get('python'), '' if untouched else '(operands MODIFIED)')
    elif kind == 'cast':
        f = detuple(d['tree'])
        obs, same = impl_cast(d['lang'], f, d['target'], mode=mode)
        m = model_built(model_batch([['cast', d['target'], [d['lang'], fsx(f)]]])[0])
        if not same:
            print('the cast object was MODIFIED')
    elif kind == 'program':
        e = detuple(d['expr'])
        print('call :', estr(e))
        obs, _ = impl_program(e)
        m = model_obs(model_eval([e], {})[0][e])
    elif kind == 'program_guard':
        e = detuple(d['expr'])
        print('call : %s.modelcheck(K, %s%s)' % (d['checker'], estr(e), '' if F is None else ', F=%s' % fair_arg(F)))
        v = model_eval([e], {})[0][e]
        obs = impl_guard(d['checker'], K, impl_expr(e), F=F)
        m = model_mc(model_batch([guard_cmd(d['checker'], v[1], ks, v[2])])[0])
    elif kind == 'bool_ctor':
        X = eval(d['value'], {})
        obs = call(lambda: lang_module(d['lang']).Bool(X))
        obs = (obs[0], str(obs[1]))
        m = ('err', 'TypeError') if not isinstance(X, bool) else ('ok', str(X).lower())
    elif kind == 'atom_ctor':
        if d['form'] == 'name':
            nm = eval(d['value'], {})
            r = call(lambda: lang_module(d['lang']).AtomicProposition(nm).name)
            obs, m = (r[0], repr(r[1]) if r[0] == 'ok' else r[1]), ('ok', repr(nm))
        else:
            print('call : %s.%s' % (d['lang'], atom_form_str(d['form'], d['value'])))
            obs = atom_payload_obs(d['lang'], d['value'], d['form'])
            m = ('err', 'TypeError')
            if d['form'] != 'AtomicProposition' and obs[0] == 'err':
                m = obs             # an operator: any exception (the class is outside the property's quantifier)
    elif kind == 'guard':
        if d.get('structure'):
            from pyModelChecking.kripke import Kripke as _Kripke
            K = _Kripke() if 'empty' in d['structure'] else _Kripke(R=[(0, 0)], L={0: ['p']})
            ks = kripke_sx(K)
        f = detuple(d['tree'])
        obs = impl_guard(d['checker'], K, build_mode(f, lang_module(d['lang']), mode), F=F)
        m = model_mc(model_batch([guard_cmd(d['checker'], d['lang'], ks, f)])[0])
    elif kind == 'guard_text':
        obs = impl_guard(d['checker'], K, d['text'], text=True, F=F)
        p = model_batch([['parse', d['checker'], Q(d['text'])]])[0]
        m = ('err', str(p[1])) if p[0] != 'ok' else model_mc(model_batch([guard_cmd(d['checker'], d['checker'], ks, fparse(p[1]))])[0])
    elif kind == 'nonkripke':
        X = dict(non_kripkes()).get(d['first_argument'])
        obs = impl_guard(d['checker'], X, nonk_arg(d['checker'], d['lang'], d['formula']), text=str(d['formula']).startswith('text'), F=F)
        m = ('err', 'TypeError')
        sets = True
    else:
        print('unknown kind of case: re-run the check')
        obs = m = None
    if obs is not None and not sets:        # a fairness argument was given: accepted / rejected is what is compared
        obs = ('ok', '<a set>') if obs[0] == 'ok' else obs
        m = ('ok', '<a set>') if m[0] == 'ok' else m
    print('case :', {k: v for k, v in d.items() if k not in ('impl', 'model', 'prelude')})
    print('impl :', obs)
    print('model:', m)
    if obs is not None and tuple(obs) != tuple(m):
        R.violation('replayed: implementation differs from the proved model', d)
