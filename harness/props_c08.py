"""C08 - formula objects always belong to their logic; out-of-logic input is rejected.

Theorems (Properties/C08.v): C08_construct(_total), C08_built_objects_are_members, C08_members_can_be_built,
C08_cast(_total), C08_guard_ctl, C08_guard_ltl, C08_inclusions.

Correspondence: every operator tree over the union alphabet x every language module is pushed through
  construct  - built bottom-up with the module's own classes            vs  (mk L op (L g)...) folded bottom-up
  apply      - one operator of module L on operands built in OTHER modules (the library casts them) or given
               as raw python str / bool                                 vs  (mk L op (Li gi)...)
  cast       - obj.cast_to(M) for every object that could be built      vs  (cast M (L f))
  guard      - CTL/LTL/CTLS.modelcheck(K, obj) and (K, text)            vs  (ctl K f) / (ltl K f) / (ctls L K f), (parse M text)
  nonkripke  - modelcheck(<not a Kripke>, formula) must raise TypeError (monitored, no model needed)
Observation = ('ok', tree_of(result), languages of ALL nodes) or ('err', exception enum).  The model's reading of the
documented grammars (member bits, mk/cast/guard verdicts) is double-checked against the independent recognisers of
common.py; a disagreement THERE is a machinery error (exception -> CHECK-ERROR), never a violation."""
from common import *
import collections

LEVEL = 'proof'
LANGS = ('PL', 'CTLS', 'CTL', 'LTL')
CHECKERS = ('CTL', 'LTL', 'CTLS')
LEAVES = (('ap', 'p'), ('true',))
LEAFT = ('true', 'false', 'ap')
OPS1 = UNARY            # not X F G A E
OPS2 = BINARY           # imp U R
OPSN = NARY             # or and  (2 and 3 operands)
KD = {'S': [0, 1, 2], 'S0': [0], 'R': [(0, 1), (1, 2), (2, 2), (1, 0)], 'L': {0: ['p'], 1: [], 2: ['p', 'q']}}
MAXV = 40               # replay files written per run (the total number of disagreements is in the evidence)

# D13 (fixed in /repo by "fix: raw str/bool operands bypassed the operand class check"): regression corpus, runs first
CORPUS = [
    {'kind': 'apply', 'lang': 'CTL', 'op': 'A', 'operands': [('raw', 'p')]},
    {'kind': 'apply', 'lang': 'CTL', 'op': 'A', 'operands': [('raw', True)]},
    {'kind': 'apply', 'lang': 'CTL', 'op': 'E', 'operands': [('raw', 'p')]},
    {'kind': 'apply', 'lang': 'CTL', 'op': 'E', 'operands': [('raw', False)]},
    # D12 (fix F8): PL operators accepted temporal operands of other modules
    {'kind': 'apply', 'lang': 'PL', 'op': 'not', 'operands': [('obj', 'CTLS', ('A', ('ap', 'p')))]},
    {'kind': 'apply', 'lang': 'PL', 'op': 'or', 'operands': [('raw', 'p'), ('obj', 'LTL', ('X', ('ap', 'p')))]},
]


class MissingClass(Exception):
    """the language module has no class for the operator (LTL.E, PL.X): 'cannot be built'"""


def detuple(x):
    if isinstance(x, list):
        return tuple(detuple(y) for y in x)
    return x


def pymember(L, f):
    """documented grammar of the module's logic, by the independent recognisers of common.py"""
    if L == 'PL':
        return is_pl(f)
    if L == 'CTLS':
        return True
    if L == 'CTL':
        return is_ctl_state(f) or is_ctl_path(f)
    return is_ltl_path(f) or is_ltl_state(f)


PYSTATE = {'CTL': is_ctl_state, 'LTL': is_ltl_state, 'CTLS': is_ctls_state}


def machinery(cond, msg):
    if not cond:
        raise RuntimeError('C08 machinery: model and independent recogniser disagree: ' + msg)


# ----------------------------------------------------------------------------------------
# implementation side
# ----------------------------------------------------------------------------------------
def build(f, L):
    """bottom-up with the classes of module L only"""
    t = f[0]
    if t == 'true':
        return L.Bool(True)
    if t == 'false':
        return L.Bool(False)
    if t == 'ap':
        return L.AtomicProposition(f[1])
    kids = [build(g, L) for g in f[1:]]
    cls = getattr(L, PYNAME[t], None)
    if cls is None:
        raise MissingClass(PYNAME[t])
    return cls(*kids)


def read_obj(o):
    try:
        return ('ok', tree_of(o), sorted(langs_in(o)))
    except Exception as e:  # an object whose shape cannot even be read back
        return ('ok', 'unreadable:' + type(e).__name__, [lang_of_obj(o)])


def guarded(fn):
    """-> (observation, object or None, missing_class flag)"""
    buf = io.StringIO()
    try:
        with contextlib.redirect_stdout(buf):
            o = fn()
    except MissingClass:
        return ('err', 'TypeError'), None, True
    except RecursionError:
        return ('err', 'other:RecursionError'), None, False
    except Exception as e:  # noqa
        return ('err', exc_name(e)), None, False
    return read_obj(o), o, False


def impl_construct(Ln, f):
    L = lang_module(Ln)
    return guarded(lambda: build(f, L))


def impl_apply(Ln, op, operands):
    """operands: ('raw', 'p') | ('raw', True) | ('obj', Li, tree).  The operand objects are built first (they are
    chosen buildable); only the application of L's operator is observed."""
    L = lang_module(Ln)
    args, before = [], []
    for od in operands:
        if od[0] == 'raw':
            args.append(od[1])
            before.append(None)
        else:
            a = build(od[2], lang_module(od[1]))
            args.append(a)
            before.append(read_obj(a))

    def go():
        cls = getattr(L, PYNAME[op], None)
        if cls is None:
            raise MissingClass(PYNAME[op])
        return cls(*args)
    obs, o, missing = guarded(go)
    untouched = all(b is None or read_obj(a) == b for a, b in zip(args, before))
    return obs, o, missing, untouched


def impl_cast(Ln, f, Mn, o=None):
    if o is None:
        o = build(f, lang_module(Ln))
    before = ('ok', f, [Ln])
    M = lang_module(Mn)
    obs, o2, _ = guarded(lambda: o.cast_to(M))
    return obs, read_obj(o) == before


_PARSERS = {}


def parser_of(Mn):
    if Mn not in _PARSERS:
        _PARSERS[Mn] = lang_module(Mn).Parser()
    return _PARSERS[Mn]


def canon_mc(r):
    if r[0] == 'ok':
        v = r[1]
        if isinstance(v, (set, frozenset)):
            return ('ok', sorted(v))
        return ('err', 'other:not-a-set:' + type(v).__name__)
    return ('err', r[1])


def impl_guard(Mn, K, arg, text=False):
    M = lang_module(Mn)
    if text:
        P = parser_of(Mn)
        return canon_mc(call(lambda: M.modelcheck(K, arg, parser=P)))
    return canon_mc(call(lambda: M.modelcheck(K, arg)))


# ----------------------------------------------------------------------------------------
# model side
# ----------------------------------------------------------------------------------------
def op_sx(t, f=None):
    if t == 'true':
        return ['t']
    if t == 'false':
        return ['f']
    if t == 'ap':
        return ['a', Q(f[1])]
    return t


def model_built(o):
    """(ok (L form)) / (err E) -> observation comparable with read_obj"""
    if o[0] == 'ok':
        return ('ok', fparse(o[1][1]), [str(o[1][0])])
    return ('err', str(o[1]))


def model_build_all(keys, MB):
    """model of 'construct': fold (mk L op (L g)...) bottom-up; MB memo (L, tree) -> observation"""
    need = {}
    stack = list(keys)
    while stack:
        k = stack.pop()
        if k in MB or k in need:
            continue
        need[k] = fheight(k[1])
        if k[1][0] not in LEAFT:
            stack.extend((k[0], g) for g in k[1][1:])
    levels = collections.defaultdict(list)
    for k, h in need.items():
        levels[h].append(k)
    for h in sorted(levels):
        cmds, ks = [], []
        for (L, f) in levels[h]:
            t = f[0]
            kids = () if t in LEAFT else f[1:]
            bad = next((MB[(L, g)] for g in kids if MB[(L, g)][0] == 'err'), None)
            if bad is not None:
                MB[(L, f)] = bad       # the exception of the first operand that cannot be built propagates
                machinery(not pymember(L, f), 'operand not buildable but %s member of %s' % (fstr(f), L))
                continue
            cmds.append(['mk', L, op_sx(t, f)] + [[L, fsx(g)] for g in kids])
            ks.append((L, f))
        for k, o in zip(ks, model_batch_parallel(cmds)):
            m = model_built(o)
            machinery((m[0] == 'ok') == pymember(*k), 'mk %s %s -> %s' % (k[0], fstr(k[1]), m[0]))
            MB[k] = m
    return MB


def operand_obj(Ln, od):
    if od[0] == 'raw':
        return [Ln, fsx(('ap', od[1]) if isinstance(od[1], str) else (('true',) if od[1] else ('false',)))]
    return [od[1], fsx(od[2])]


def operand_tree(od):
    if od[0] == 'raw':
        return ('ap', od[1]) if isinstance(od[1], str) else (('true',) if od[1] else ('false',))
    return od[2]


def apply_cmd(Ln, op, operands):
    return ['mk', Ln, op] + [operand_obj(Ln, od) for od in operands]


def guard_cmd(Mn, Ln, ks, f):
    if Mn == 'CTL':
        return ['ctl', ks, fsx(f)]
    if Mn == 'LTL':
        return ['ltl', ks, fsx(f)]
    return ['ctls', Ln if Ln != 'PL' else 'CTLS', ks, fsx(f)]


def model_mc(o):
    if o[0] == 'ok':
        return ('ok', sorted(ints(o[1])))
    return ('err', str(o[1]))


def check_recognisers(trees):
    """model's member bits vs the independent recognisers (machinery check)"""
    outs = model_batch_parallel([['member', fsx(f)] for f in trees])
    for f, o in zip(trees, outs):
        bits = [x == '1' for x in o]
        mine = [is_pl(f), is_ctls_state(f), is_ctl_state(f), is_ctl_path(f), is_ltl_path(f), is_ltl_state(f), True]
        machinery(bits == mine, 'member %s: model %s recognisers %s' % (fstr(f), bits, mine))
    return len(trees)


# ----------------------------------------------------------------------------------------
# judging
# ----------------------------------------------------------------------------------------
class Judge:
    def __init__(self, R):
        self.R = R
        self.total_bad = 0
        self.hist = collections.defaultdict(collections.Counter)

    def bad(self, what, data, no_input=False):
        self.total_bad += 1
        if len(self.R.violations) < MAXV:
            self.R.violation(what, data, no_input=no_input)

    def built(self, kind, data, impl, model, untouched=True):
        """construct / apply / cast: observation must equal the model's"""
        R = self.R
        R.evaluations += 1
        self.hist[kind + ':' + data['lang'] + ('' if kind != 'cast' else '->' + data['target'])][impl[1] if impl[0] == 'err' else 'ok'] += 1
        d = dict(data, kind=kind, impl=impl, model=model)
        if not untouched:
            self.bad('%s modified its operand / the cast object' % kind, d)
            return False
        if tuple(impl) == tuple(model):
            return True
        if impl[0] == 'ok' and model[0] == 'err':
            what = '%s: an object that is NOT a formula of %s was returned instead of TypeError' % (kind, data.get('target', data['lang']))
        elif impl[0] == 'err' and impl[1] != 'TypeError':
            what = '%s raised %s (only TypeError is permitted)' % (kind, impl[1])
        elif impl[0] == 'err':
            what = '%s rejected a formula of %s that the documented grammar contains' % (kind, data.get('target', data['lang']))
        else:
            what = '%s: result has the wrong structure or nodes of another language module' % kind
        self.bad(what, d)
        return False

    def guard(self, data, impl, model, conservative_ok=False):
        R = self.R
        R.evaluations += 1
        key = 'guard:%s(%s)' % (data['checker'], data.get('lang', 'text'))
        self.hist[key]['set' if impl[0] == 'ok' else impl[1]] += 1
        d = dict(data, impl=impl, model=model)
        if tuple(impl) == tuple(model):
            return True
        if impl[0] == 'ok' and model[0] == 'err':
            self.bad('%s.modelcheck returned a set for an argument outside its logic / not a state formula' % data['checker'], d)
        elif impl[0] == 'err' and impl[1] not in ('TypeError',) and not (model[0] == 'err' and model[1] == impl[1]):
            self.bad('%s.modelcheck raised %s (TypeError required)' % (data['checker'], impl[1]), d)
        elif impl[0] == 'err' and model[0] == 'ok':
            if conservative_ok:
                R.count('conservative_rejections(LTL.modelcheck of CTL-module objects, CTLS.modelcheck of PL-module objects)')
                return True
            # the property only forbids returning a set; losing a state formula of the logic is a correspondence break
            self.bad('%s.modelcheck rejected a state formula of its logic' % data['checker'], d, no_input=True)
        elif impl[0] == 'ok' and model[0] == 'ok':
            self.bad('%s.modelcheck: guard agrees but the returned set differs from the model (exactness is C01-C03)' % data['checker'], d, no_input=True)
        else:
            self.bad('%s.modelcheck: %s instead of %s' % (data['checker'], impl, model), d)
        return False


# ----------------------------------------------------------------------------------------
# case generation
# ----------------------------------------------------------------------------------------
def nary3(pool):
    return [(t, a, b, c) for t in OPSN for a in pool for b in pool for c in pool]


def gen_depth3(rng, n, d2, members):
    """trees of depth exactly 3 (root over the depth<=2 enumeration, one operand of depth 2); 60% of them draw the
    operands from the members of one target logic so that enough of them are formulas of CTL / LTL / PL"""
    deep = {L: [f for f in members[L] if fheight(f) == 2] for L in LANGS}
    out, seen = [], set()
    allops = list(OPS1) + list(OPS2) + list(OPSN) + ['or3', 'and3']
    while len(out) < n:
        op = rng.choice(allops)
        k = 1 if op in OPS1 else (3 if op.endswith('3') else 2)
        L = rng.choice(LANGS) if rng.random() < 0.6 else 'CTLS'
        kids = [rng.choice(members[L]) for _ in range(k)]
        kids[rng.randrange(k)] = rng.choice(deep[L])
        f = (op[:-1] if op.endswith('3') else op,) + tuple(kids)
        if f not in seen:
            seen.add(f)
            out.append(f)
    return out


def run(R):
    rng = R.rng
    # introspective tie: the model's class-lattice tables vs tables regenerated from the live classes
    import lattice
    diffs = lattice.lattice_check(R)
    if diffs:
        R.violation('the class lattice of the language modules differs from the tables of the model (coq/Model/Syntax.v): %s' % '; '.join(diffs[:4]),
                    {'correspondence': 'lattice tables (in_alphabet / isinst / required)', 'differences': diffs}, no_input=True)
    J = Judge(R)
    MB = {}
    T = {}
    t_last = [time.time()]

    def mark(name):
        T[name] = round(time.time() - t_last[0], 1)
        t_last[0] = time.time()
    K = kd_py(KD)
    ks = kripke_sx(K)
    ksnap = kripke_snapshot(K)
    R.rule = ('operator trees over {p, true} x {not X F G A E, --> U R, or/and with 2 and 3 operands}: ALL trees of depth <= 2 with binary or/and (5986), '
              'ternary or/and over depth <= 1 operands (all 16 at depth 1; 2500 / 30000 of the 78592 at depth 2), depth 3 sampled with a bias towards '
              'members of one logic; x 4 language modules x {construct bottom-up, cast_to each module, each modelcheck on a fixed 3-state structure as '
              'object and as text}; apply = one operator on operands built in other modules / raw str / raw bool (unary exhaustive over depth <= 1 '
              'operands, the rest sampled in quick); compared: success + tree + language module of every node, or exception enum; '
              'non-trivial = the tree is not propositional (so the four logics disagree about it)')

    # ---- 0. corpus of past defects (D12, D13) ----------------------------------------------
    run_apply(R, J, [(c['lang'], c['op'], c['operands']) for c in CORPUS], corpus=True)

    mark('corpus')
    # ---- 1. trees ------------------------------------------------------------------------
    d1 = all_trees(1, LEAVES, OPS1, OPS2, OPSN)
    d2 = all_trees(2, LEAVES, OPS1, OPS2, OPSN)
    t3_1 = nary3(list(LEAVES))
    pool1 = d1 + t3_1                                  # every tree of depth <= 1 (50)
    t3_2 = [f for f in nary3(d1) if fheight(f) == 2]
    t3_2 = rng.sample(t3_2, 30000 if R.thorough else 2500)
    members = {L: [f for f in d2 if pymember(L, f)] for L in LANGS}
    d3 = gen_depth3(rng, 40000 if R.thorough else 2500, d2, members)
    trees = d2 + t3_1 + t3_2 + d3
    assert len(set(trees)) == len(trees)
    R.cov['trees'] = {'depth<=2 binary (exhaustive)': len(d2), 'ternary depth 1': len(t3_1), 'ternary depth 2': len(t3_2), 'depth 3 sampled': len(d3)}
    R.cov['recogniser_cross_checks'] = check_recognisers(trees)

    mark('trees+recognisers')
    # ---- 2. construct --------------------------------------------------------------------
    keys = [(L, f) for f in trees for L in LANGS]
    model_build_all(keys, MB)
    built = []           # (L, f) that the implementation built and that agree with the model
    missing = 0
    for (Ln, f) in keys:
        obs, o, miss = impl_construct(Ln, f)
        missing += miss
        ok = J.built('construct', {'lang': Ln, 'tree': f, 'tree_str': fstr(f)}, obs, MB[(Ln, f)])
        if ok and obs[0] == 'ok':
            built.append((Ln, f))
        if ok and not is_pl(f):
            R.nontriv(('construct', Ln, f))
            if obs[0] == 'err' and fheight(f) == 2:
                R.sample({'construct': '%s: %s' % (Ln, fstr(f)), 'outcome': obs[1]}, limit=2)
    R.cov['missing_class_counted_as_TypeError'] = missing

    mark('construct')
    # ---- 3. cast_to ----------------------------------------------------------------------
    cast_src = built if R.thorough else [b for b in built if fheight(b[1]) <= 2] + rng.sample([b for b in built if fheight(b[1]) > 2], min(600, sum(1 for b in built if fheight(b[1]) > 2)))
    cases = [(Ln, f, Mn) for (Ln, f) in cast_src for Mn in LANGS]
    outs = model_batch_parallel([['cast', Mn, [Ln, fsx(f)]] for (Ln, f, Mn) in cases])
    src_obj, src_key = None, None
    for (Ln, f, Mn), o in zip(cases, outs):
        m = model_built(o)
        machinery((m[0] == 'ok') == pymember(Mn, f), 'cast %s %s -> %s' % (Mn, fstr(f), m[0]))
        if src_key != (Ln, f):       # one source object, cast to the four modules in turn
            src_obj, src_key = build(f, lang_module(Ln)), (Ln, f)
        obs, same = impl_cast(Ln, f, Mn, src_obj)
        ok = J.built('cast', {'lang': Ln, 'target': Mn, 'tree': f, 'tree_str': fstr(f)}, obs, m, untouched=same)
        if ok and not is_pl(f) and Ln != Mn:
            R.nontriv(('cast', Ln, Mn, f))
            if obs[0] == 'ok' and fheight(f) == 2 and Mn in ('CTL', 'LTL'):
                R.sample({'cast': '%s object %s -> %s' % (Ln, fstr(f), Mn), 'outcome': 'same tree, all nodes ' + Mn}, limit=4)

    mark('cast')
    # ---- 4. apply: foreign-module and raw operands -----------------------------------------
    objs1 = [(Ln, f) for (Ln, f) in built if fheight(f) <= 1]
    objs2 = [(Ln, f) for (Ln, f) in built if fheight(f) == 2]
    raws = [('raw', 'p'), ('raw', 'q'), ('raw', True), ('raw', False)]
    acases = []
    for Ln in LANGS:
        for op in OPS1:
            acases += [(Ln, op, [r]) for r in raws]
            acases += [(Ln, op, [('obj', Li, g)]) for (Li, g) in objs1]
        for op in OPS2 + OPSN:
            acases += [(Ln, op, [a, b]) for a in raws for b in raws]
        for op in OPSN:
            acases += [(Ln, op, [a, b, c]) for a in raws[::2] for b in raws[1::2] for c in raws[:3]]
    opnd1 = [('obj', Li, g) for (Li, g) in objs1]
    opnd2 = [('obj', Li, g) for (Li, g) in objs2]
    if R.thorough:
        for Ln in LANGS:
            for op in OPS2 + OPSN:
                acases += [(Ln, op, [a, b]) for a in opnd1 for b in opnd1]
    nrand = 60000 if R.thorough else 7000
    for _ in range(nrand):
        Ln = rng.choice(LANGS)
        op = rng.choice(OPS1 + OPS2 + OPSN + OPS2 + OPSN)
        k = 1 if op in OPS1 else (2 if op in OPS2 or rng.random() < 0.7 else 3)
        ods = []
        for _i in range(k):
            x = rng.random()
            ods.append(rng.choice(raws) if x < 0.15 else (rng.choice(opnd1) if x < 0.6 else rng.choice(opnd2)))
        acases.append((Ln, op, ods))
    run_apply(R, J, acases)

    mark('apply')
    # ---- 5. modelcheck guards --------------------------------------------------------------
    gobjs = [b for b in built if fheight(b[1]) <= 1]
    rest = [b for b in built if fheight(b[1]) == 2]
    gobjs += rest if R.thorough else rng.sample(rest, 2000)
    deep = [b for b in built if fheight(b[1]) == 3]
    gobjs += rng.sample(deep, min(len(deep), 4000 if R.thorough else 150))
    # formulas whose offending part is REDUNDANT (x or not x, x and not x, x --> x, repeated operands): a guard that runs after some
    # simplification / rewriting of the formula would no longer see the quantifier or operator that puts the formula outside the logic
    P_, Q_ = ('ap', 'p'), ('ap', 'q')
    offenders = [('E', P_), ('A', ('X', P_)), ('E', ('U', P_, Q_)), ('A', ('F', ('G', P_))), ('E', ('G', ('F', Q_))), ('A', ('not', ('X', Q_))),
                 ('X', P_), ('U', P_, Q_), ('F', ('G', P_))]
    red = []
    for x in offenders:
        nx = ('not', x)
        for w in (('or', x, nx), ('or', nx, x), ('or', nx, x, P_), ('and', x, nx), ('imp', x, x), ('or', x, x), ('and', nx, nx, x),
                  ('or', ('and', x, Q_), nx), ('not', ('and', x, nx))):
            red += [w, ('A', w), ('E', w), ('A', ('X', w)), ('A', ('U', w, P_)), ('A', ('G', ('or', w, Q_))), ('or', ('A', w), Q_)]
    red = [f for f in dict.fromkeys(red) if pymember('CTLS', f)]
    if not R.thorough:
        red = rng.sample(red, min(len(red), 220))
    gobjs += [('CTLS', f) for f in red]
    R.cov['guard_redundant_offender_templates'] = len(red)
    gcases = [(Mn, Ln, f) for (Ln, f) in gobjs for Mn in CHECKERS]
    outs = model_batch_parallel([guard_cmd(Mn, Ln, ks, f) for (Mn, Ln, f) in gcases])
    for (Mn, Ln, f), o in zip(gcases, outs):
        m = model_mc(o)
        machinery((m[0] == 'ok') == PYSTATE[Mn](f), 'guard %s %s -> %s' % (Mn, fstr(f), m))
        obj = build(f, lang_module(Ln))
        before = read_obj(obj)
        obs = impl_guard(Mn, K, obj)
        if read_obj(obj) != before or kripke_snapshot(K) != ksnap:
            J.bad('modelcheck modified its arguments', {'kind': 'guard', 'checker': Mn, 'lang': Ln, 'tree': f, 'tree_str': fstr(f)}, no_input=True)
            K = kd_py(KD)
        cons = (Mn == 'LTL' and Ln == 'CTL') or (Mn == 'CTLS' and Ln == 'PL')
        ok = J.guard({'kind': 'guard', 'checker': Mn, 'lang': Ln, 'tree': f, 'tree_str': fstr(f)}, obs, m, conservative_ok=cons)
        if ok and not is_pl(f):
            R.nontriv(('guard', Mn, Ln, f))
            if m[0] == 'ok' and fheight(f) == 2 and 0 < len(m[1]) < 3:
                R.sample({'modelcheck': '%s.modelcheck(K, %s object %s)' % (Mn, Ln, fstr(f)), 'result': m[1]}, limit=8)
    # the same guards on DEGENERATE structures (no state at all; one state): which formulas a checker accepts does not depend on K
    from pyModelChecking.kripke import Kripke as _Kripke
    small = [('the empty structure Kripke()', _Kripke()), ('a one-state structure', _Kripke(R=[(0, 0)], L={0: ['p']}))]
    sub = rng.sample(gcases, min(len(gcases), 3000 if R.thorough else 450))
    for kname, K0 in small:
        ks0 = kripke_sx(K0)
        outs0 = model_batch_parallel([guard_cmd(Mn, Ln, ks0, f) for (Mn, Ln, f) in sub])
        for (Mn, Ln, f), o in zip(sub, outs0):
            m = model_mc(o)
            obs = impl_guard(Mn, K0, build(f, lang_module(Ln)))
            cons = (Mn == 'LTL' and Ln == 'CTL') or (Mn == 'CTLS' and Ln == 'PL')
            J.guard({'kind': 'guard', 'checker': Mn, 'lang': Ln, 'tree': f, 'tree_str': fstr(f), 'structure': kname}, obs, m, conservative_ok=cons)
    mark('guard objects')
    # text: the standard (CTL*) printed form of the tree, parsed by the checker's own parser
    ttrees = [f for f in d1] + (d2[len(d1):] if R.thorough else rng.sample(d2[len(d1):], 700)) + rng.sample(t3_2, 100) + rng.sample(d3, 2000 if R.thorough else 100)
    texts = [str(x) for x in model_batch_parallel([['print', 'CTLS', fsx(f)] for f in ttrees])]
    tcases = [(Mn, f, s) for f, s in zip(ttrees, texts) for Mn in CHECKERS]
    pouts = model_batch_parallel([['parse', Mn, Q(s)] for (Mn, f, s) in tcases])
    parsed = [fparse(o[1]) if o[0] == 'ok' else None for o in pouts]
    gidx = [i for i, g in enumerate(parsed) if g is not None]
    gouts = model_batch_parallel([guard_cmd(tcases[i][0], tcases[i][0], ks, parsed[i]) for i in gidx])
    mres = {i: model_mc(o) for i, o in zip(gidx, gouts)}
    for i, (Mn, f, s) in enumerate(tcases):
        if parsed[i] is None:
            m = ('err', str(pouts[i][1]))
        else:
            m = mres[i]
            machinery((m[0] == 'ok') == PYSTATE[Mn](parsed[i]), 'text guard %s %r -> %s' % (Mn, s, m))
        obs = impl_guard(Mn, K, s, text=True)
        ok = J.guard({'kind': 'guard_text', 'checker': Mn, 'text': s, 'tree': f}, obs, m)
        if ok and not is_pl(f):
            R.nontriv(('guard_text', Mn, s))
    mark('guard text')
    # a non-Kripke first argument
    from pyModelChecking.graph import DiGraph
    from pyModelChecking import Kripke
    nonk = [('None', None), ('int', 0), ('str', 'K'), ('dict', {}), ('list', [(0, 0)]), ('DiGraph', DiGraph(V=[0], E=[(0, 0)])),
            ('class Kripke', Kripke), ('object', object())]
    good = {'CTL': ('A', ('G', ('ap', 'p'))), 'LTL': ('A', ('G', ('ap', 'p'))), 'CTLS': ('A', ('G', ('F', ('ap', 'p'))))}
    for Mn in CHECKERS:
        for nm, X in nonk:
            for Ln in ('CTLS', Mn):
                for arg_kind in ('object', 'text', 'bad-object'):
                    if arg_kind == 'object':
                        arg = build(good[Mn], lang_module(Ln))
                    elif arg_kind == 'text':
                        arg = str(build(good[Mn], lang_module('CTLS')))
                    else:
                        arg = build(('X', ('ap', 'p')), lang_module(Ln))
                    obs = impl_guard(Mn, X, arg, text=(arg_kind == 'text'))
                    R.evaluations += 1
                    J.hist['nonkripke:' + Mn][obs[1] if obs[0] == 'err' else 'set'] += 1
                    if tuple(obs) != ('err', 'TypeError'):
                        J.bad('%s.modelcheck(<%s>, ...) did not raise TypeError' % (Mn, nm),
                              {'kind': 'nonkripke', 'checker': Mn, 'first_argument': nm, 'lang': Ln, 'formula': arg_kind, 'impl': obs, 'model': ('err', 'TypeError')})
                    else:
                        R.nontriv(('nonkripke', Mn, nm, Ln, arg_kind))

    # ---- 6. informational: operands that are not formulas at all (outside the property's quantifier) ---------
    info = collections.Counter()
    for Ln in LANGS:
        L = lang_module(Ln)
        for X in (1, None, 3.5, ['p'], ('p',), object()):
            for fn in (lambda: L.Not(X), lambda: L.Or('p', X), lambda: L.AtomicProposition(X) if not isinstance(X, str) else None, lambda: L.Bool(X)):
                r = call(fn)
                info['built' if r[0] == 'ok' and r[1] is not None else (r[1] if r[0] == 'err' else 'skipped')] += 1
    R.cov['informational_non_formula_operands(outside quantifier; AttributeError = err_msg reads phi.__desc__)'] = dict(info)

    mark('nonkripke+info')
    R.cov['section_wall_s'] = T
    R.cov['outcome_histograms'] = {k: dict(v) for k, v in sorted(J.hist.items())}
    R.cov['disagreements_total'] = J.total_bad
    R.cov['depth_histogram_of_constructions'] = dict(collections.Counter(fheight(f) for f in trees))
    R.exhaustive = False   # depth <= 2 with binary or/and is complete; ternary/depth 3/apply are sampled


def run_apply(R, J, acases, corpus=False):
    outs = model_batch_parallel([apply_cmd(Ln, op, ods) for (Ln, op, ods) in acases])
    for (Ln, op, ods), o in zip(acases, outs):
        m = model_built(o)
        kids = [operand_tree(od) for od in ods]
        f = (op,) + tuple(kids)
        machinery((m[0] == 'ok') == pymember(Ln, f), 'apply %s %s -> %s' % (Ln, fstr(f), m[0]))
        obs, o2, miss, untouched = impl_apply(Ln, op, ods)
        data = {'lang': Ln, 'op': op, 'operands': [list(od) for od in ods],
                'python': '%s.%s(%s)' % (Ln, PYNAME[op], ', '.join(repr(od[1]) if od[0] == 'raw' else '<%s object %s>' % (od[1], fstr(od[2])) for od in ods))}
        ok = J.built('apply', data, obs, m, untouched=untouched)
        if corpus:
            R.count('corpus_cases')
        foreign = any(od[0] == 'obj' and od[1] != Ln for od in ods)
        if ok and (foreign or any(od[0] == 'raw' for od in ods)) and not is_pl(f):
            R.nontriv(('apply', Ln, op, tuple(map(tuple, ods))))
            if foreign and obs[0] == 'ok' and Ln == 'CTL':
                R.sample({'apply': data['python'], 'outcome': 'tree %s, all nodes %s' % (fstr(obs[1]), obs[2])}, limit=6)


# ----------------------------------------------------------------------------------------
# replay
# ----------------------------------------------------------------------------------------
def replay(R, data):
    d = data['data']
    kind = d['kind']
    K = kd_py(KD)
    ks = kripke_sx(K)
    if kind == 'construct':
        f = detuple(d['tree'])
        obs, _, _ = impl_construct(d['lang'], f)
        m = model_build_all([(d['lang'], f)], {})[(d['lang'], f)]
    elif kind == 'apply':
        ods = [tuple(detuple(x)) for x in d['operands']]
        obs, _, _, untouched = impl_apply(d['lang'], d['op'], ods)
        m = model_built(model_batch([apply_cmd(d['lang'], d['op'], ods)])[0])
        print('call :', d.get('python'), '' if untouched else '(operands MODIFIED)')
    elif kind == 'cast':
        f = detuple(d['tree'])
        obs, same = impl_cast(d['lang'], f, d['target'])
        m = model_built(model_batch([['cast', d['target'], [d['lang'], fsx(f)]]])[0])
    elif kind == 'guard':
        if d.get('structure'):
            from pyModelChecking.kripke import Kripke as _Kripke
            K = _Kripke() if 'empty' in d['structure'] else _Kripke(R=[(0, 0)], L={0: ['p']})
            ks = kripke_sx(K)
        f = detuple(d['tree'])
        obs = impl_guard(d['checker'], K, build(f, lang_module(d['lang'])))
        m = model_mc(model_batch([guard_cmd(d['checker'], d['lang'], ks, f)])[0])
    elif kind == 'guard_text':
        obs = impl_guard(d['checker'], K, d['text'], text=True)
        p = model_batch([['parse', d['checker'], Q(d['text'])]])[0]
        m = ('err', str(p[1])) if p[0] != 'ok' else model_mc(model_batch([guard_cmd(d['checker'], d['checker'], ks, fparse(p[1]))])[0])
    else:
        print('non-Kripke case: re-run the check (monitored directly, no model)')
        obs = m = None
    print('case :', {k: v for k, v in d.items() if k not in ('impl', 'model')})
    print('impl :', obs)
    print('model:', m)
    if obs is not None and tuple(obs) != tuple(m):
        R.violation('replayed: implementation differs from the proved model', d)
