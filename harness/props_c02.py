"""C02 - LTL model checking returns exactly the states all of whose paths satisfy g.
Theorem (Properties/C02.v): C02_exact (tableau soundness/completeness w.r.t. infinite paths).
Correspondence: LTL.modelcheck on live objects vs the extracted model; internal agreement on
closure and atoms; each exclusion additionally certified by a concrete lasso."""
from common import *
from mccheck import *
import collections
import props_c02_round2 as R2          # (registers the hash-equal state presentations in mccheck.RENAMES)
LEVEL = 'proof'

KF = {'id': 'KF-print-a', 'what': "LTL closure/atom membership by printed form: A(X(p) and not AtomicProposition('X(p)')) on the one-state p-loop"}


def known_finding_probe(R):
    import pyModelChecking.LTL as LTL
    K = kd_py({'S': [0], 'S0': [], 'R': [(0, 0)], 'L': {0: ['p']}})
    f = LTL.A(LTL.And(LTL.X('p'), LTL.Not(LTL.AtomicProposition('X(p)'))))
    r = call(lambda: LTL.modelcheck(K, f))
    if r[0] == 'ok' and sorted(r[1]) != [0]:
        R.known_hits[KF['id']] = 1
        known_finding_line('C02', KF['id'], KF['what'] + ' (got %s, exact answer [0])' % sorted(r[1]))
    else:
        R.cov['known_finding_no_longer_reproduces'] = KF['id']


# ---- lasso evaluation (independent path evaluator used as a certificate) ----
def eval_on_lasso(f, pre, cyc, labels):
    """truth of path formula f at every position of the lasso pre . cyc^omega (positions 0..n-1)"""
    seq = list(pre) + list(cyc)
    n = len(seq)
    nxt = [i + 1 for i in range(n)]
    nxt[n - 1] = len(pre)
    memo = {}

    def ev(g):
        if g in memo:
            return memo[g]
        t = g[0]
        if t == 'true':
            v = [True] * n
        elif t == 'false':
            v = [False] * n
        elif t == 'ap':
            v = [g[1] in labels[seq[i]] for i in range(n)]
        elif t == 'not':
            v = [not x for x in ev(g[1])]
        elif t == 'or':
            vs = [ev(h) for h in g[1:]]
            v = [any(x[i] for x in vs) for i in range(n)]
        elif t == 'and':
            vs = [ev(h) for h in g[1:]]
            v = [all(x[i] for x in vs) for i in range(n)]
        elif t == 'imp':
            a, b = ev(g[1]), ev(g[2])
            v = [(not a[i]) or b[i] for i in range(n)]
        elif t == 'X':
            a = ev(g[1])
            v = [a[nxt[i]] for i in range(n)]
        elif t == 'F':
            v = ev(('U', ('true',), g[1]))
        elif t == 'G':
            v = [not x for x in ev(('U', ('true',), ('not', g[1])))]
        elif t == 'R':
            v = [not x for x in ev(('U', ('not', g[1]), ('not', g[2])))]
        elif t == 'U':
            a, b = ev(g[1]), ev(g[2])
            v = list(b)
            for _ in range(n + 1):           # least fixpoint of v = b or (a and next v)
                v = [b[i] or (a[i] and v[nxt[i]]) for i in range(n)]
        else:
            raise ValueError(g)
        memo[g] = v
        return v
    return ev(f)[0]


def find_lasso(kd, s, g, maxlen, budget=4000):
    """a lasso from s violating g (i.e. satisfying not g), searched by DFS over simple-ish walks (at most `budget` walks:
    the search is a certificate generator, giving up only means 'no certificate')"""
    succ = succ_of(kd)
    labels = {v: set(kd['L'].get(v, [])) for v in succ}
    stack = [[s]]
    while stack and budget > 0:
        budget -= 1
        w = stack.pop()
        for d in succ[w[-1]]:
            if d in w:
                i = w.index(d)
                if not eval_on_lasso(g, w[:i], w[i:], labels):
                    return (w[:i], w[i:])
            if len(w) < maxlen:
                stack.append(w + [d])
    return None


def cases(R):
    rng = R.rng
    small = list(all_kripkes(1)) + list(all_kripkes(2))
    out = []
    ops1 = path_formulas_ops(1)
    ops2 = path_formulas_ops(2)
    ops3 = None
    for kd in (small if R.thorough else rng.sample(small, 40)):
        for g in ops1:
            out.append((kd, ('A', g)))
    for g in (ops2 if R.thorough else rng.sample(ops2, 350)):
        for kd in (rng.sample(small, 30) if R.thorough else rng.sample(small, 6)):
            out.append((kd, ('A', g)))
    if R.thorough:
        ops3 = path_formulas_ops(3)
        k3 = list(all_kripkes(3))
        for g in rng.sample(ops3, 6000):
            out.append((rng.choice(small), ('A', g)))
            out.append((rng.choice(k3), ('A', g)))
    for _ in range(30000 if R.thorough else 1500):
        out.append((rand_kripke(rng, rng.randint(1, 5)), ('A', rand_path(rng, rng.randint(1, 3)))))
    # 3- and 4-state structures (transient cycles with an exit, several components) in random edge-insertion orders x EVERY formula
    # with one temporal operator: the simplest properties on the smallest structures that have more than one non-trivial SCC shape
    t1 = [g for g in ops1 if g[0] in TEMPORAL] + [('G', ('not', ('ap', 'q'))), ('not', ('U', ('ap', 'p'), ('ap', 'q'))), ('F', ('G', ('ap', 'p'))), ('G', ('F', ('ap', 'q')))]
    for _ in range(6000 if R.thorough else 400):
        kd = rand_kripke(rng, rng.choice([3, 3, 4]), maxdeg=2)
        kd = dict(kd, R=rng.sample(list(kd['R']), len(kd['R'])), S=rng.sample(list(kd['S']), len(kd['S'])))
        for g in rng.sample(t1, 4):
            out.append((kd, ('A', g)))
    R.cov['formula_pool'] = {'ops<=1': len(ops1), 'ops<=2': len(ops2)}
    return out


def internal_agreement(R, sample):
    """closure (as a set) and atoms (as a set of (state, formula set)) vs the model"""
    import pyModelChecking.LTL as LTL
    from pyModelChecking.LTL import model_checking as M
    from pyModelChecking.language import LNot
    cmds, meta = [], []
    for kd, f in sample:
        K = kd_py(kd)
        p = LNot(to_py(f[1], LTL)).get_equivalent_restricted_formula()
        cl = M._get_closure(p)
        at = M._build_atoms(K, cl)
        pt = tree_of(p)
        meta.append((set(tree_of(x) for x in cl), set((a.state, frozenset(tree_of(x) for x in a)) for a in at)))
        cmds.append(['closure', fsx(pt)])
        cmds.append(['atoms', kripke_sx(K), fsx(pt)])
    outs = model_batch(cmds)
    agree_cl = agree_at = 0
    for i, (cl, at) in enumerate(meta):
        mcl = set(fparse(x) for x in outs[2 * i])
        mat = set((int(a[0]), frozenset(fparse(x) for x in a[1])) for a in outs[2 * i + 1])
        agree_cl += (cl == mcl)
        agree_at += (at == mat)
    R.cov['internal_agreement'] = {'closure_sets_equal': agree_cl, 'atom_sets_equal': agree_at, 'of': len(meta)}


def run(R):
    R.rule = ('(Kripke structure, A g): structures with <= 2 states over {p,q} x path formulas with <= 1 operator (sampled structures in quick), '
              'sampled formulas with 2 (quick) / 3 (thorough) operators, 3-state structures in thorough, random <= 5 states / depth <= 3 '
              '(or/and nodes with 2-3 operands, 4-9 with small probability); '
              'non-trivial = temporal operator present and answer neither empty nor all states; every exclusion of a sample is certified by a concrete lasso. '
              'PRESENTATIONS: a sample of the cases is re-run with the states renamed (1-based / sparse / negative ints, strings, tuples with a None field, '
              'mutually unorderable mixed types; the model stays on numbers) and with label containers that are not sets (frozenset, list, tuple). '
              'TEXT: a sample (plus formulas built around R, U and -->) is passed as hand-written concrete syntax with multi-character atom names and must '
              'give the answer of the object channel and of the model. LIVE STRUCTURES (mccheck.run_live): sessions on ONE Kripke object - queries '
              'interleaved with edits of its owner through the public API (labels(s) add/discard, replace_labelling_function with set/frozenset/list/shared '
              'containers, add_edge, a new state with its edges and labels) - with a pool of formula OBJECTS reused across the calls (now and then also '
              'passed to CTLS/CTL.modelcheck); every answer must equal the proved model on the presentation read back at the time of the call, formula '
              'objects must keep their trees, K must be left alone, returned sets are cleared / polluted by the caller after being recorded STACKED NEGATIONS: random formulas with 2-4 negations stacked on random subformulas (under quantifiers, between temporal operators, over derived operators and constants), object and text channel. JOINED ATOM NAMES: atom names of which one is the concatenation / blank- or comma-join / repetition / case variant of others ({p, q} and {pq} are different label sets), most structures with a state of each kind. '
              'TIMING CHAINS (props_c02_round2): nested X chains of X-depth 3-5 (quick; closure with <= 5 X-formulas) / 3-6 (thorough) with connectives / negations interleaved and a small temporal or propositional core, on '
              'structures with 2-3 states that wait in self-loops and then move on: the tableau has transient chains LONGER than K has states. '
              'OPERATOR STACKS: every word of length 2-4 over {X, F, G} (117 words; F G F, G F G, F F, X G X ...; negations interleaved; alone or under U / R / or / and / -->) '
              'applied to a small operand, each on structures chosen (by the reference semantics) so that the stack is told apart from its one-operator simplifications. '
              'HASH-EQUAL STATES: a sample of all the above with states whose hashes collide (-1 / -2 / -(2**61+1), 0 / 2**61-1 / 2*(2**61-1), tuples of those, user objects '
              'with a constant __hash__); these presentations also enter the live sessions. EDGE EDITS: sessions on one Kripke object whose owner removes / adds / retargets / '
              'rewires transitions IN PLACE through the live successor set returned by K.next(s) (the library has no remove_edge) and through add_edge, every formula object '
              'queried before and after every group of edits; each answer against the proved model on the structure read back at the time of the call. '
              'OUTSIDE the property (recorded in cov only): instances of a Kripke SUBCLASS overriding labels() while the stored labelling differs - the two public accessors '
              'labels(s) and labelling_function()[s] then disagree and the library itself reads the stored dict (clone, get_substructure, hence CTLS.modelcheck)')
    known_finding_probe(R)
    run_print_stream(R, 'C02', 'LTL', 800 if R.thorough else 100)
    cs = cases(R)
    run_mc(R, 'LTL', cs)
    long_structures(R, 'C02', 'LTL')
    dense = dense_cases(R.rng, 4000 if R.thorough else 500, 'LTL')
    run_mc(R, 'LTL', dense, label='_dense')
    # or/and nodes with 3-5 (or 1) operands, each a distinct temporal formula: an operand in position >= 3 must count
    wide = wide_cases(R.rng, 2500 if R.thorough else 250, 'LTL')
    run_mc(R, 'LTL', wide, label='_wide_connectives')
    # negations stacked (not not phi, not not not phi) at random positions of random path formulas
    neg = stacked_negation_cases(R.rng, 2500 if R.thorough else 250, 'LTL')
    run_mc(R, 'LTL', neg, label='_stacked_negations')
    # atom names of which one is the concatenation / join of others: {p, q} and {pq} are different label sets
    run_mc(R, 'LTL', joined_name_cases(R.rng, 3000 if R.thorough else 300, 'LTL'), label='_joined_atom_names')
    rng = R.rng
    # the same cases under other presentations of the structure (states that are not 0..n-1, label containers that are not sets)
    run_mc(R, 'LTL', rng.sample(cs, 8000 if R.thorough else 800) + dense[::6] + wide[::5], label='_renamed_states', alias_every=0, varied=True)
    # the text channel: multi-character atom names, every operator (binary temporal operators and --> over-weighted)
    tx = rng.sample(cs, 3000 if R.thorough else 350) + dense[::10] + neg[::3]
    lit = lambda: rng.choice([('ap', 'p'), ('ap', 'q'), ('ap', 'r'), ('not', ('ap', 'p')), ('X', ('ap', 'q')), ('F', ('ap', 'r')), ('G', ('ap', 'p')), ('true',)])
    for _ in range(1500 if R.thorough else 150):
        a, b, c = lit(), lit(), lit()
        g = rng.choice([('R', a, b), ('U', a, b), ('imp', a, b), ('R', a, ('U', b, c)), ('U', ('R', a, b), c), ('imp', ('R', a, b), c), ('not', ('R', a, b)),
                        ('or', ('R', a, b), ('U', b, c)), ('and', a, ('imp', b, c), c), ('R', ('not', a), ('imp', b, c))])
        tx.append((rand_kripke(rng, rng.randint(1, 4), aps=('p', 'q', 'r')), ('A', g)))
    run_text(R, 'LTL', [c for c in tx if all(len(g) > 2 or g[0] not in NARY for g in subformulas(c[1]))])
    # one structure queried, edited by its owner and queried again; formula objects reused
    run_live(R, 'LTL', 2500 if R.thorough else 220)
    # ---- second audit round (props_c02_round2.py) ----
    if True:
        # nested X chains: tableau chains longer than the structure has states
        tm = R2.timing_cases(R.rng, 2000 if R.thorough else 170, maxx=6 if R.thorough else 5)
        R2.run_mc_items(R, 'LTL', [(kd, f, None, None) for kd, f in tm], '_timing_chains')
        R.cov['timing_chains_by_X_depth'] = dict(collections.Counter(str(R2.xdepth(f)) for _, f in tm))
        # every stack of 2-4 unary temporal operators (F G F, G F G, F F, X G X, ...)
        stk = R2.stack_cases(R.rng, 12 if R.thorough else 3)
        R2.run_mc_items(R, 'LTL', [(kd, f, None, None) for kd, f in stk], '_operator_stacks')
        R.cov['operator_stacks'] = {'words_over_XFG_of_length_2_to_4': len(R2.stack_words()), 'cases': len(stk),
                                    'cases_by_number_of_one_operator_simplifications_told_apart': R2.stack_cases.hist}
        # states whose hashes collide
        pool = [c for c in cs if len(c[0]['S']) >= 2 and has_temporal(c[1])]
        hc = R.rng.sample(pool, 1500 if R.thorough else 110) + dense[1::16] + stk[::12]
        R2.run_mc_items(R, 'LTL', [(kd, f, R2.CLASH[i % 3], None) for i, (kd, f) in enumerate(hc)], '_hash_equal_states')
        # transitions removed / added / retargeted in place by the owner of K, queries before and after
        R2.run_edge_sessions(R, 1500 if R.thorough else 110)
        R2.derived_labels_probe(R)
    rng = R.rng
    internal_agreement(R, rng.sample(cs, 150 if not R.thorough else 1500))
    # lasso certificates for exclusions
    import pyModelChecking.LTL as LTL
    cert = uncert = 0
    for kd, f in rng.sample(cs, 300 if not R.thorough else 4000):
        K = kd_py(kd)
        r = impl_mc('LTL', K, f)
        if r[0] != 'ok':
            continue
        for s in K.states():
            if s not in r[1]:
                w = find_lasso(kd, s, f[1], len(kd['S']) * 3 + 2)
                if w is None:
                    uncert += 1
                else:
                    cert += 1
            else:
                # an included state must have no violating lasso within the bound
                w = find_lasso(kd, s, f[1], len(kd['S']) + 2)
                if w is not None:
                    R.violation('LTL.modelcheck includes a state that has a violating lasso',
                                {'logic': 'LTL', 'kripke': kd_json(kd), 'formula': f, 'formula_str': fstr(f), 'state': s, 'lasso': w, 'impl': r})
    R.cov['lasso_certificates'] = {'exclusions_certified': cert, 'exclusions_without_lasso_within_bound': uncert}


def replay(R, data):
    if data['data'].get('stream') == 'edge edits':
        return R2.replay_edge_session(R, data['data'])
    replay_mc(R, data)
