"""C11 - formula equality, hashing and cloning are coherent.

Theorems (Properties/C11.v): C11_eq_iff_tree, C11_refl, C11_sym, C11_trans, C11_hash, C11_hash_inj, C11_bool,
C11_print_injective (+ C11_reserved_refuted: why reserved-word atoms are scoped out).

Correspondence, within ONE logic and over identifier atoms that are not reserved words:
  pairs   - f == g and g == f (separately built objects) vs tree equality (tree_of) and vs the model's (eq o o');
            hash(f) == hash(g) when equal; len({f, g}); dict lookup with an equal-but-distinct key
  triples - reflexivity / symmetry / transitivity on triples made of copies and near misses
  bool    - L.Bool(b) == b' and b' == L.Bool(b) for python booleans vs (eqbool o b')
  print   - str(f) vs the model's (print L f), character by character, for EVERY generated formula in every language
            module that can hold it (CTL's compact notation included); this string is also the hash key
  clone   - equal tree, same classes, same language; runtime-only (monitored, the tree model has no heap): no node
            object shared between original and clone (id walk over ALL nodes, leaves and operand lists included) and the
            real criterion "no mutable node shared": every node of the clone is mutated (leaf attribute / operand slot)
            and the original must keep its tree, and the other way round; a SECOND clone of the same original, taken after the
            first one was edited all over, is again a new object with the original's tree sharing nothing with the first;
            a formula that was hashed and is then edited through the public surface (atom `name`, wrap_subformulas, the live
            list returned by subformulas(): slot overwritten, operand appended) must be ==, hash like and collide with a fresh
            formula of its CURRENT tree, its clone() must be equal to it, and a fresh formula of its FORMER tree must not be
  non-ASCII - identifier atoms such as 'tür' / 'tör' / 'tur' (UATOMS; outside the model's `good` predicate, so judged by tree
            equality alone): all ordered pairs of the atoms and of one operator over them, random formulas with copies,
            raw copies, near misses and atom exchanges, triples, clones, one dict of all of them
  lives   - scripts of clone / clone-of-a-subformula / public in-place edits over a small heap of objects that starts with one
            formula (half of them begin by cloning the same object twice; clones of clones, clones after edits of the
            original and of earlier clones); after EVERY step every object must be the formula of the tree its history gives
            it (tree, ==, hash, set/dict against a fresh build; != a fresh build of its former tree), two objects are ==
            exactly when their trees are, and no two objects share a node
  all-pairs (thorough) - every ordered pair of the depth <= 2 enumeration of each logic through ==, in worker processes
Across-language pairs are informational coverage only (the property is within one logic)."""
from common import *
from props_c08 import pymember, build, detuple, LANGS
import collections, multiprocessing

LEVEL = 'proof'
ATOMS = ('p', 'q', 'Ab', 'AX', 'orb', 'true_', '_x1', 'True', 'False')   # True/False: Python's spellings are NOT reserved words of the logics
# non-ASCII identifier atoms (str.isidentifier(), not reserved words) next to their ASCII look-alikes: 'replace' / 'ignore' /
# transliterating / case-folding treatments of the name merge some of them.  The model's `good` predicate covers ASCII
# identifiers only, so formulas over these atoms are judged by tree equality alone (model-free).
UATOMS = tuple(a for a in ('t\u00fcr', 't\u00f6r', 'tur', 'tr', 't_r', 'tuer', '\u00e9', '\u00e8', 'e', '\u00c4', '\u00e4', 'B', 'b', '\u00df', 'ss',
                           '\u03b1', '\u03b2', '\u03b1\u03b2', '\u0434\u0430', '\u0434\u043e', '\u65e5\u672c', '\u65e5\u672c\u8a9e', '\u00f1', 'n', '_\u00fc', '_\u00f6', 'p')
               if a.isidentifier() and a not in ('A', 'E', 'X', 'F', 'G', 'U', 'R', 'not', 'or', 'and', 'true', 'false'))
MAXV = 40
LOGIC_OPS = ('not', 'or', 'and', 'imp')


# ----------------------------------------------------------------------------------------
# enumerations of the four logics
# ----------------------------------------------------------------------------------------
def enum_logic(L, depth, leaves):
    """all formulas of logic L (objects of module L) with operator nesting <= depth, or/and binary"""
    if L == 'PL':
        return all_trees(depth, leaves, ('not',), ('imp',), NARY)
    if L == 'CTLS':
        return all_trees(depth, leaves, UNARY, BINARY, NARY)
    if L == 'LTL':
        paths = all_trees(depth, leaves, ('not', 'X', 'F', 'G'), BINARY, NARY)
        return paths + [('A', g) for g in paths if fheight(g) < depth]
    # CTL: state formulas, and path formulas (one temporal operator over state formulas)
    return [f for f in all_trees(depth, leaves, UNARY, BINARY, NARY) if pymember('CTL', f)]


def rand_of(rng, L, d, ATOMS=ATOMS):
    if L == 'PL':
        return rand_pl(rng, d, ATOMS)
    if L == 'CTLS':
        return rand_path(rng, d, ATOMS, quant=True)
    if L == 'LTL':
        return ('A', rand_path(rng, d - 1, ATOMS)) if rng.random() < 0.4 else rand_path(rng, d, ATOMS)
    if rng.random() < 0.25:
        o = rng.choice(TEMPORAL)
        return (o,) + tuple(rand_ctl(rng, d - 1, ATOMS) for _ in range(1 if o in 'XFG' else 2))
    return rand_ctl(rng, d, ATOMS)


def positions(f, path=()):
    yield path, f
    if f[0] not in ('true', 'false', 'ap'):
        for i, g in enumerate(f[1:]):
            yield from positions(g, path + (i,))


def replace_at(f, path, new):
    if not path:
        return new
    i = path[0]
    return f[:i + 1] + (replace_at(f[i + 1], path[1:], new),) + f[i + 2:]


def atoms_of(f):
    return {g[1] for _, g in positions(f) if g[0] == 'ap'}


def rename_atoms(f, ren):
    if f[0] == 'ap':
        return ('ap', ren.get(f[1], f[1]))
    if f[0] in ('true', 'false'):
        return f
    return (f[0],) + tuple(rename_atoms(g, ren) for g in f[1:])


SWAP = {'or': 'and', 'and': 'or', 'U': 'R', 'R': 'U', 'X': 'F', 'F': 'G', 'G': 'X', 'A': 'E', 'E': 'A'}


def near_miss(rng, f, L, ATOMS=ATOMS):
    """a formula of the same logic that differs from f by one small edit (or None)"""
    pos = list(positions(f))
    for _ in range(8):
        path, g = rng.choice(pos)
        t = g[0]
        kind = rng.randrange(5)
        if t == 'ap':
            new = ('ap', rng.choice([a for a in ATOMS if a != g[1]])) if kind else ('true',)
        elif t in ('true', 'false'):
            new = ('false',) if t == 'true' else (('true',) if kind else ('ap', 'true_'))
        elif kind == 0 and t in SWAP:
            new = (SWAP[t],) + g[1:]
        elif kind == 1 and len(g) >= 3:
            new = (t,) + tuple(reversed(g[1:]))
        elif kind == 2 and t in NARY and len(g) == 4:
            new = (t, (t, g[1], g[2]), g[3])           # (a or b or c) vs ((a or b) or c)
        elif kind == 2 and t in NARY and len(g) == 3 and g[1][0] == t and len(g[1]) == 3:
            new = (t, g[1][1], g[1][2], g[2])          # ((a or b) or c) vs (a or b or c)
        elif kind == 3 and t in NARY and len(g) == 3:
            new = (t, g[1], g[2], g[2])
        elif kind == 4 and t == 'not':
            new = g[1]
        else:
            new = ('not', g) if t in LOGIC_OPS + ('ap',) else g[1]
        h = replace_at(f, path, new)
        if h != f and pymember(L, h):
            return h
    return None


# ----------------------------------------------------------------------------------------
# observations
# ----------------------------------------------------------------------------------------
def nodes_of(o, acc=None):
    """every node object of a formula (preorder), leaves included"""
    if acc is None:
        acc = []
    acc.append(o)
    if type(o).__name__ not in ('Bool', 'AtomicProposition'):
        for c in o._subformula:
            nodes_of(c, acc)
    return acc


def is_leaf(o):
    return type(o).__name__ in ('Bool', 'AtomicProposition')


_RAWMODE = [0]


def build_raw(f, L):
    """same tree, but leaf operands are handed to the operators as raw python str / bool (and/or/not also through the
    &, |, ~ operators when the left operand is an object)"""
    t = f[0]
    if t in ('true', 'false', 'ap'):
        return build(f, L)
    _RAWMODE[0] += 1
    if _RAWMODE[0] % 3 == 0 and L.__name__.split('.')[-1] != 'PL':
        # leaves handed over as objects of ANOTHER language module (PL): the operators cast them; a constant false must stay the constant
        PLm = lang_module('PL')
        kids = [(PLm.AtomicProposition(g[1]) if g[0] == 'ap' else PLm.Bool(g[0] == 'true')) if g[0] in ('true', 'false', 'ap') else build_raw(g, L)
                for g in f[1:]]
        return getattr(L, PYNAME[t])(*kids)
    kids = [(g[1] if g[0] == 'ap' else g[0] == 'true') if g[0] in ('true', 'false', 'ap') else build_raw(g, L) for g in f[1:]]
    if t == 'not' and not isinstance(kids[0], (str, bool)):
        return ~kids[0]
    if t in ('or', 'and') and len(kids) == 2 and not isinstance(kids[0], (str, bool)):
        return (kids[0] | kids[1]) if t == 'or' else (kids[0] & kids[1])
    return getattr(L, PYNAME[t])(*kids)


def impl_pair(Lf, f, Lg, g, raw=False):
    fo = build(f, lang_module(Lf))
    go = build_raw(g, lang_module(Lg)) if raw else build(g, lang_module(Lg))
    obs = {}
    obs['eq_fg'] = call(lambda: fo == go)
    obs['eq_gf'] = call(lambda: go == fo)
    obs['ne_fg'] = call(lambda: fo != go)
    obs['hash_equal'] = call(lambda: hash(fo) == hash(go))
    obs['set_len'] = call(lambda: len({fo, go}))
    obs['dict_hit'] = call(lambda: {fo: 1}.get(go, 0) == 1)
    obs['in_list'] = call(lambda: go in [fo])
    if raw:
        obs['raw_built_tree'] = call(lambda: tree_of(go))
    return {k: (list(v) if v[0] == 'err' else v[1]) for k, v in obs.items()}


def expected_pair(same):
    return {'eq_fg': same, 'eq_gf': same, 'ne_fg': not same, 'set_len': 1 if same else 2, 'dict_hit': same, 'in_list': same}


def mutate_node(n):
    """mutate a leaf in place (operator nodes are mutated by overwriting their operand slots)"""
    if type(n).__name__ == 'Bool':
        n._value = not n._value
    else:
        n.name = n.name + '_mutated'


def _marker(n):
    L = sys.modules[type(n).__module__]
    return L.AtomicProposition('zz_marker')


def impl_clone(Ln, f, raw=False):
    """-> observation dict of o.clone(); raw: the formula is built from raw python str / bool operands and the & | ~
    operators (same tree, another construction route: e.g. the `height` attribute of such nodes differs)"""
    L = lang_module(Ln)
    mk = build_raw if raw else build
    o = mk(f, L)
    s0 = str(o)
    r = call(lambda: o.clone())
    if r[0] == 'err':
        return {'clone': list(r)}
    c = r[1]
    obs = {'clone': 'ok'}
    try:
        obs['tree'] = tree_of(c)
        obs['langs'] = sorted(langs_in(c))
        no, nc = nodes_of(o), nodes_of(c)
    except Exception as e:  # noqa
        obs['clone'] = ['unreadable', type(e).__name__]
        return obs
    obs['same_classes'] = len(no) == len(nc) and all(type(a) is type(b) for a, b in zip(no, nc))
    obs['eq'] = [call(lambda: o == c)[1], call(lambda: c == o)[1], call(lambda: hash(o) == hash(c))[1]]
    obs['is_new_object'] = c is not o
    ids_o = {id(n) for n in no} | {id(n._subformula) for n in no if not is_leaf(n)}
    shared = [i for i, n in enumerate(nc) if id(n) in ids_o or (not is_leaf(n) and id(n._subformula) in ids_o)]
    obs['shared_node_positions'] = shared
    obs['shared_leaves_only'] = bool(shared) and all(is_leaf(nc[i]) for i in shared)
    # mutate every node of the clone (deepest first); the original must keep its tree and printed form
    leaked = []
    for i in range(len(nc) - 1, -1, -1):
        n = nc[i]
        if is_leaf(n):
            mutate_node(n)
            if tree_of(o) != f or str(o) != s0:
                leaked.append(i)
                return dict(obs, mutation_through_clone_reaches_original=leaked)
        else:
            for k in range(len(n._subformula)):
                n._subformula[k] = _marker(n)
                if tree_of(o) != f or str(o) != s0:
                    leaked.append(i)
                    return dict(obs, mutation_through_clone_reaches_original=leaked)
    obs['mutation_through_clone_reaches_original'] = leaked
    # a SECOND clone of the same original, taken after the first clone was edited all over: again a new object with the
    # original's tree, sharing nothing with the first clone (nor with the original)
    r2 = call(lambda: o.clone())
    if r2[0] != 'ok':
        obs['second_clone'] = list(r2)
    else:
        ids_c = {id(n) for n in nc} | {id(n._subformula) for n in nc if not is_leaf(n)} | ids_o
        n2c = nodes_of(r2[1])
        obs['second_clone'] = [r2[1] is not c and r2[1] is not o, call(lambda: tree_of(r2[1]))[1] == f,
                               not any(id(n) in ids_c or (not is_leaf(n) and id(n._subformula) in ids_c) for n in n2c),
                               call(lambda: r2[1] == o)[1], call(lambda: hash(r2[1]) == hash(o))[1]]
    # and the other way round on a fresh pair
    o2 = mk(f, L)
    c2 = o2.clone()
    back = []
    n2 = nodes_of(o2)
    for i in range(len(n2) - 1, -1, -1):
        n = n2[i]
        if is_leaf(n):
            mutate_node(n)
        else:
            for k in range(len(n._subformula)):
                n._subformula[k] = _marker(n)
        if tree_of(c2) != f:
            back.append(i)
            break
    obs['mutation_of_original_reaches_clone'] = back
    # a formula that was hashed / used as a key and is EDITED afterwards through the public surface (an atom's `name`,
    # wrap_subformulas) is still a formula: it must be == to, hash like and collide in sets/dicts with a freshly built
    # formula of its CURRENT tree (a hash remembered from before the edit would break this)
    inco = []
    for route in ('rename', 'wrap', 'slot', 'append'):
        o3 = build(f, L)
        hash(o3), {o3: 1}, str(o3)
        for n in nodes_of(o3):
            hash(n)
        want = None
        if route == 'rename':
            leaves = [n for n in nodes_of(o3) if type(n).__name__ == 'AtomicProposition']
            if not leaves:
                continue
            leaves[-1].name = leaves[-1].name + '_r'
        elif route in ('slot', 'append'):
            # through the live list that the public subformulas() returns: a leaf operand of the last operator node that has one
            # is overwritten by a new atom (leaf for leaf: the formula stays in its logic) / an operand is appended to an or / and
            ops_ = [(p_, g_) for p_, g_ in positions(f) if g_[0] not in ('true', 'false', 'ap')
                    and (any(x[0] in ('true', 'false', 'ap') for x in g_[1:]) if route == 'slot' else (g_[0] in NARY and len(g_) == 3))]
            if not ops_:
                continue
            p_, g_ = ops_[-1]
            n_ = o3
            for i_ in p_:
                n_ = n_.subformulas()[i_]
            if route == 'slot':
                k_ = max(k for k, x in enumerate(g_[1:]) if x[0] in ('true', 'false', 'ap'))
                n_.subformulas()[k_] = _marker(n_)
                want = replace_at(f, p_, g_[:k_ + 1] + (('ap', 'zz_marker'),) + g_[k_ + 2:])
            else:
                n_.subformulas().append(_marker(n_))
                want = replace_at(f, p_, g_ + (('ap', 'zz_marker'),))
        else:
            if is_leaf(o3) or len(o3._subformula) < 2:
                continue
            kids = list(o3.subformulas())
            want = (f[0],) + tuple(reversed(f[1:]))
            r3 = call(lambda: o3.wrap_subformulas(list(reversed(kids)), sys.modules[type(o3).__module__].Formula))
            if r3[0] != 'ok':
                continue
        t3 = tree_of(o3)
        if want is not None and t3 != want:
            inco.append([route, 'tree after the edit is not the requested one'])
            continue
        g3 = build(t3, L)
        co = [call(lambda: o3 == g3)[1], call(lambda: g3 == o3)[1], call(lambda: hash(o3) == hash(g3))[1],
              call(lambda: len({o3, g3}) == 1)[1], call(lambda: {g3: 1}.get(o3) == 1)[1], call(lambda: o3 in {g3})[1]]
        if co != [True] * 6:
            inco.append([route, co])
            continue
        # its clone is a formula of the CURRENT tree, equal to it; a fresh formula of the FORMER tree no longer is
        c3 = call(lambda: o3.clone())
        co = [c3[0]] if c3[0] != 'ok' else [call(lambda: tree_of(c3[1]))[1] == t3, call(lambda: c3[1] == o3)[1], call(lambda: o3 == c3[1])[1],
                                            call(lambda: hash(c3[1]) == hash(o3))[1]]
        if co != [True] * 4:
            inco.append([route, 'clone of the edited formula: has the current tree, clone == edited, edited == clone, hashes equal', co])
        if t3 != f:
            h3 = build(f, L)
            co = [call(lambda: o3 == h3)[1], call(lambda: h3 == o3)[1], call(lambda: len({o3, h3}))[1]]
            if co != [False, False, 2]:
                inco.append([route, 'against a fresh formula of the former tree: ==, reversed ==, len(set)', co])
    obs['edited_formula_incoherent'] = inco
    return obs


def clone_expected(Ln, f):
    return {'clone': 'ok', 'tree': f, 'langs': [Ln], 'same_classes': True, 'eq': [True, True, True], 'is_new_object': True,
            'shared_node_positions': [], 'shared_leaves_only': False, 'mutation_through_clone_reaches_original': [],
            'mutation_of_original_reaches_clone': [], 'edited_formula_incoherent': [], 'second_clone': [True] * 5}


# ----------------------------------------------------------------------------------------
# life cycles: a small heap of formula objects under clone / edit, audited after every step
# ----------------------------------------------------------------------------------------
LIFE_HEAP = 5
LIFE_INEFFECTIVE = [0]


def subtree(f, path):
    for i in path:
        f = f[i + 1]
    return f


def node_at(o, path):
    for i in path:
        o = o.subformulas()[i]
    return o


def small_of(rng, L, atoms):
    """a small formula that may stand as an operand somewhere in a formula of L (membership is checked by the caller)"""
    r = rng.random()
    if r < 0.45:
        return ('ap', rng.choice(atoms))
    if r < 0.6:
        return (rng.choice(('true', 'false')),)
    return rand_of(rng, L, rng.randint(1, 2), atoms)


def gen_edit(rng, L, t, i, atoms):
    """one in-place edit of heap object i (tree t) -> (op, new tree) or None; the new tree stays in the logic L"""
    pos = list(positions(t))
    for _ in range(12):
        path, g = rng.choice(pos)
        tag = g[0]
        if tag == 'ap':
            new = rng.choice([a for a in atoms if a != g[1]])
            op, ng = ('rename', i, path, new), ('ap', new)
        elif tag in ('true', 'false'):
            continue                      # a Bool has no public way of being edited in place (it can be replaced: 'slot')
        else:
            kind = rng.choice(('slot', 'slot', 'wrap', 'grow', 'shrink'))
            n = len(g) - 1
            if kind == 'slot':
                k = rng.randrange(n)
                new = near_miss(rng, g[k + 1], 'CTLS', atoms) if rng.random() < 0.4 else small_of(rng, L, atoms)
                if new is None or new == g[k + 1]:
                    continue
                op, ng = ('slot', i, path, k, new), g[:k + 1] + (new,) + g[k + 2:]
            elif kind == 'wrap' and n >= 2:
                perm = list(range(n))
                while perm == list(range(n)):
                    rng.shuffle(perm)
                op, ng = ('wrap', i, path, tuple(perm)), (tag,) + tuple(g[p + 1] for p in perm)
            elif kind == 'grow' and tag in NARY and n == 2:
                new = small_of(rng, L, atoms)
                op, ng = ('grow', i, path, new), g + (new,)
            elif kind == 'shrink' and tag in NARY and n == 3:
                op, ng = ('shrink', i, path), g[:-1]
            else:
                continue
        nt = replace_at(t, path, ng)
        if pymember(L, nt):
            return op, nt
    return None


def gen_life(rng, L, f, nops, atoms, prefix=()):
    """a script of clone / edit steps over a heap that starts as [f]; generated on trees only (independent of the library)"""
    shadow = [f]
    ops = []
    for op in prefix:
        ops.append(op)
        shadow.append(shadow[op[1]])
    tries = 0
    while len(ops) < nops and tries < 4 * nops:
        tries += 1
        i = rng.randrange(len(shadow))
        r = rng.random()
        if r < 0.3 and len(shadow) < LIFE_HEAP:
            ops.append(('clone', i))
            shadow.append(shadow[i])
        elif r < 0.4 and len(shadow) < LIFE_HEAP and fheight(shadow[i]) >= 1:
            path, g = rng.choice([pg for pg in positions(shadow[i]) if pg[0]])
            if pymember(L, g):
                ops.append(('clonesub', i, path))
                shadow.append(g)
        else:
            e = gen_edit(rng, L, shadow[i], i, atoms)
            if e is not None:
                ops.append(e[0])
                shadow[i] = e[1]
    return tuple(ops)


def life_apply(M, heap, shadow, op):
    """apply one step to the objects and to the shadow trees -> index of the edited object (or None for clone steps); edits use the
    public surface only: the `name` of an atom, the list returned by subformulas() (slot overwritten, operand appended / popped) and
    wrap_subformulas()"""
    kind, i = op[0], op[1]
    if kind == 'clone':
        heap.append(heap[i].clone())
        shadow.append(shadow[i])
        return None
    if kind == 'clonesub':
        heap.append(node_at(heap[i], op[2]).clone())
        shadow.append(subtree(shadow[i], op[2]))
        return None
    path = op[2]
    n = node_at(heap[i], path)
    g = subtree(shadow[i], path)
    if kind == 'rename':
        n.name = op[3]
        ng = ('ap', op[3])
    elif kind == 'slot':
        k, new = op[3], op[4]
        n.subformulas()[k] = build(new, M)               # the public accessor returns the live operand list
        ng = g[:k + 1] + (new,) + g[k + 2:]
    elif kind == 'wrap':
        kids = list(n.subformulas())
        n.wrap_subformulas([kids[p] for p in op[3]], M.Formula)
        ng = (g[0],) + tuple(g[p + 1] for p in op[3])
    elif kind == 'grow':
        n.subformulas().append(build(op[3], M))
        ng = g + (op[3],)
    elif kind == 'shrink':
        n.subformulas().pop()
        ng = g[:-1]
    else:
        raise ValueError(kind)
    if kind in ('slot', 'grow', 'shrink') and tree_of(heap[i]) == shadow[i]:
        return 'ineffective'              # subformulas() handed out a copy: nothing was edited (not the case in the library as it is)
    shadow[i] = replace_at(shadow[i], path, ng)
    return i


def _ids(o):
    s = set()
    for n in nodes_of(o):
        s.add(id(n))
        if not is_leaf(n):
            s.add(id(n._subformula))
    return s


def life_audit(M, heap, shadow, edited=None, former=None):
    """every object of the heap must BE its shadow tree: same tree (no edit leaked from another object), ==, hash, set and dict
    behaviour of a freshly built formula of that tree; two heap objects are == exactly when their trees are, and share no
    node; an edited object is no longer == to a fresh formula of its former tree -> list of problems"""
    bad = []
    for i, (o, t) in enumerate(zip(heap, shadow)):
        r = call(lambda: tree_of(o))
        if r != ('ok', t):
            bad.append(['object %d does not have the tree its history gives it' % i, list(r) if r[0] == 'err' else r[1], t])
    if bad:
        return bad
    for i, (o, t) in enumerate(zip(heap, shadow)):
        g = build(t, M)
        co = [call(lambda: o == g)[1], call(lambda: g == o)[1], call(lambda: o != g)[1], call(lambda: hash(o) == hash(g))[1],
              call(lambda: len({o, g}))[1], call(lambda: {g: 1}.get(o))[1], call(lambda: {o: 1}.get(g))[1], call(lambda: g in [o])[1]]
        if co != [True, True, False, True, 1, 1, 1, True]:
            bad.append(['object %d against a fresh formula of its current tree: ==, reversed ==, !=, hash equal, len(set), dict hit, reversed dict hit, in list' % i, co])
        if i == edited and former != t:
            h = build(former, M)
            co = [call(lambda: o == h)[1], call(lambda: h == o)[1], call(lambda: len({o, h}))[1], call(lambda: {h: 1}.get(o))[1]]
            if co != [False, False, 2, None]:
                bad.append(['edited object %d against a fresh formula of its FORMER tree: ==, reversed ==, len(set), dict hit' % i, co])
    ids = [_ids(o) for o in heap]
    for i in range(len(heap)):
        for j in range(i + 1, len(heap)):
            a, b = heap[i], heap[j]
            same = shadow[i] == shadow[j]
            co = [call(lambda: a == b)[1], call(lambda: b == a)[1], call(lambda: len({a, b}))[1]]
            if co != [same, same, 1 if same else 2] or (same and call(lambda: hash(a) == hash(b))[1] is not True):
                bad.append(['objects %d and %d (same tree: %s): ==, reversed ==, len(set)' % (i, j, same), co])
            if a is b:
                bad.append(['objects %d and %d are ONE object (a clone that is not a new object)' % (i, j)])
            elif ids[i] & ids[j]:
                bad.append(['objects %d and %d share a node' % (i, j)])
    # every node is hashed / printed / used as a key, so that whatever can be remembered is remembered before the next edit
    for o in heap:
        for n in nodes_of(o):
            hash(n), str(n), {n: 1}, n == n
    return bad


def impl_life(Ln, f, ops, raw=False):
    """-> (None | {'step', 'op', 'problems', 'heap'}, number of steps run)"""
    M = lang_module(Ln)
    heap, shadow = [(build_raw if raw else build)(f, M)], [f]
    ineffective = LIFE_INEFFECTIVE
    bad = life_audit(M, heap, shadow)
    if bad:
        return {'step': -1, 'op': None, 'problems': bad, 'heap': [fstr(t) for t in shadow]}, 0
    for k, op in enumerate(ops):
        former = shadow[op[1]]
        r = call(lambda: life_apply(M, heap, shadow, op))
        if r[0] == 'err':
            return {'step': k, 'op': op, 'problems': [['the step raised', r[1]]], 'heap': [fstr(t) for t in shadow]}, k
        if r[1] == 'ineffective':
            ineffective[0] += 1
        bad = life_audit(M, heap, shadow, edited=r[1] if isinstance(r[1], int) else None, former=former)
        if bad:
            return {'step': k, 'op': op, 'problems': bad, 'heap': [fstr(t) for t in shadow]}, k
    return None, len(ops)


def check_lives(R, J, items, tag):
    """items: (L, f, ops)"""
    for (L, f, ops) in sorted(items, key=lambda it: fsize(it[1]) + len(it[2])):
        R.evaluations += 1
        raw = (R.evaluations % 2 == 0) and f[0] not in ('true', 'false', 'ap')
        try:
            res, steps = impl_life(L, f, ops, raw=raw)
        except Exception as e:  # noqa  (on a correct library no audit step can fail)
            res, steps = {'step': None, 'op': None, 'problems': [['the audit raised', '%s: %s' % (type(e).__name__, ' '.join(str(e).split())[:160])]]}, 0
        if res is not None:
            k = res['step']
            J.bad('after a clone / in-place edit history a formula object no longer behaves (==, hash, keys, clone) as the formula of its current tree',
                  {'kind': 'life', 'lang': L, 'tree': f, 'tree_str': fstr(f), 'ops': list(ops[:k + 1] if isinstance(k, int) else ops),
                   'built_from_raw_operands': raw, 'impl': res, 'stream': tag})
        else:
            R.count('lives_' + tag)
            R.count('life_steps', steps)
            for op in ops:
                R.count('life_op_' + op[0])
            R.nontriv(('life', L, f, ops))


# ----------------------------------------------------------------------------------------
# all-pairs workers (thorough)
# ----------------------------------------------------------------------------------------
_AP = {}


def _ap_rows(rng_):
    lo, hi = rng_
    A, B = _AP['a'], _AP['b']
    n = len(B)
    bad, evals, hcoll = [], 0, 0
    hb = _AP['hb']
    for i in range(lo, hi):
        a = A[i]
        ha = hash(a)
        for j in range(n):
            if (a == B[j]) != (i == j):
                if len(bad) < 20:
                    bad.append((i, j))
            if ha == hb[j] and i != j:
                hcoll += 1
        evals += n
    return evals, bad, hcoll


def all_pairs(Ln, trees, jobs):
    L = lang_module(Ln)
    _AP['a'] = [build(f, L) for f in trees]
    _AP['b'] = [build(f, L) for f in trees]
    _AP['hb'] = [hash(o) for o in _AP['b']]
    n = len(trees)
    step = max(1, n // (jobs * 8))
    chunks = [(i, min(n, i + step)) for i in range(0, n, step)]
    ctx = multiprocessing.get_context('fork')
    with ctx.Pool(jobs) as pool:
        res = pool.map(_ap_rows, chunks)
    evals = sum(r[0] for r in res)
    bad = [b for r in res for b in r[1]]
    hcoll = sum(r[2] for r in res)
    return evals, bad, hcoll


# ----------------------------------------------------------------------------------------
class Judge:
    def __init__(self, R):
        self.R = R
        self.total_bad = 0

    def bad(self, what, data, no_input=False):
        self.total_bad += 1
        if len(self.R.violations) < MAXV:
            self.R.violation(what, data, no_input=no_input)


def check_prints(R, J, items):
    """items: (L, f) -> str(obj) vs model print, every language module that can hold f"""
    todo = []
    seen = set()
    for (L, f) in items:
        for M in LANGS:
            if (M == L or pymember(M, f)) and (M, f) not in seen:
                seen.add((M, f))
                todo.append((M, f))
    outs = model_batch_parallel([['print', M, fsx(f)] for (M, f) in todo])
    table = {}
    for (M, f), o in zip(todo, outs):
        R.evaluations += 1
        s = call(lambda: str(build(f, lang_module(M))))
        r = call(lambda: repr(build(f, lang_module(M))))
        m = str(o)
        table[(M, f)] = m
        R.count('printed_' + M)
        if s != ('ok', m) or r != ('ok', m):
            J.bad('str(formula) differs from the model printer (the hash / equality key)',
                  {'kind': 'print', 'lang': M, 'tree': f, 'impl': list(s), 'impl_repr': list(r), 'model': m})
        elif M == 'CTL' and any(g[0] in ('A', 'E') for g in subformulas(f)):
            R.nontriv(('print', M, f))
    return table


def check_pairs(R, J, L, pairs, tag, model=True):
    """pairs of trees of ONE logic L; tag 'rawcopy' / 'u-rawcopy': the second object is built from raw str / bool operands;
    model=False (atoms outside the model's `good` predicate: non-ASCII identifiers): judged by tree equality alone"""
    raw = tag.endswith('rawcopy')
    if tag.split('-')[-1] in ('copy', 'rawcopy', 'nearmiss'):
        pairs = sorted(pairs, key=lambda fg: fsize(fg[0]) + fsize(fg[1]))   # the smallest failing case is recorded first
    cmds = []
    for f, g in pairs:
        cmds.append(['eq', [L, fsx(f)], [L, fsx(g)]])
        cmds.append(['eq', [L, fsx(g)], [L, fsx(f)]])
    outs = model_batch_parallel(cmds) if model else None
    for i, (f, g) in enumerate(pairs):
        R.evaluations += 1
        same = (f == g)
        m_fg, m_gf = (outs[2 * i] == '1', outs[2 * i + 1] == '1') if model else (None, None)
        if model and (m_fg != same or m_gf != same):
            raise RuntimeError('C11 machinery: model eq_obj disagrees with tree equality on good formulas (contradicts C11_eq_iff_tree): %s %s %s' % (L, fstr(f), fstr(g)))
        obs = impl_pair(L, f, L, g, raw=raw)
        exp = expected_pair(same)
        if raw:
            exp['raw_built_tree'] = g
        diff = [k for k in exp if obs[k] != exp[k]]
        if same and obs['hash_equal'] is not True:
            diff.append('hash_equal')
        if diff:
            J.bad('equality / hashing of two %s formulas is not coherent with tree equality: %s' % (L, ','.join(diff)),
                  {'kind': 'pair', 'lang': L, 'f': f, 'g': g, 'f_str': fstr(f), 'g_str': fstr(g), 'same_tree': same,
                   'impl': obs, 'model_eq': [m_fg, m_gf], 'expected': exp, 'differs': diff, 'g_built_from_raw_operands': raw,
                   'model_free': not model})
            continue
        R.count('pairs_%s_%s' % (tag, 'equal' if same else 'unequal'))
        if not same and obs['hash_equal'] is True:
            R.count('hash_collisions_of_unequal_formulas(permitted)')
        if same and fheight(f) >= 1:
            R.nontriv(('pair-eq', L, f))
        elif tag.endswith('nearmiss'):
            R.nontriv(('pair-near', L, f, g))
            if tag == 'nearmiss' and fheight(f) >= 2 and R.cov.get('samples_' + L, 0) < 2:
                R.count('samples_' + L)
                R.sample({'logic': L, 'f': fstr(f), 'g': fstr(g), 'f == g': obs['eq_fg'], 'len({f,g})': obs['set_len']}, limit=8)


def check_triples(R, J, L, triples):
    for (f, g, h) in triples:
        R.evaluations += 1
        M = lang_module(L)
        a, b, c = build(f, M), build(g, M), build(h, M)
        r = {'f==g': call(lambda: a == b)[1], 'g==h': call(lambda: b == c)[1], 'f==h': call(lambda: a == c)[1],
             'g==f': call(lambda: b == a)[1], 'h==g': call(lambda: c == b)[1], 'h==f': call(lambda: c == a)[1],
             'f==f': call(lambda: a == a)[1], 'set': call(lambda: len({a, b, c}))[1]}
        exp = {'f==g': f == g, 'g==h': g == h, 'f==h': f == h, 'g==f': f == g, 'h==g': g == h, 'h==f': f == h, 'f==f': True,
               'set': len({f, g, h})}
        bad = [k for k in exp if r[k] != exp[k]]
        if r['f==g'] is True and r['g==h'] is True and r['f==h'] is not True:
            bad.append('transitivity')
        if r['f==g'] != r['g==f'] or r['g==h'] != r['h==g'] or r['f==h'] != r['h==f']:
            bad.append('symmetry')
        if bad:
            J.bad('== is not an equivalence coherent with tree equality on a triple of %s formulas: %s' % (L, ','.join(bad)),
                  {'kind': 'triple', 'lang': L, 'f': f, 'g': g, 'h': h, 'impl': r, 'expected': exp, 'differs': bad})
        else:
            R.count('triples')
            if len({f, g, h}) < 3:
                R.nontriv(('triple', L, f, g, h))


def check_clones(R, J, items):
    for (L, f) in sorted(items, key=lambda it: fsize(it[1])):
        R.evaluations += 1
        raw = (R.evaluations % 2 == 0) and f[0] not in ('true', 'false', 'ap')
        try:
            obs = impl_clone(L, f, raw=raw)
        except Exception as e:  # noqa  (an observer that raises is an observation: on a correct library none of the steps can fail)
            obs = {'clone': ['the clone / edit protocol raised', '%s: %s' % (type(e).__name__, ' '.join(str(e).split())[:160])]}
        exp = clone_expected(L, f)
        if obs != exp:
            diff = [k for k in exp if obs.get(k) != exp[k]]
            real = any(k in diff for k in ('clone', 'tree', 'langs', 'same_classes', 'eq', 'is_new_object',
                                            'mutation_through_clone_reaches_original', 'mutation_of_original_reaches_clone',
                                            'edited_formula_incoherent', 'second_clone'))
            J.bad(('a formula edited after being hashed is ==, but does not hash/collide like, a fresh formula with the same tree'
                   if diff == ['edited_formula_incoherent'] else 'clone() is not an equal, independent copy: %s' % ','.join(diff)),
                  {'kind': 'clone', 'lang': L, 'tree': f, 'tree_str': fstr(f), 'built_from_raw_operands': raw, 'impl': obs, 'expected': exp, 'differs': diff},
                  no_input=not real)
        else:
            R.count('clones')
            if fheight(f) >= 1:
                R.nontriv(('clone', L, f))


def _some(rng, xs, n):
    return rng.sample(xs, min(len(xs), n))


def run(R):
    rng = R.rng
    J = Judge(R)
    T = {}
    t_last = [time.time()]

    def mark(name):
        T[name] = round(T.get(name, 0) + time.time() - t_last[0], 1)
        t_last[0] = time.time()
    R.rule = ('formulas of ONE logic (PL / CTL* / CTL state+path / LTL path+A-formulas) over the identifier, non-reserved atoms '
              + ', '.join(ATOMS) + ' and true/false: all ordered pairs of the depth <= 1 enumeration over {p, AX, True, False, true, false} (quick) resp. of the depth <= 2 '
              'enumeration over {AX, true} (thorough, worker processes), sampled pairs of the depth <= 2 enumeration and of random formulas of depth <= 5 with '
              'ternary and/or, each formula also paired with a separately built copy, with a copy built from RAW str/bool operands and the &,|,~ operators, and with a one-edit near miss (atom renamed, operands swapped, '
              'operator swapped, (a or b or c) regrouped, operand duplicated); triples = {f, copy, near miss} permutations; every formula printed (str, repr) '
              'against the model printer in every module that can hold it; every formula cloned, id walk + mutation of every node, then cloned a '
              'second time (new object, original tree, nothing shared with the first clone); every formula hashed and then edited in place by each of: '
              'atom renamed, wrap_subformulas (operands reversed), leaf operand overwritten in / operand appended to the live list returned by '
              'subformulas() -> the edited object, its clone() and a fresh formula of its current tree are ==, hash alike and are one set/dict key, a fresh '
              'formula of the former tree is not; MODEL-FREE (tree equality) stream over non-ASCII identifier atoms and ASCII look-alikes ('
              + ', '.join(UATOMS) + '): all ordered atom pairs bare and under one operator, random formulas of depth <= 4 with at least one non-ASCII atom: '
              'random pairs, copies, raw copies, near misses, two-atom exchanges, triples, clones, all as keys of one dict; life-cycle scripts of 4-9 steps '
              '(clone, clone of a subformula, rename, slot overwrite / append / pop through subformulas(), wrap_subformulas with permuted operands; every edit keeps the '
              'formula in its logic) over a heap of <= %d objects grown from one formula of height 1-3 (half start with two clones of the same object), '
              'audited after every step: each object against a fresh build of its shadow tree (tree, ==, hash, set, dict) and of its former tree, all object pairs '
              '(== iff same shadow tree, hash, no shared node); ' % LIFE_HEAP +
              'non-trivial = equal pair of distinct objects of height >= 1, near-miss pair, triple with a repeated tree, clone of height >= 1, CTL compact print, '
              'life-cycle script that ran to its end')
    small_leaves = [('ap', 'p'), ('ap', 'AX'), ('true',), ('false',), ('ap', 'True'), ('ap', 'False')]
    ap_leaves = [('ap', 'AX'), ('true',)]
    pool1 = {L: enum_logic(L, 1, small_leaves) for L in LANGS}
    enum2 = {L: enum_logic(L, 2, ap_leaves) for L in LANGS}
    R.cov['enumeration_sizes'] = {'depth<=1 over {p,AX,True,False,true,false}': {L: len(v) for L, v in pool1.items()},
                                  'depth<=2 over {AX,true}': {L: len(v) for L, v in enum2.items()}}
    for L in LANGS:
        assert all(pymember(L, f) for f in pool1[L]) and all(pymember(L, f) for f in enum2[L])

    # random formulas with the full atom set, ternary and/or, depth <= 5
    nrand = 6000 if R.thorough else 500
    rand = {L: [] for L in LANGS}
    for L in LANGS:
        seen = set()
        while len(rand[L]) < nrand:
            f = rand_of(rng, L, rng.randint(1, 5))
            if f not in seen and pymember(L, f):
                seen.add(f)
                rand[L].append(f)
    R.cov['random_formula_heights'] = {L: dict(collections.Counter(fheight(f) for f in rand[L])) for L in LANGS}

    # ---- print: every generated formula, every module ------------------------------------
    printed = []
    for L in LANGS:
        printed += [(L, f) for f in pool1[L]] + [(L, f) for f in (enum2[L] if R.thorough else rng.sample(enum2[L], min(len(enum2[L]), 1200)))] \
            + [(L, f) for f in rand[L]]
    table = check_prints(R, J, printed)
    # the model printer must be injective on the formulas of one logic (C11_print_injective): machinery check
    for L in LANGS:
        inv = {}
        for (M, f), s in table.items():
            if M == L and pymember(L, f):
                if s in inv and inv[s] != f:
                    raise RuntimeError('C11 machinery: model printer not injective on %s: %s / %s' % (L, fstr(f), fstr(inv[s])))
                inv[s] = f

    mark('generate+print')
    # ---- pairs ---------------------------------------------------------------------------
    for L in LANGS:
        P = pool1[L]
        # (a) all ordered pairs of the small pool (incl. the diagonal, with separately built objects)
        check_pairs(R, J, L, [(f, g) for f in P for g in P], 'pool')
        # (b) sampled pairs of the depth <= 2 enumeration and of the random formulas
        E = enum2[L]
        npairs = 20000 if R.thorough else 700
        check_pairs(R, J, L, [(rng.choice(E), rng.choice(E)) for _ in range(npairs)], 'enum2')
        check_pairs(R, J, L, [(rng.choice(rand[L]), rng.choice(rand[L])) for _ in range(npairs)], 'random')
        # (c) copies and near misses
        src = rand[L] + (E if R.thorough else rng.sample(E, min(len(E), 400)))
        check_pairs(R, J, L, [(f, f) for f in src], 'copy')
        check_pairs(R, J, L, [(f, f) for f in src if fheight(f) >= 1], 'rawcopy')
        nm = []
        for f in src:
            g = near_miss(rng, f, L)
            if g is not None:
                nm.append((f, g))
        check_pairs(R, J, L, nm, 'nearmiss')
        # (d) triples
        triples = []
        for (f, g) in rng.sample(nm, min(len(nm), 3000 if R.thorough else 250)):
            triples += [(f, f, g), (f, g, f), (g, f, f), (f, f, f), (f, g, rng.choice(src))]
        check_triples(R, J, L, triples)
        # (e) global: the whole enumeration as keys of one set / dict
        R.evaluations += 1
        M = lang_module(L)
        A, B = [build(f, M) for f in E], [build(f, M) for f in E]
        d = {o: i for i, o in enumerate(A)}
        g_ok = len(set(A + B)) == len(E) and len(d) == len(E) and all(d.get(o) == i for i, o in enumerate(B)) \
            and all(hash(a) == hash(b) for a, b in zip(A, B))
        if not g_ok:
            badi = [i for i, o in enumerate(B) if d.get(o) != i][:3]
            J.bad('the depth <= 2 enumeration of %s does not behave as %d distinct keys of a set / dict' % (L, len(E)),
                  {'kind': 'keys', 'lang': L, 'set_size': len(set(A + B)), 'expected': len(E), 'first_wrong': [E[i] for i in badi]})
        else:
            R.count('global_set_dict_checks')

    mark('pairs+triples')
    # ---- Bool against python bool --------------------------------------------------------
    cmds = [['eqbool', [L, fsx(('true',) if b else ('false',))], b2] for L in LANGS for b in (True, False) for b2 in (True, False)]
    outs = model_batch(cmds)
    k = 0
    for L in LANGS:
        for b in (True, False):
            for b2 in (True, False):
                R.evaluations += 1
                m = outs[k] == '1'
                k += 1
                if m != (b == b2):
                    raise RuntimeError('C11 machinery: eqbool contradicts C11_bool')
                o = lang_module(L).Bool(b)
                obs = {'Bool==bool': call(lambda: o == b2)[1], 'bool==Bool': call(lambda: b2 == o)[1],
                       'Bool!=bool': call(lambda: o != b2)[1], 'bool!=Bool': call(lambda: b2 != o)[1]}
                exp = {'Bool==bool': m, 'bool==Bool': m, 'Bool!=bool': not m, 'bool!=Bool': not m}
                if obs != exp:
                    J.bad('%s.Bool(%s) against the python bool %s' % (L, b, b2), {'kind': 'bool', 'lang': L, 'b': b, 'pybool': b2, 'impl': obs, 'expected': exp})
                else:
                    R.nontriv(('bool', L, b, b2))
    # other formulas against python booleans (outside the property: model = printed form against 'True'/'False')
    others = [(L, f) for L in LANGS for f in pool1[L][:12] if f[0] not in ('true', 'false')] + [(L, ('ap', 'True')) for L in LANGS]
    outs = model_batch([['eqbool', [L, fsx(f)], b2] for (L, f) in others for b2 in (True, False)])
    k = 0
    for (L, f) in others:
        for b2 in (True, False):
            m = outs[k] == '1'
            k += 1
            o = build(f, lang_module(L))
            if (call(lambda: o == b2)[1], call(lambda: b2 == o)[1]) != (m, m):
                J.bad('non-Bool formula against a python bool differs from the model (outside the property)',
                      {'kind': 'formula-vs-bool', 'lang': L, 'tree': f, 'pybool': b2, 'model': m}, no_input=True)
            R.count('informational_formula_vs_pybool')

    mark('bool')
    # ---- clone ---------------------------------------------------------------------------
    citems = []
    for L in LANGS:
        citems += [(L, f) for f in pool1[L]] + [(L, f) for f in rand[L]] + \
            [(L, f) for f in (enum2[L] if R.thorough else rng.sample(enum2[L], min(len(enum2[L]), 500)))]
    check_clones(R, J, citems)

    mark('clone')
    # ---- all ordered pairs of the depth <= 2 enumeration (thorough) ---------------------
    if R.thorough:
        jobs = min(16, os.cpu_count() or 4)
        ap = {}
        for L in LANGS:
            evals, bad, hcoll = all_pairs(L, enum2[L], jobs)
            R.evaluations += evals
            ap[L] = {'formulas': len(enum2[L]), 'ordered_pairs': evals, 'hash_collisions_of_unequal': hcoll}
            for (i, j) in bad[:5]:
                f, g = enum2[L][i], enum2[L][j]
                J.bad('all-pairs: f == g disagrees with tree equality',
                      {'kind': 'pair', 'lang': L, 'f': f, 'g': g, 'f_str': fstr(f), 'g_str': fstr(g), 'same_tree': f == g})
            J.total_bad += max(0, len(bad) - 5)
        R.cov['all_pairs_depth2'] = ap

    mark('all-pairs')
    # ---- across languages: informational only -------------------------------------------
    across = collections.Counter()
    xs = []
    for L in LANGS:
        for f in rng.sample(pool1[L], 12) + rng.sample(rand[L], 60 if R.thorough else 15):
            for M in LANGS:
                if M != L and pymember(M, f):
                    xs.append((L, f, M, f))
                    g = near_miss(rng, f, M)
                    if g is not None:
                        xs.append((L, f, M, g))
    outs = model_batch_parallel([['eq', [L, fsx(f)], [M, fsx(g)]] for (L, f, M, g) in xs])
    for (L, f, M, g), o in zip(xs, outs):
        obs = impl_pair(L, f, M, g)
        across['pairs'] += 1
        across['same_tree'] += f == g
        across['impl_equal'] += obs['eq_fg'] is True
        across['impl_agrees_with_model'] += (obs['eq_fg'] is True) == (o == '1')
        across['same_tree_but_unequal(CTL compact notation)'] += (f == g and obs['eq_fg'] is not True)
    R.cov['across_languages_informational'] = dict(across)
    mark('across')
    # ---- non-ASCII identifier atoms: model-free (tree equality), pairs / triples / clones ---
    uleaves = [('ap', a) for a in UATOMS]
    for L in LANGS:
        M = lang_module(L)
        # all ordered pairs of the atoms themselves and of one operator over them
        op1 = 'not' if L == 'PL' else 'X'
        check_pairs(R, J, L, [(f, g) for f in uleaves for g in uleaves], 'u-atoms', model=False)
        check_pairs(R, J, L, [((op1, f), (op1, g)) for f in uleaves for g in uleaves], 'u-atoms', model=False)
        urand, seen = [], set()
        while len(urand) < (1500 if R.thorough else 150):
            f = rand_of(rng, L, rng.randint(1, 4), UATOMS)
            if f not in seen and pymember(L, f) and any(not a.isascii() for a in atoms_of(f)):
                seen.add(f)
                urand.append(f)
        rand['u' + L] = urand
        check_pairs(R, J, L, [(rng.choice(urand), rng.choice(urand)) for _ in range(len(urand))], 'u-random', model=False)
        check_pairs(R, J, L, [(f, f) for f in urand], 'u-copy', model=False)
        check_pairs(R, J, L, [(f, f) for f in urand if fheight(f) >= 1], 'u-rawcopy', model=False)
        nm = []
        for f in urand:
            # near misses: one edit, and the same formula with two of its atoms exchanged / one atom replaced by a look-alike
            g = near_miss(rng, f, L, UATOMS)
            if g is not None:
                nm.append((f, g))
            ats = sorted(atoms_of(f))
            a = rng.choice(ats)
            b = rng.choice([x for x in UATOMS if x != a])
            g = rename_atoms(f, {a: b, b: a})
            if g != f:
                nm.append((f, g))
        check_pairs(R, J, L, nm, 'u-nearmiss', model=False)
        triples = []
        for (f, g) in rng.sample(nm, min(len(nm), 60)):
            triples += [(f, f, g), (f, g, f), (g, f, f), (f, g, rng.choice(urand))]
        check_triples(R, J, L, triples)
        check_clones(R, J, [(L, f) for f in uleaves[:8] + urand[:80 if not R.thorough else 600]])
        # the formulas as keys of one dict
        R.evaluations += 1
        A, B = [build(f, M) for f in urand], [build(f, M) for f in urand]
        d = {o: i for i, o in enumerate(A)}
        if not (len(set(A + B)) == len(urand) and len(d) == len(urand) and all(d.get(o) == i for i, o in enumerate(B))):
            badi = [i for i, o in enumerate(B) if d.get(o) != i][:3]
            J.bad('formulas over non-ASCII identifier atoms of %s do not behave as %d distinct keys of a set / dict' % (L, len(urand)),
                  {'kind': 'keys', 'lang': L, 'set_size': len(set(A + B)), 'expected': len(urand), 'first_wrong': [urand[i] for i in badi]})
        else:
            R.count('global_set_dict_checks')
    R.cov['non_ascii_atoms'] = list(UATOMS)
    mark('non-ascii')
    # ---- life cycles: clone / edit scripts over a small heap of objects ------------------
    lives = []
    for L in LANGS:
        small = [f for f in pool1[L] if fheight(f) >= 1]
        src = rng.sample(small, min(len(small), 60 if R.thorough else 25)) + _some(rng, [f for f in rand[L] if 1 <= fheight(f) <= 3], 1500 if R.thorough else 150)
        for n, f in enumerate(src):
            # half of the scripts start by cloning the same object twice (then edits and further clones of originals and clones)
            lives.append((L, f, gen_life(rng, L, f, rng.randint(4, 9), ATOMS, prefix=(('clone', 0), ('clone', 0)) if n % 2 else ())))
        for f in _some(rng, [f for f in rand['u' + L] if 1 <= fheight(f) <= 3], 400 if R.thorough else 40):
            lives.append((L, f, gen_life(rng, L, f, rng.randint(4, 9), UATOMS)))
    check_lives(R, J, lives, 'script')
    R.cov['life_edits_without_effect(subformulas() not live)'] = LIFE_INEFFECTIVE[0]
    R.cov['life_script_lengths'] = dict(collections.Counter(len(o) for (_, _, o) in lives))
    mark('lives')
    R.cov['section_wall_s'] = T
    for L in LANGS:
        R.cov.pop('samples_' + L, None)
    R.cov['disagreements_total'] = J.total_bad
    R.exhaustive = False


# ----------------------------------------------------------------------------------------
def replay(R, data):
    d = data['data']
    kind = d['kind']
    L = d.get('lang')
    print('case :', {k: v for k, v in d.items() if k not in ('impl', 'expected', 'model')})
    if kind == 'pair':
        f, g = detuple(d['f']), detuple(d['g'])
        raw = bool(d.get('g_built_from_raw_operands'))
        exp = expected_pair(f == g)
        if raw:
            exp['raw_built_tree'] = g
        for phase in range(3 if raw else 1):            # raw builds rotate between three leaf styles: replay all of them
            _RAWMODE[0] = phase
            obs = impl_pair(L, f, L, g, raw=raw)
            if any(obs[k] != exp[k] for k in exp):
                break
        print('impl :', obs)
        if d.get('model_free'):
            print('model: - (atoms outside the model\'s `good` predicate: judged by tree equality alone)  tree equality:', f == g)
        else:
            m = model_batch([['eq', [L, fsx(f)], [L, fsx(g)]], ['eq', [L, fsx(g)], [L, fsx(f)]], ['print', L, fsx(f)], ['print', L, fsx(g)]])
            print('model: eq', m[0], m[1], 'print', repr(str(m[2])), repr(str(m[3])), ' tree equality:', f == g)
        if any(obs[k] != exp[k] for k in exp) or (f == g and obs['hash_equal'] is not True):
            R.violation('replayed', d)
    elif kind == 'triple':
        J = Judge(R)
        check_triples(R, J, L, [(detuple(d['f']), detuple(d['g']), detuple(d['h']))])
        print('violations:', len(R.violations))
    elif kind == 'print':
        f = detuple(d['tree'])
        s = call(lambda: str(build(f, lang_module(L))))
        m = str(model_batch([['print', L, fsx(f)]])[0])
        print('impl :', s)
        print('model:', repr(m))
        if s != ('ok', m):
            R.violation('replayed', d)
    elif kind == 'clone':
        f = detuple(d['tree'])
        obs = impl_clone(L, f, raw=bool(d.get('built_from_raw_operands')))
        exp = clone_expected(L, f)
        print('impl    :', obs)
        print('expected:', exp)
        if obs != exp:
            R.violation('replayed', d)
    elif kind == 'life':
        f, ops = detuple(d['tree']), detuple(d['ops'])
        res, steps = impl_life(L, f, ops, raw=bool(d.get('built_from_raw_operands')))
        print('script  :', ops)
        print('impl    :', res if res is not None else 'every object behaves as the formula of its current tree after each of the %d steps' % steps)
        print('expected: every object behaves as the formula of its current tree after each step (model-free: tree equality)')
        if res is not None:
            R.violation('replayed', d)
    elif kind == 'bool':
        o = lang_module(L).Bool(d['b'])
        b2 = d['pybool']
        obs = (call(lambda: o == b2)[1], call(lambda: b2 == o)[1])
        m = model_batch([['eqbool', [L, fsx(('true',) if d['b'] else ('false',))], b2]])[0] == '1'
        print('impl :', obs, ' model:', m)
        if obs != (m, m):
            R.violation('replayed', d)
    else:
        print('re-run the check for this kind of case')
