"""C11 - formula equality, hashing and cloning are coherent.

Theorems (Properties/C11.v): C11_eq_iff_tree, C11_refl, C11_sym, C11_trans, C11_hash, C11_hash_inj, C11_bool,
C11_print_injective (+ C11_reserved_refuted: why reserved-word atoms are scoped out).

Correspondence, within ONE logic and over identifier atoms that are not reserved words:
  pairs   - f == g and g == f (separately built objects) vs tree equality (tree_of) and vs the model's (eq o o');
            hash(f) == hash(g) when equal; len({f, g}); dict lookup with an equal-but-distinct key
  triples - reflexivity / symmetry / transitivity on triples made of copies and near misses
  bool    - L.Bool(b) == b' and b' == L.Bool(b) for python booleans vs (eqbool o b')
  print   - str(f) vs the model's (print L f), character by character, for EVERY generated formula in every language
            module that can hold it (CTL's compact notation included); this string is also the hash key
  clone   - equal tree, same classes, same language; runtime-only (monitored, the tree model has no heap): no node
            object shared between original and clone (id walk over ALL nodes, leaves and operand lists included) and the
            real criterion "no mutable node shared": every node of the clone is mutated (leaf attribute / operand slot)
            and the original must keep its tree, and the other way round; a SECOND clone of the same original, taken after the
            first one was edited all over, is again a new object with the original's tree sharing nothing with the first;
            a formula that was hashed and is then edited through the public surface (atom `name`, wrap_subformulas, the live
            list returned by subformulas(): slot overwritten, operand appended) must be ==, hash like and collide with a fresh
            formula of its CURRENT tree, its clone() must be equal to it, and a fresh formula of its FORMER tree must not be
  non-ASCII - identifier atoms such as 'tür' / 'tör' / 'tur' (UATOMS; outside the model's `good` predicate, so judged by tree
            equality alone): all ordered pairs of the atoms and of one operator over them, random formulas with copies,
            raw copies, near misses and atom exchanges, triples, clones, one dict of all of them
  lives   - scripts of clone / clone-of-a-subformula / public in-place edits over a small heap of objects that starts with one
            formula (half of them begin by cloning the same object twice; clones of clones, clones after edits of the
            original and of earlier clones); after EVERY step every object must be the formula of the tree its history gives
            it (tree, ==, hash, set/dict against a fresh build; != a fresh build of its former tree), two objects are ==
            exactly when their trees are, and no two objects share a node
            edits go through the `name` of an atom, wrap_subformulas() and the live list of subformulas() with [k]=, [:]=, append, pop, reverse,
            sort, +=, extend, insert, del, remove, clear; the comparison partners of an edited object (current and former tree) are built
            and hashed BEFORE the edit, every object is hashed again after that, and nothing is constructed between the edit and the first
            comparisons; the clone of every edited object is compared with it
  fresh / parsed - the second object of a pair holds its atom names in str objects of its OWN (equal strings, other objects: names
            computed at run time) / is read back from its printed form by the module's Parser (kept when that gives the same tree)
  normal forms - the non-ASCII atoms include strings that differ but have one NFC / NFD / NFKC / NFKD / case-folded / width-folded form
  shared  - ONE node object (an atom or a small formula) is an operand of 2-3 formulas (once or twice in each), everything is hashed, the
            node is edited in place (all the edit kinds above): the node and EVERY formula it stands in must be the formula of its current
            tree (same audit as `lives`, partners built before the edit included)
  all-pairs (thorough) - every ordered pair of the depth <= 2 enumeration of each logic through ==, in worker processes
Across-language pairs are informational coverage only (the property is within one logic)."""
from common import *
from props_c08 import pymember, build, detuple, LANGS
import collections, multiprocessing

LEVEL = 'proof'
ATOMS = ('p', 'q', 'Ab', 'AX', 'orb', 'true_', '_x1', 'True', 'False')   # True/False: Python's spellings are NOT reserved words of the logics
# non-ASCII identifier atoms (str.isidentifier(), not reserved words) next to their ASCII look-alikes: 'replace' / 'ignore' /
# transliterating / case-folding treatments of the name merge some of them.  The model's `good` predicate covers ASCII
# identifiers only, so formulas over these atoms are judged by tree equality alone (model-free).
UATOMS = tuple(a for a in ('t\u00fcr', 't\u00f6r', 'tur', 'tr', 't_r', 'tuer', '\u00e9', '\u00e8', 'e', '\u00c4', '\u00e4', 'B', 'b', '\u00df', 'ss',
                           '\u03b1', '\u03b2', '\u03b1\u03b2', '\u0434\u0430', '\u0434\u043e', '\u65e5\u672c', '\u65e5\u672c\u8a9e', '\u00f1', 'n', '_\u00fc', '_\u00f6', 'p')
               if a.isidentifier() and a not in ('A', 'E', 'X', 'F', 'G', 'U', 'R', 'not', 'or', 'and', 'true', 'false'))
# identifier atoms that are DIFFERENT strings but are merged by a unicode normal form (NFC / NFD / NFKC / NFKD), by case folding or by
# width / compatibility mappings: composed next to decomposed accents, ligatures, micro sign / mu, feminine ordinal, long s, Angstrom
# sign / A with ring, full-width letters, digraph letters ... plus every normal form of the atoms above that is a different identifier
import unicodedata as _ud
_UNORM = ('e\u0301', 'e\u0300', 'tu\u0308r', '\ufb01n', 'fin', '\u00b5', '\u03bc', 'x\u00aa', 'xa', '\u017ft', 'st', '\u212b', '\u00c5', 'A\u030a',
          '\uff50', '\uff21X', '\u01c6', 'd\u017e', '\u2126', '\u03a9', '\u03c9', 'K', '\u212a', 'k', 'n\u0303')
UATOMS_BASE = len(UATOMS)
UATOMS = UATOMS + tuple(a for a in dict.fromkeys(_UNORM + tuple(_ud.normalize(nf, a) for a in UATOMS for nf in ('NFD', 'NFKD', 'NFC', 'NFKC')))
                        if a.isidentifier() and a not in UATOMS and a not in ('A', 'E', 'X', 'F', 'G', 'U', 'R', 'not', 'or', 'and', 'true', 'false'))
MAXV = 40
LOGIC_OPS = ('not', 'or', 'and', 'imp')


# ----------------------------------------------------------------------------------------
# enumerations of the four logics
# ----------------------------------------------------------------------------------------
def enum_logic(L, depth, leaves):
    """all formulas of logic L (objects of module L) with operator nesting <= depth, or/and binary"""
    if L == 'PL':
        return all_trees(depth, leaves, ('not',), ('imp',), NARY)
    if L == 'CTLS':
        return all_trees(depth, leaves, UNARY, BINARY, NARY)
    if L == 'LTL':
        paths = all_trees(depth, leaves, ('not', 'X', 'F', 'G'), BINARY, NARY)
        return paths + [('A', g) for g in paths if fheight(g) < depth]
    # CTL: state formulas, and path formulas (one temporal operator over state formulas)
    return [f for f in all_trees(depth, leaves, UNARY, BINARY, NARY) if pymember('CTL', f)]


def rand_of(rng, L, d, ATOMS=ATOMS):
    if L == 'PL':
        return rand_pl(rng, d, ATOMS)
    if L == 'CTLS':
        return rand_path(rng, d, ATOMS, quant=True)
    if L == 'LTL':
        return ('A', rand_path(rng, d - 1, ATOMS)) if rng.random() < 0.4 else rand_path(rng, d, ATOMS)
    if rng.random() < 0.25:
        o = rng.choice(TEMPORAL)
        return (o,) + tuple(rand_ctl(rng, d - 1, ATOMS) for _ in range(1 if o in 'XFG' else 2))
    return rand_ctl(rng, d, ATOMS)


def positions(f, path=()):
    yield path, f
    if f[0] not in ('true', 'false', 'ap'):
        for i, g in enumerate(f[1:]):
            yield from positions(g, path + (i,))


def replace_at(f, path, new):
    if not path:
        return new
    i = path[0]
    return f[:i + 1] + (replace_at(f[i + 1], path[1:], new),) + f[i + 2:]


def atoms_of(f):
    return {g[1] for _, g in positions(f) if g[0] == 'ap'}


def rename_atoms(f, ren):
    if f[0] == 'ap':
        return ('ap', ren.get(f[1], f[1]))
    if f[0] in ('true', 'false'):
        return f
    return (f[0],) + tuple(rename_atoms(g, ren) for g in f[1:])


SWAP = {'or': 'and', 'and': 'or', 'U': 'R', 'R': 'U', 'X': 'F', 'F': 'G', 'G': 'X', 'A': 'E', 'E': 'A'}


def near_miss(rng, f, L, ATOMS=ATOMS):
    """a formula of the same logic that differs from f by one small edit (or None)"""
    pos = list(positions(f))
    for _ in range(8):
        path, g = rng.choice(pos)
        t = g[0]
        kind = rng.randrange(5)
        if t == 'ap':
            new = ('ap', rng.choice([a for a in ATOMS if a != g[1]])) if kind else ('true',)
        elif t in ('true', 'false'):
            new = ('false',) if t == 'true' else (('true',) if kind else ('ap', 'true_'))
        elif kind == 0 and t in SWAP:
            new = (SWAP[t],) + g[1:]
        elif kind == 1 and len(g) >= 3:
            new = (t,) + tuple(reversed(g[1:]))
        elif kind == 2 and t in NARY and len(g) == 4:
            new = (t, (t, g[1], g[2]), g[3])           # (a or b or c) vs ((a or b) or c)
        elif kind == 2 and t in NARY and len(g) == 3 and g[1][0] == t and len(g[1]) == 3:
            new = (t, g[1][1], g[1][2], g[2])          # ((a or b) or c) vs (a or b or c)
        elif kind == 3 and t in NARY and len(g) == 3:
            new = (t, g[1], g[2], g[2])
        elif kind == 4 and t == 'not':
            new = g[1]
        else:
            new = ('not', g) if t in LOGIC_OPS + ('ap',) else g[1]
        h = replace_at(f, path, new)
        if h != f and pymember(L, h):
            return h
    return None


# ----------------------------------------------------------------------------------------
# observations
# ----------------------------------------------------------------------------------------
def nodes_of(o, acc=None):
    """every node object of a formula (preorder), leaves included"""
    if acc is None:
        acc = []
    acc.append(o)
    if type(o).__name__ not in ('Bool', 'AtomicProposition'):
        for c in o._subformula:
            nodes_of(c, acc)
    return acc


def is_leaf(o):
    return type(o).__name__ in ('Bool', 'AtomicProposition')


_RAWMODE = [0]


def build_raw(f, L):
    """same tree, but leaf operands are handed to the operators as raw python str / bool (and/or/not also through the
    &, |, ~ operators when the left operand is an object)"""
    t = f[0]
    if t in ('true', 'false', 'ap'):
        return build(f, L)
    _RAWMODE[0] += 1
    if _RAWMODE[0] % 3 == 0 and L.__name__.split('.')[-1] != 'PL':
        # leaves handed over as objects of ANOTHER language module (PL): the operators cast them; a constant false must stay the constant
        PLm = lang_module('PL')
        kids = [(PLm.AtomicProposition(g[1]) if g[0] == 'ap' else PLm.Bool(g[0] == 'true')) if g[0] in ('true', 'false', 'ap') else build_raw(g, L)
                for g in f[1:]]
        return getattr(L, PYNAME[t])(*kids)
    kids = [(g[1] if g[0] == 'ap' else g[0] == 'true') if g[0] in ('true', 'false', 'ap') else build_raw(g, L) for g in f[1:]]
    if t == 'not' and not isinstance(kids[0], (str, bool)):
        return ~kids[0]
    if t in ('or', 'and') and len(kids) == 2 and not isinstance(kids[0], (str, bool)):
        return (kids[0] | kids[1]) if t == 'or' else (kids[0] & kids[1])
    return getattr(L, PYNAME[t])(*kids)


def fresh_str(s):
    """an equal str held in ANOTHER object (a name computed at run time, 'req%d' % i, or read from a file); the empty and the
    one-character latin-1 strings are singletons of the interpreter: those stay what they are"""
    return (s + '\0')[:-1]


def build_fresh(f, L):
    """same tree, every atom name held in a str object of its own (never the object the generator / another build holds)"""
    t = f[0]
    if t == 'ap':
        return L.AtomicProposition(fresh_str(f[1]))
    if t in ('true', 'false'):
        return build(f, L)
    return getattr(L, PYNAME[t])(*[build_fresh(g, L) for g in f[1:]])


_PARSERS = {}
PARSED_SKIPPED = [0]


def build_parsed(f, L):
    """through the text channel: the printed form of a separately built object is read back by the module's Parser; None unless that
    gives an object of module L with the tree f (what the parser accepts / returns is the business of other properties)"""
    Ln = L.__name__.split('.')[-1]
    if Ln not in _PARSERS:
        _PARSERS[Ln] = call(lambda: L.Parser())
    if _PARSERS[Ln][0] != 'ok':
        return None
    r = call(lambda: _PARSERS[Ln][1](str(build(f, L))))
    if r[0] != 'ok' or call(lambda: (tree_of(r[1]), langs_in(r[1]))) != ('ok', (f, {Ln})):
        return None
    return r[1]


def impl_pair(Lf, f, Lg, g, raw=False):
    """raw: False | True (raw str / bool operands) | 'fresh' (atom names in str objects of their own) | 'parsed' (g read back from text;
    -> None when the parser does not give the tree g)"""
    # 'fresh' / 'parsed': the first object's names are held in str objects of their own too (so that a replay, whose trees come out of a
    # json file, sees the very same aliasing of name objects as the run did)
    fo = build_fresh(f, lang_module(Lf)) if raw in ('fresh', 'parsed') else build(f, lang_module(Lf))
    if raw == 'parsed':
        go = build_parsed(g, lang_module(Lg))
        if go is None:
            return None
    elif raw == 'fresh':
        go = build_fresh(g, lang_module(Lg))
    else:
        go = build_raw(g, lang_module(Lg)) if raw else build(g, lang_module(Lg))
    obs = {}
    obs['eq_fg'] = call(lambda: fo == go)
    obs['eq_gf'] = call(lambda: go == fo)
    obs['ne_fg'] = call(lambda: fo != go)
    obs['hash_equal'] = call(lambda: hash(fo) == hash(go))
    obs['set_len'] = call(lambda: len({fo, go}))
    obs['dict_hit'] = call(lambda: {fo: 1}.get(go, 0) == 1)
    obs['in_list'] = call(lambda: go in [fo])
    if raw:
        obs['raw_built_tree'] = call(lambda: tree_of(go))
    if raw == 'fresh':
        obs['names_held_in_distinct_objects'] = call(lambda: _distinct_names(fo, go))
    return {k: (list(v) if v[0] == 'err' else v[1]) for k, v in obs.items()}


def _distinct_names(fo, go):
    """machinery: the two builds of one multi-character atom name never hold ONE str object (else the stream tests nothing)"""
    a = {id(n.name): n.name for n in nodes_of(fo) if type(n).__name__ == 'AtomicProposition' and len(n.name) > 1}
    return not any(id(n.name) in a for n in nodes_of(go) if type(n).__name__ == 'AtomicProposition' and len(n.name) > 1)


def expected_pair(same):
    return {'eq_fg': same, 'eq_gf': same, 'ne_fg': not same, 'set_len': 1 if same else 2, 'dict_hit': same, 'in_list': same}


def mutate_node(n):
    """mutate a leaf in place (operator nodes are mutated by overwriting their operand slots)"""
    if type(n).__name__ == 'Bool':
        n._value = not n._value
    else:
        n.name = n.name + '_mutated'


def _marker(n):
    L = sys.modules[type(n).__module__]
    return L.AtomicProposition('zz_marker')


def impl_clone(Ln, f, raw=False):
    """-> observation dict of o.clone(); raw: the formula is built from raw python str / bool operands and the & | ~
    operators (same tree, another construction route: e.g. the `height` attribute of such nodes differs)"""
    L = lang_module(Ln)
    mk = build_raw if raw else build
    o = mk(f, L)
    s0 = str(o)
    r = call(lambda: o.clone())
    if r[0] == 'err':
        return {'clone': list(r)}
    c = r[1]
    obs = {'clone': 'ok'}
    try:
        obs['tree'] = tree_of(c)
        obs['langs'] = sorted(langs_in(c))
        no, nc = nodes_of(o), nodes_of(c)
    except Exception as e:  # noqa
        obs['clone'] = ['unreadable', type(e).__name__]
        return obs
    obs['same_classes'] = len(no) == len(nc) and all(type(a) is type(b) for a, b in zip(no, nc))
    obs['eq'] = [call(lambda: o == c)[1], call(lambda: c == o)[1], call(lambda: hash(o) == hash(c))[1]]
    obs['is_new_object'] = c is not o
    ids_o = {id(n) for n in no} | {id(n._subformula) for n in no if not is_leaf(n)}
    shared = [i for i, n in enumerate(nc) if id(n) in ids_o or (not is_leaf(n) and id(n._subformula) in ids_o)]
    obs['shared_node_positions'] = shared
    obs['shared_leaves_only'] = bool(shared) and all(is_leaf(nc[i]) for i in shared)
    # mutate every node of the clone (deepest first); the original must keep its tree and printed form
    leaked = []
    for i in range(len(nc) - 1, -1, -1):
        n = nc[i]
        if is_leaf(n):
            mutate_node(n)
            if tree_of(o) != f or str(o) != s0:
                leaked.append(i)
                return dict(obs, mutation_through_clone_reaches_original=leaked)
        else:
            for k in range(len(n._subformula)):
                n._subformula[k] = _marker(n)
                if tree_of(o) != f or str(o) != s0:
                    leaked.append(i)
                    return dict(obs, mutation_through_clone_reaches_original=leaked)
    obs['mutation_through_clone_reaches_original'] = leaked
    # a SECOND clone of the same original, taken after the first clone was edited all over: again a new object with the
    # original's tree, sharing nothing with the first clone (nor with the original)
    r2 = call(lambda: o.clone())
    if r2[0] != 'ok':
        obs['second_clone'] = list(r2)
    else:
        ids_c = {id(n) for n in nc} | {id(n._subformula) for n in nc if not is_leaf(n)} | ids_o
        n2c = nodes_of(r2[1])
        obs['second_clone'] = [r2[1] is not c and r2[1] is not o, call(lambda: tree_of(r2[1]))[1] == f,
                               not any(id(n) in ids_c or (not is_leaf(n) and id(n._subformula) in ids_c) for n in n2c),
                               call(lambda: r2[1] == o)[1], call(lambda: hash(r2[1]) == hash(o))[1]]
    # and the other way round on a fresh pair
    o2 = mk(f, L)
    c2 = o2.clone()
    back = []
    n2 = nodes_of(o2)
    for i in range(len(n2) - 1, -1, -1):
        n = n2[i]
        if is_leaf(n):
            mutate_node(n)
        else:
            for k in range(len(n._subformula)):
                n._subformula[k] = _marker(n)
        if tree_of(c2) != f:
            back.append(i)
            break
    obs['mutation_of_original_reaches_clone'] = back
    # a formula that was hashed / used as a key and is EDITED afterwards through the public surface (an atom's `name`,
    # wrap_subformulas) is still a formula: it must be == to, hash like and collide in sets/dicts with a freshly built
    # formula of its CURRENT tree (a hash remembered from before the edit would break this)
    inco = []
    for route in ('rename', 'wrap', 'slot', 'append'):
        o3 = build(f, L)
        hash(o3), {o3: 1}, str(o3)
        for n in nodes_of(o3):
            hash(n)
        want = None
        if route == 'rename':
            leaves = [n for n in nodes_of(o3) if type(n).__name__ == 'AtomicProposition']
            if not leaves:
                continue
            leaves[-1].name = leaves[-1].name + '_r'
        elif route in ('slot', 'append'):
            # through the live list that the public subformulas() returns: a leaf operand of the last operator node that has one
            # is overwritten by a new atom (leaf for leaf: the formula stays in its logic) / an operand is appended to an or / and
            ops_ = [(p_, g_) for p_, g_ in positions(f) if g_[0] not in ('true', 'false', 'ap')
                    and (any(x[0] in ('true', 'false', 'ap') for x in g_[1:]) if route == 'slot' else (g_[0] in NARY and len(g_) == 3))]
            if not ops_:
                continue
            p_, g_ = ops_[-1]
            n_ = o3
            for i_ in p_:
                n_ = n_.subformulas()[i_]
            if route == 'slot':
                k_ = max(k for k, x in enumerate(g_[1:]) if x[0] in ('true', 'false', 'ap'))
                n_.subformulas()[k_] = _marker(n_)
                want = replace_at(f, p_, g_[:k_ + 1] + (('ap', 'zz_marker'),) + g_[k_ + 2:])
            else:
                n_.subformulas().append(_marker(n_))
                want = replace_at(f, p_, g_ + (('ap', 'zz_marker'),))
        else:
            if is_leaf(o3) or len(o3._subformula) < 2:
                continue
            kids = list(o3.subformulas())
            want = (f[0],) + tuple(reversed(f[1:]))
            r3 = call(lambda: o3.wrap_subformulas(list(reversed(kids)), sys.modules[type(o3).__module__].Formula))
            if r3[0] != 'ok':
                continue
        t3 = tree_of(o3)
        if want is not None and t3 != want:
            inco.append([route, 'tree after the edit is not the requested one'])
            continue
        g3 = build(t3, L)
        co = [call(lambda: o3 == g3)[1], call(lambda: g3 == o3)[1], call(lambda: hash(o3) == hash(g3))[1],
              call(lambda: len({o3, g3}) == 1)[1], call(lambda: {g3: 1}.get(o3) == 1)[1], call(lambda: o3 in {g3})[1]]
        if co != [True] * 6:
            inco.append([route, co])
            continue
        # its clone is a formula of the CURRENT tree, equal to it; a fresh formula of the FORMER tree no longer is
        c3 = call(lambda: o3.clone())
        co = [c3[0]] if c3[0] != 'ok' else [call(lambda: tree_of(c3[1]))[1] == t3, call(lambda: c3[1] == o3)[1], call(lambda: o3 == c3[1])[1],
                                            call(lambda: hash(c3[1]) == hash(o3))[1]]
        if co != [True] * 4:
            inco.append([route, 'clone of the edited formula: has the current tree, clone == edited, edited == clone, hashes equal', co])
        if t3 != f:
            h3 = build(f, L)
            co = [call(lambda: o3 == h3)[1], call(lambda: h3 == o3)[1], call(lambda: len({o3, h3}))[1]]
            if co != [False, False, 2]:
                inco.append([route, 'against a fresh formula of the former tree: ==, reversed ==, len(set)', co])
    obs['edited_formula_incoherent'] = inco
    return obs


def clone_expected(Ln, f):
    return {'clone': 'ok', 'tree': f, 'langs': [Ln], 'same_classes': True, 'eq': [True, True, True], 'is_new_object': True,
            'shared_node_positions': [], 'shared_leaves_only': False, 'mutation_through_clone_reaches_original': [],
            'mutation_of_original_reaches_clone': [], 'edited_formula_incoherent': [], 'second_clone': [True] * 5}


# ----------------------------------------------------------------------------------------
# life cycles: a small heap of formula objects under clone / edit, audited after every step
# ----------------------------------------------------------------------------------------
LIFE_HEAP = 5
LIFE_INEFFECTIVE = [0]


def subtree(f, path):
    for i in path:
        f = f[i + 1]
    return f


def node_at(o, path):
    for i in path:
        o = o.subformulas()[i]
    return o


def small_of(rng, L, atoms):
    """a small formula that may stand as an operand somewhere in a formula of L (membership is checked by the caller)"""
    r = rng.random()
    if r < 0.45:
        return ('ap', rng.choice(atoms))
    if r < 0.6:
        return (rng.choice(('true', 'false')),)
    return rand_of(rng, L, rng.randint(1, 2), atoms)


LIST_KINDS = ('reverse', 'sort', 'iadd', 'extend', 'insert', 'del', 'remove', 'slice', 'refill')


def edit_tree(g, op):
    """the tree of a node (tree g) after the in-place edit op: the pure side of life_apply"""
    kind = op[0]
    if kind == 'rename':
        return ('ap', op[3])
    if kind == 'slot':
        return g[:op[3] + 1] + (op[4],) + g[op[3] + 2:]
    if kind in ('wrap', 'refill'):
        return (g[0],) + tuple(g[p + 1] for p in op[3])
    if kind in ('grow', 'iadd', 'extend'):
        return g + (op[3],)
    if kind == 'shrink':
        return g[:-1]
    if kind in ('reverse', 'slice'):
        return (g[0],) + tuple(reversed(g[1:]))
    if kind == 'sort':
        return (g[0],) + tuple(sorted(g[1:], key=repr))
    if kind == 'insert':
        return g[:op[3] + 1] + (op[4],) + g[op[3] + 1:]
    if kind == 'del':
        return g[:op[3] + 1] + g[op[3] + 2:]
    if kind == 'remove':
        k = g[1:].index(g[op[3] + 1])         # list.remove drops the FIRST operand that is == to the given one
        return g[:k + 1] + g[k + 2:]
    raise ValueError(kind)


def gen_edit(rng, L, t, i, atoms, ok=None):
    """one in-place edit of heap object i (tree t) -> (op, new tree) or None; the new tree stays in the logic L (ok: another
    acceptance test of the new tree)"""
    pos = list(positions(t))
    inner = [pg for pg in pos if pg[1][0] not in ('true', 'false', 'ap')]
    for _ in range(12):
        path, g = rng.choice(inner if inner and rng.random() < 0.5 else pos)
        tag = g[0]
        if tag == 'ap':
            new = rng.choice([a for a in atoms if a != g[1]])
            op, ng = ('rename', i, path, new), ('ap', new)
        elif tag in ('true', 'false'):
            continue                      # a Bool has no public way of being edited in place (it can be replaced: 'slot')
        else:
            n = len(g) - 1
            kind = rng.choice(('slot', 'slot') + (('wrap', 'reverse', 'slice', 'sort', 'refill') if n >= 2 else ())
                              + (('grow', 'iadd', 'extend', 'insert') if tag in NARY and n == 2 else ())
                              + (('shrink', 'del', 'remove') if tag in NARY and n == 3 else ()))
            if kind == 'slot':
                k = rng.randrange(n)
                new = near_miss(rng, g[k + 1], 'CTLS', atoms) if rng.random() < 0.4 else small_of(rng, L, atoms)
                if new is None or new == g[k + 1]:
                    continue
                op, ng = ('slot', i, path, k, new), g[:k + 1] + (new,) + g[k + 2:]
            elif kind == 'wrap' and n >= 2:
                perm = list(range(n))
                while perm == list(range(n)):
                    rng.shuffle(perm)
                op, ng = ('wrap', i, path, tuple(perm)), (tag,) + tuple(g[p + 1] for p in perm)
            elif kind == 'grow' and tag in NARY and n == 2:
                new = small_of(rng, L, atoms)
                op, ng = ('grow', i, path, new), g + (new,)
            elif kind == 'shrink' and tag in NARY and n == 3:
                op, ng = ('shrink', i, path), g[:-1]
            elif kind in ('reverse', 'slice', 'sort') and n >= 2:
                # list methods of the live operand list other than [k]= / append / pop: reverse(), [:] = reversed copy, sort(key)
                op = (kind, i, path)
                ng = edit_tree(g, op)
            elif kind == 'refill' and n >= 2:
                perm = list(range(n))
                rng.shuffle(perm)
                op, ng = ('refill', i, path, tuple(perm)), (tag,) + tuple(g[p + 1] for p in perm)   # clear(), then += the operands again
            elif kind in ('iadd', 'extend') and tag in NARY and n == 2:
                new = small_of(rng, L, atoms)
                op, ng = (kind, i, path, new), g + (new,)
            elif kind == 'insert' and tag in NARY and n == 2:
                k, new = rng.randrange(n + 1), small_of(rng, L, atoms)
                op = ('insert', i, path, k, new)
                ng = edit_tree(g, op)
            elif kind in ('del', 'remove') and tag in NARY and n == 3:
                op = (kind, i, path, rng.randrange(n))
                ng = edit_tree(g, op)
            else:
                continue
            if ng == g:
                continue
        nt = replace_at(t, path, ng)
        if pymember(L, nt) if ok is None else ok(nt):
            return op, nt
    return None


def gen_life(rng, L, f, nops, atoms, prefix=()):
    """a script of clone / edit steps over a heap that starts as [f]; generated on trees only (independent of the library)"""
    shadow = [f]
    ops = []
    for op in prefix:
        ops.append(op)
        shadow.append(shadow[op[1]])
    tries = 0
    while len(ops) < nops and tries < 4 * nops:
        tries += 1
        i = rng.randrange(len(shadow))
        r = rng.random()
        if r < 0.3 and len(shadow) < LIFE_HEAP:
            ops.append(('clone', i))
            shadow.append(shadow[i])
        elif r < 0.4 and len(shadow) < LIFE_HEAP and fheight(shadow[i]) >= 1:
            path, g = rng.choice([pg for pg in positions(shadow[i]) if pg[0]])
            if pymember(L, g):
                ops.append(('clonesub', i, path))
                shadow.append(g)
        else:
            e = gen_edit(rng, L, shadow[i], i, atoms)
            if e is not None:
                ops.append(e[0])
                shadow[i] = e[1]
    return tuple(ops)


def life_apply(M, heap, shadow, op):
    """apply one step to the objects and to the shadow trees -> index of the edited object (or None for clone steps); edits use the
    public surface only: the `name` of an atom, the list returned by subformulas() (slot overwritten, operand appended / popped) and
    wrap_subformulas()"""
    kind, i = op[0], op[1]
    if kind == 'clone':
        heap.append(heap[i].clone())
        shadow.append(shadow[i])
        return None
    if kind == 'clonesub':
        heap.append(node_at(heap[i], op[2]).clone())
        shadow.append(subtree(shadow[i], op[2]))
        return None
    path = op[2]
    n = node_at(heap[i], path)
    g = subtree(shadow[i], path)
    ng = edit_tree(g, op)
    apply_edit(M, n, op, len(path))
    if kind not in ('rename', 'wrap') and tree_of(heap[i]) == shadow[i] and ng != g:
        return 'ineffective'              # subformulas() handed out a copy: nothing was edited (not the case in the library as it is)
    shadow[i] = replace_at(shadow[i], path, ng)
    return i


def apply_edit(M, n, op, depth=0):
    """the in-place edit op on the node object n, through the public surface only: the `name` of an atom, wrap_subformulas() and
    the live list returned by subformulas() with the list methods [k]=, [:]=, append, pop, reverse, sort, +=, extend, insert, del, remove,
    clear"""
    kind = op[0]
    if kind == 'rename':
        # every other level: the new name is held in a str object of its own (not the object the comparison partners will hold)
        n.name = fresh_str(op[3]) if depth % 2 == 0 else op[3]
    elif kind == 'slot':
        n.subformulas()[op[3]] = build(op[4], M)               # the public accessor returns the live operand list
    elif kind == 'wrap':
        kids = list(n.subformulas())
        n.wrap_subformulas([kids[p] for p in op[3]], M.Formula)
    elif kind == 'grow':
        n.subformulas().append(build(op[3], M))
    elif kind == 'shrink':
        n.subformulas().pop()
    elif kind == 'reverse':
        n.subformulas().reverse()
    elif kind == 'slice':
        ops_ = n.subformulas()
        ops_[:] = ops_[::-1]
    elif kind == 'sort':
        n.subformulas().sort(key=lambda o: repr(tree_of(o)))
    elif kind == 'refill':
        ops_ = n.subformulas()
        kids = list(ops_)
        ops_.clear()
        ops_ += [kids[p] for p in op[3]]
    elif kind == 'iadd':
        ops_ = n.subformulas()
        ops_ += [build(op[3], M)]
    elif kind == 'extend':
        n.subformulas().extend(build(x, M) for x in [op[3]])
    elif kind == 'insert':
        n.subformulas().insert(op[3], build(op[4], M))
    elif kind == 'del':
        del n.subformulas()[op[3]]
    elif kind == 'remove':
        ops_ = n.subformulas()
        ops_.remove(ops_[op[3]])
    else:
        raise ValueError(kind)


def _ids(o):
    s = set()
    for n in nodes_of(o):
        s.add(id(n))
        if not is_leaf(n):
            s.add(id(n._subformula))
    return s


def prebuild(M, trees):
    """comparison partners built, printed, hashed and used as keys BEFORE an edit happens (tree -> object)"""
    pre = {}
    for t in trees:
        if t not in pre:
            o = build(t, M)
            hash(o), str(o), {o: 1}, o == o
            for n in nodes_of(o):
                hash(n)
            pre[t] = o
    return pre


def remember(heap):
    """every node of every object is hashed / printed / used as a key: whatever can be remembered is remembered NOW (called after the
    comparison partners were built: nothing is constructed between this and the edit)"""
    for o in heap:
        for n in nodes_of(o):
            hash(n), str(n), {n: 1}, n == n


def life_audit(M, heap, shadow, edited=None, former=None, pre=None, share_ok=False):
    """every object of the heap must BE its shadow tree: same tree (no edit leaked from another object), ==, hash, set and dict
    behaviour of a freshly built formula of that tree; two heap objects are == exactly when their trees are, and share no
    node; an edited object is no longer == to a fresh formula of its former tree -> list of problems"""
    bad = []
    for i, (o, t) in enumerate(zip(heap, shadow)):
        r = call(lambda: tree_of(o))
        if r != ('ok', t):
            bad.append(['object %d does not have the tree its history gives it' % i, list(r) if r[0] == 'err' else r[1], t])
    if bad:
        return bad
    # FIRST, before anything else is built: the edited objects against partners that were built and hashed BEFORE the edit, one of the
    # current tree, one of the former tree (no formula is constructed between the edit and these comparisons)
    for i, (o, t) in enumerate(zip(heap, shadow)):
        fm = former.get(i) if isinstance(former, dict) else (former if i == edited else None)
        if fm is not None:
            # partners that were built and hashed BEFORE the edit: one of the current tree, one of the former tree
            for what, tt in (('CURRENT', t), ('FORMER', fm)):
                h = (pre or {}).get(tt)
                if h is None or (what == 'FORMER' and fm == t):
                    continue
                same = tt == t
                co = [call(lambda: o == h)[1], call(lambda: h == o)[1], call(lambda: hash(o) == hash(h))[1] if same else True,
                      call(lambda: len({o, h}))[1], call(lambda: {h: 1}.get(o))[1], call(lambda: tree_of(h))[1] == tt]
                if co != [same, same, True, 1 if same else 2, 1 if same else None, True]:
                    bad.append(['edited object %d against a formula of its %s tree that was built and hashed BEFORE the edit: ==, reversed ==, hash equal, '
                                'len(set), dict hit, partner still has its tree' % (i, what), co])
    ids = [_ids(o) for o in heap]
    for i in range(len(heap)):
        for j in range(i + 1, len(heap)):
            a, b = heap[i], heap[j]
            same = shadow[i] == shadow[j]
            co = [call(lambda: a == b)[1], call(lambda: b == a)[1], call(lambda: len({a, b}))[1]]
            if co != [same, same, 1 if same else 2] or (same and call(lambda: hash(a) == hash(b))[1] is not True):
                bad.append(['objects %d and %d (same tree: %s): ==, reversed ==, len(set)' % (i, j, same), co])
            if share_ok:
                continue
            if a is b:
                bad.append(['objects %d and %d are ONE object (a clone that is not a new object)' % (i, j)])
            elif ids[i] & ids[j]:
                bad.append(['objects %d and %d share a node' % (i, j)])
    for i, (o, t) in enumerate(zip(heap, shadow)):
        g = build(t, M)
        co = [call(lambda: o == g)[1], call(lambda: g == o)[1], call(lambda: o != g)[1], call(lambda: hash(o) == hash(g))[1],
              call(lambda: len({o, g}))[1], call(lambda: {g: 1}.get(o))[1], call(lambda: {o: 1}.get(g))[1], call(lambda: g in [o])[1]]
        if co != [True, True, False, True, 1, 1, 1, True]:
            bad.append(['object %d against a fresh formula of its current tree: ==, reversed ==, !=, hash equal, len(set), dict hit, reversed dict hit, in list' % i, co])
        fm = former.get(i) if isinstance(former, dict) else (former if i == edited else None)
        if fm is not None and fm != t:
            h = build(fm, M)
            co = [call(lambda: o == h)[1], call(lambda: h == o)[1], call(lambda: len({o, h}))[1], call(lambda: {h: 1}.get(o))[1]]
            if co != [False, False, 2, None]:
                bad.append(['edited object %d against a fresh formula of its FORMER tree: ==, reversed ==, len(set), dict hit' % i, co])
        if fm is not None:
            # the clone of an edited object is a formula of the current tree, equal to it
            c = call(lambda: o.clone())
            co = [c[0]] if c[0] != 'ok' else [call(lambda: tree_of(c[1]))[1] == t, call(lambda: c[1] == o)[1], call(lambda: o == c[1])[1],
                                              call(lambda: hash(c[1]) == hash(o))[1], c[1] is not o and not (_ids(c[1]) & _ids(o))]
            if co != [True] * 5:
                bad.append(['clone() of the edited object %d: has the current tree, clone == object, object == clone, hashes equal, shares nothing' % i, co])
    # every node is hashed / printed / used as a key, so that whatever can be remembered is remembered before the next edit
    for o in heap:
        for n in nodes_of(o):
            hash(n), str(n), {n: 1}, n == n
    return bad


def impl_life(Ln, f, ops, raw=False):
    """-> (None | {'step', 'op', 'problems', 'heap'}, number of steps run)"""
    M = lang_module(Ln)
    heap, shadow = [(build_raw if raw else build)(f, M)], [f]
    ineffective = LIFE_INEFFECTIVE
    bad = life_audit(M, heap, shadow)
    if bad:
        return {'step': -1, 'op': None, 'problems': bad, 'heap': [fstr(t) for t in shadow]}, 0
    for k, op in enumerate(ops):
        former = shadow[op[1]]
        pre = None
        if op[0] not in ('clone', 'clonesub'):
            # comparison partners of the tree the object is about to have and of the tree it has: built and hashed BEFORE the edit
            pre = prebuild(M, [replace_at(former, op[2], edit_tree(subtree(former, op[2]), op)), former])
            remember(heap)
        r = call(lambda: life_apply(M, heap, shadow, op))
        if r[0] == 'err':
            return {'step': k, 'op': op, 'problems': [['the step raised', r[1]]], 'heap': [fstr(t) for t in shadow]}, k
        if r[1] == 'ineffective':
            ineffective[0] += 1
        bad = life_audit(M, heap, shadow, edited=r[1] if isinstance(r[1], int) else None, former=former, pre=pre)
        if bad:
            return {'step': k, 'op': op, 'problems': bad, 'heap': [fstr(t) for t in shadow]}, k
    return None, len(ops)


def check_lives(R, J, items, tag):
    """items: (L, f, ops)"""
    for (L, f, ops) in sorted(items, key=lambda it: fsize(it[1]) + len(it[2])):
        R.evaluations += 1
        raw = (R.evaluations % 2 == 0) and f[0] not in ('true', 'false', 'ap')
        try:
            res, steps = impl_life(L, f, ops, raw=raw)
        except Exception as e:  # noqa  (on a correct library no audit step can fail)
            res, steps = {'step': None, 'op': None, 'problems': [['the audit raised', '%s: %s' % (type(e).__name__, ' '.join(str(e).split())[:160])]]}, 0
        if res is not None:
            k = res['step']
            J.bad('after a clone / in-place edit history a formula object no longer behaves (==, hash, keys, clone) as the formula of its current tree',
                  {'kind': 'life', 'lang': L, 'tree': f, 'tree_str': fstr(f), 'ops': list(ops[:k + 1] if isinstance(k, int) else ops),
                   'built_from_raw_operands': raw, 'impl': res, 'stream': tag})
        else:
            R.count('lives_' + tag)
            R.count('life_steps', steps)
            for op in ops:
                R.count('life_op_' + op[0])
            R.nontriv(('life', L, f, ops))


# ----------------------------------------------------------------------------------------
# shared nodes: ONE node object (an atom, a subformula) is an operand of several formulas (p = AtomicProposition('p') used twice)
# ----------------------------------------------------------------------------------------
def subst(f, paths, t):
    for p_ in paths:
        f = replace_at(f, p_, t)
    return f


def build_at(f, M, paths, d, at=()):
    """the tree f bottom-up with the classes of M, the object d standing at every position of `paths`"""
    if at in paths:
        return d
    if f[0] in ('true', 'false', 'ap'):
        return build(f, M)
    return getattr(M, PYNAME[f[0]])(*[build_at(g, M, paths, d, at + (i,)) for i, g in enumerate(f[1:])])


def gen_shared(rng, L, cands, atoms):
    """-> (donor tree s, owners ((tree with s at the positions, positions), ...), edits of the donor) generated on trees only: a donor
    (an atom or a small formula) standing at one or two positions of each of 2-3 owner formulas, then 2-5 in-place edits INSIDE the donor,
    every one of which keeps the donor and all its owners in the logic L"""
    for _ in range(20):
        s = ('ap', rng.choice(atoms)) if rng.random() < 0.4 else rng.choice(cands)
        if fheight(s) > 2 or not pymember(L, s):
            continue
        owners = []
        for _o in range(rng.randint(2, 3)):
            for _t in range(10):
                r = rng.random()
                if r < 0.2:
                    f = ('not', s)
                elif r < 0.3:
                    f = (rng.choice(('imp', 'or', 'and')), s, s)                      # the same object twice in ONE formula
                elif r < 0.45:
                    f = (rng.choice(('or', 'and')),) + tuple(rng.sample([s, ('ap', rng.choice(atoms))], 2))
                else:
                    f = rng.choice(cands)
                pos = [p_ for p_, _g in positions(f) if p_]
                if not pos:
                    continue
                if f[0] in ('not', 'imp', 'or', 'and') and r < 0.45:
                    paths = tuple(p_ for p_, g in positions(f) if g == s and len(p_) == 1)
                else:
                    paths = (rng.choice(pos),)
                    if rng.random() < 0.25:
                        q = rng.choice(pos)
                        if q[:len(paths[0])] != paths[0] and paths[0][:len(q)] != q:
                            paths += (q,)
                f = subst(f, paths, s)
                if pymember(L, f):
                    owners.append((f, tuple(sorted(paths))))
                    break
        if len(owners) < 2:
            continue
        ops, cur = [], s
        for _e in range(rng.randint(2, 5)):
            e = gen_edit(rng, L, cur, 0, atoms, ok=lambda nt: pymember(L, nt) and all(pymember(L, subst(f, ps, nt)) for f, ps in owners))
            if e is not None:
                ops.append(e[0])
                cur = e[1]
        if ops:
            return s, tuple(owners), tuple(ops)
    return None


def impl_shared(Ln, s, owners, ops):
    """heap = [donor, owner 1, ...]; after every edit of the donor every object must be the formula of its current tree
    -> (None | {'step', 'op', 'problems', 'heap'}, number of steps run)"""
    M = lang_module(Ln)
    d = build(s, M)
    heap = [d] + [build_at(f, M, paths, d) for f, paths in owners]
    # the operators keep operands of their own module by reference (aliasing is read off object identity; a constructor that
    # copies its operands gives an owner that is independent of the donor)
    aliased = [all(node_at(o, p_) is d for p_ in paths) for o, (f, paths) in zip(heap[1:], owners)]

    def shadows(t):
        return [t] + [subst(f, paths, t) if al else f for (f, paths), al in zip(owners, aliased)]
    cur, shadow = s, shadows(s)
    bad = life_audit(M, heap, shadow, share_ok=True)
    if bad:
        return {'step': -1, 'op': None, 'problems': bad, 'heap': [fstr(t) for t in shadow], 'owner_holds_the_donor_object': aliased}, 0
    for k, op in enumerate(ops):
        path = op[2]
        new = replace_at(cur, path, edit_tree(subtree(cur, path), op))
        formers, nshadow = dict(enumerate(shadow)), shadows(new)
        pre = prebuild(M, nshadow + shadow)
        remember(heap)
        r = call(lambda: apply_edit(M, node_at(d, path), op, len(path)))
        if r[0] == 'err':
            return {'step': k, 'op': op, 'problems': [['the step raised', r[1]]], 'heap': [fstr(t) for t in shadow]}, k
        cur, shadow = new, nshadow
        bad = life_audit(M, heap, shadow, former=formers, pre=pre, share_ok=True)
        if bad:
            return {'step': k, 'op': op, 'problems': bad, 'heap': [fstr(t) for t in shadow], 'owner_holds_the_donor_object': aliased}, k
    return None, len(ops)


def check_shared(R, J, items):
    """items: (L, donor, owners, ops)"""
    for (L, s, owners, ops) in sorted(items, key=lambda it: fsize(it[1]) + sum(fsize(f) for f, _ in it[2]) + len(it[3])):
        R.evaluations += 1
        try:
            res, steps = impl_shared(L, s, owners, ops)
        except Exception as e:  # noqa  (on a correct library no audit step can fail)
            res, steps = {'step': None, 'op': None, 'problems': [['the audit raised', '%s: %s' % (type(e).__name__, ' '.join(str(e).split())[:160])]]}, 0
        if res is not None:
            k = res['step']
            J.bad('a node object that is an operand of several formulas was edited in place: one of the formulas no longer behaves (==, hash, keys, clone) '
                  'as the formula of its current tree',
                  {'kind': 'shared', 'lang': L, 'donor': s, 'donor_str': fstr(s), 'owners': [[f, list(ps)] for f, ps in owners],
                   'owners_str': [fstr(f) for f, _ in owners], 'ops': list(ops[:k + 1] if isinstance(k, int) else ops), 'impl': res})
        else:
            R.count('shared_node_cases')
            R.count('shared_node_steps', steps)
            R.count('shared_owners', len(owners))
            R.count('shared_donor_is_atom' if s[0] == 'ap' else 'shared_donor_is_operator')
            R.count('shared_donor_twice_in_one_owner', sum(len(ps) > 1 for _, ps in owners))
            for op in ops:
                R.count('shared_op_' + op[0])
            R.nontriv(('shared', L, s, owners, ops))


# ----------------------------------------------------------------------------------------
# all-pairs workers (thorough)
# ----------------------------------------------------------------------------------------
_AP = {}


def _ap_rows(rng_):
    lo, hi = rng_
    A, B = _AP['a'], _AP['b']
    n = len(B)
    bad, evals, hcoll = [], 0, 0
    hb = _AP['hb']
    for i in range(lo, hi):
        a = A[i]
        ha = hash(a)
        for j in range(n):
            if (a == B[j]) != (i == j):
                if len(bad) < 20:
                    bad.append((i, j))
            if ha == hb[j] and i != j:
                hcoll += 1
        evals += n
    return evals, bad, hcoll


def all_pairs(Ln, trees, jobs):
    L = lang_module(Ln)
    _AP['a'] = [build(f, L) for f in trees]
    _AP['b'] = [build(f, L) for f in trees]
    _AP['hb'] = [hash(o) for o in _AP['b']]
    n = len(trees)
    step = max(1, n // (jobs * 8))
    chunks = [(i, min(n, i + step)) for i in range(0, n, step)]
    ctx = multiprocessing.get_context('fork')
    with ctx.Pool(jobs) as pool:
        res = pool.map(_ap_rows, chunks)
    evals = sum(r[0] for r in res)
    bad = [b for r in res for b in r[1]]
    hcoll = sum(r[2] for r in res)
    return evals, bad, hcoll


# ----------------------------------------------------------------------------------------
class Judge:
    def __init__(self, R):
        self.R = R
        self.total_bad = 0

    def bad(self, what, data, no_input=False):
        self.total_bad += 1
        if len(self.R.violations) < MAXV:
            self.R.violation(what, data, no_input=no_input)


def check_prints(R, J, items):
    """items: (L, f) -> str(obj) vs model print, every language module that can hold f"""
    todo = []
    seen = set()
    for (L, f) in items:
        for M in LANGS:
            if (M == L or pymember(M, f)) and (M, f) not in seen:
                seen.add((M, f))
                todo.append((M, f))
    outs = model_batch_parallel([['print', M, fsx(f)] for (M, f) in todo])
    table = {}
    for (M, f), o in zip(todo, outs):
        R.evaluations += 1
        s = call(lambda: str(build(f, lang_module(M))))
        r = call(lambda: repr(build(f, lang_module(M))))
        m = str(o)
        table[(M, f)] = m
        R.count('printed_' + M)
        if s != ('ok', m) or r != ('ok', m):
            J.bad('str(formula) differs from the model printer (the hash / equality key)',
                  {'kind': 'print', 'lang': M, 'tree': f, 'impl': list(s), 'impl_repr': list(r), 'model': m})
        elif M == 'CTL' and any(g[0] in ('A', 'E') for g in subformulas(f)):
            R.nontriv(('print', M, f))
    return table


def check_pairs(R, J, L, pairs, tag, model=True):
    """pairs of trees of ONE logic L; tag 'rawcopy' / 'u-rawcopy': the second object is built from raw str / bool operands;
    model=False (atoms outside the model's `good` predicate: non-ASCII identifiers): judged by tree equality alone"""
    raw = tag.endswith('rawcopy')
    if tag.split('-')[-1].startswith(('fresh', 'parsed')):
        raw = 'fresh' if tag.split('-')[-1].startswith('fresh') else 'parsed'
    if tag.split('-')[-1] in ('copy', 'rawcopy', 'nearmiss', 'freshcopy', 'freshnear', 'parsedcopy', 'parsednear'):
        pairs = sorted(pairs, key=lambda fg: fsize(fg[0]) + fsize(fg[1]))   # the smallest failing case is recorded first
    cmds = []
    for f, g in pairs:
        cmds.append(['eq', [L, fsx(f)], [L, fsx(g)]])
        cmds.append(['eq', [L, fsx(g)], [L, fsx(f)]])
    outs = model_batch_parallel(cmds) if model else None
    for i, (f, g) in enumerate(pairs):
        R.evaluations += 1
        same = (f == g)
        m_fg, m_gf = (outs[2 * i] == '1', outs[2 * i + 1] == '1') if model else (None, None)
        if model and (m_fg != same or m_gf != same):
            raise RuntimeError('C11 machinery: model eq_obj disagrees with tree equality on good formulas (contradicts C11_eq_iff_tree): %s %s %s' % (L, fstr(f), fstr(g)))
        obs = impl_pair(L, f, L, g, raw=raw)
        if obs is None:
            PARSED_SKIPPED[0] += 1
            continue
        exp = expected_pair(same)
        if raw:
            exp['raw_built_tree'] = g
        if raw == 'fresh' and obs.get('names_held_in_distinct_objects') is not True:
            R.count('fresh_pairs_whose_names_are_one_object_after_all(informational)')
        diff = [k for k in exp if obs[k] != exp[k]]
        if same and obs['hash_equal'] is not True:
            diff.append('hash_equal')
        if diff:
            J.bad('equality / hashing of two %s formulas is not coherent with tree equality: %s' % (L, ','.join(diff)),
                  {'kind': 'pair', 'lang': L, 'f': f, 'g': g, 'f_str': fstr(f), 'g_str': fstr(g), 'same_tree': same,
                   'impl': obs, 'model_eq': [m_fg, m_gf], 'expected': exp, 'differs': diff, 'g_built_from_raw_operands': raw is True,
                   'g_built': {True: 'raw str / bool operands', False: 'objects', 'fresh': 'atom names held in str objects of their own',
                               'parsed': 'read back from its printed form by the Parser of the module'}[raw], 'g_mode': raw,
                   'model_free': not model})
            continue
        R.count('pairs_%s_%s' % (tag, 'equal' if same else 'unequal'))
        if not same and obs['hash_equal'] is True:
            R.count('hash_collisions_of_unequal_formulas(permitted)')
        if same and fheight(f) >= 1:
            R.nontriv(('pair-eq', L, f))
        elif tag.endswith(('nearmiss', 'freshnear', 'parsednear')):
            R.nontriv(('pair-near', L, f, g))
            if tag == 'nearmiss' and fheight(f) >= 2 and R.cov.get('samples_' + L, 0) < 2:
                R.count('samples_' + L)
                R.sample({'logic': L, 'f': fstr(f), 'g': fstr(g), 'f == g': obs['eq_fg'], 'len({f,g})': obs['set_len']}, limit=8)


def check_triples(R, J, L, triples):
    for (f, g, h) in triples:
        R.evaluations += 1
        M = lang_module(L)
        a, b, c = build(f, M), build(g, M), build(h, M)
        r = {'f==g': call(lambda: a == b)[1], 'g==h': call(lambda: b == c)[1], 'f==h': call(lambda: a == c)[1],
             'g==f': call(lambda: b == a)[1], 'h==g': call(lambda: c == b)[1], 'h==f': call(lambda: c == a)[1],
             'f==f': call(lambda: a == a)[1], 'set': call(lambda: len({a, b, c}))[1]}
        exp = {'f==g': f == g, 'g==h': g == h, 'f==h': f == h, 'g==f': f == g, 'h==g': g == h, 'h==f': f == h, 'f==f': True,
               'set': len({f, g, h})}
        bad = [k for k in exp if r[k] != exp[k]]
        if r['f==g'] is True and r['g==h'] is True and r['f==h'] is not True:
            bad.append('transitivity')
        if r['f==g'] != r['g==f'] or r['g==h'] != r['h==g'] or r['f==h'] != r['h==f']:
            bad.append('symmetry')
        if bad:
            J.bad('== is not an equivalence coherent with tree equality on a triple of %s formulas: %s' % (L, ','.join(bad)),
                  {'kind': 'triple', 'lang': L, 'f': f, 'g': g, 'h': h, 'impl': r, 'expected': exp, 'differs': bad})
        else:
            R.count('triples')
            if len({f, g, h}) < 3:
                R.nontriv(('triple', L, f, g, h))


def check_clones(R, J, items):
    for (L, f) in sorted(items, key=lambda it: fsize(it[1])):
        R.evaluations += 1
        raw = (R.evaluations % 2 == 0) and f[0] not in ('true', 'false', 'ap')
        try:
            obs = impl_clone(L, f, raw=raw)
        except Exception as e:  # noqa  (an observer that raises is an observation: on a correct library none of the steps can fail)
            obs = {'clone': ['the clone / edit protocol raised', '%s: %s' % (type(e).__name__, ' '.join(str(e).split())[:160])]}
        exp = clone_expected(L, f)
        if obs != exp:
            diff = [k for k in exp if obs.get(k) != exp[k]]
            real = any(k in diff for k in ('clone', 'tree', 'langs', 'same_classes', 'eq', 'is_new_object',
                                            'mutation_through_clone_reaches_original', 'mutation_of_original_reaches_clone',
                                            'edited_formula_incoherent', 'second_clone'))
            J.bad(('a formula edited after being hashed is ==, but does not hash/collide like, a fresh formula with the same tree'
                   if diff == ['edited_formula_incoherent'] else 'clone() is not an equal, independent copy: %s' % ','.join(diff)),
                  {'kind': 'clone', 'lang': L, 'tree': f, 'tree_str': fstr(f), 'built_from_raw_operands': raw, 'impl': obs, 'expected': exp, 'differs': diff},
                  no_input=not real)
        else:
            R.count('clones')
            if fheight(f) >= 1:
                R.nontriv(('clone', L, f))


def _some(rng, xs, n):
    return rng.sample(xs, min(len(xs), n))


def run(R):
    rng = R.rng
    J = Judge(R)
    T = {}
    t_last = [time.time()]

    def mark(name):
        T[name] = round(T.get(name, 0) + time.time() - t_last[0], 1)
        t_last[0] = time.time()
    R.rule = ('formulas of ONE logic (PL / CTL* / CTL state+path / LTL path+A-formulas) over the identifier, non-reserved atoms '
              + ', '.join(ATOMS) + ' and true/false: all ordered pairs of the depth <= 1 enumeration over {p, AX, True, False, true, false} (quick) resp. of the depth <= 2 '
              'enumeration over {AX, true} (thorough, worker processes), sampled pairs of the depth <= 2 enumeration and of random formulas of depth <= 5 with '
              'ternary and/or, each formula also paired with a separately built copy, with a copy built from RAW str/bool operands and the &,|,~ operators, and with a one-edit near miss (atom renamed, operands swapped, '
              'operator swapped, (a or b or c) regrouped, operand duplicated); triples = {f, copy, near miss} permutations; every formula printed (str, repr) '
              'against the model printer in every module that can hold it; every formula cloned, id walk + mutation of every node, then cloned a '
              'second time (new object, original tree, nothing shared with the first clone); every formula hashed and then edited in place by each of: '
              'atom renamed, wrap_subformulas (operands reversed), leaf operand overwritten in / operand appended to the live list returned by '
              'subformulas() -> the edited object, its clone() and a fresh formula of its current tree are ==, hash alike and are one set/dict key, a fresh '
              'formula of the former tree is not; MODEL-FREE (tree equality) stream over non-ASCII identifier atoms and ASCII look-alikes ('
              + ', '.join(UATOMS) + '): all ordered atom pairs bare and under one operator, random formulas of depth <= 4 with at least one non-ASCII atom: '
              'random pairs, copies, raw copies, near misses, two-atom exchanges, triples, clones, all as keys of one dict; life-cycle scripts of 4-9 steps '
              '(clone, clone of a subformula, rename, slot overwrite / append / pop through subformulas(), wrap_subformulas with permuted operands; every edit keeps the '
              'formula in its logic) over a heap of <= %d objects grown from one formula of height 1-3 (half start with two clones of the same object), '
              'audited after every step: each object against a fresh build of its shadow tree (tree, ==, hash, set, dict) and of its former tree, all object pairs '
              '(== iff same shadow tree, hash, no shared node); ' % LIFE_HEAP +
              'non-trivial = equal pair of distinct objects of height >= 1, near-miss pair, triple with a repeated tree, clone of height >= 1, CTL compact print, '
              'life-cycle script that ran to its end; '
              'ADDED (2nd audit): edit kinds of the life scripts through the live operand list: reverse(), sort(key), [:] = reversed, clear() and +=, +=, extend, insert, '
              'del [k], remove (half of the edits pick an operator node), renames at even depth hand over a str object of their own; for every edit the partners of the '
              'current and of the former tree are built and hashed BEFORE the edit, all heap nodes are hashed again, then the edit, then those partners are compared '
              'first (==, both directions, hash, set, dict), then the heap pairs, then fresh builds, then clone() of the edited object; pair streams freshcopy / freshnear '
              '(all atom pairs bare + sampled copies and near misses; both objects hold their atom names in str objects of their own, so equal names are never one '
              'object when longer than one character), parsedcopy / parsednear (second object read back from its printed form by the module Parser, kept when the tree '
              'is the same); non-ASCII atoms extended by %d strings that differ from another atom only by a unicode normal form (NFC/NFD/NFKC/NFKD of every atom, '
              'ligature, micro/mu, ordinal, long s, Angstrom, Ohm, Kelvin, full-width, digraph), all ordered pairs as before; shared-node cases: a donor node (atom 40%% / '
              'formula of height <= 2) standing once or twice in each of 2-3 owner formulas (not / imp / or / and over it, or a position of a random formula), 2-5 edits '
              'inside the donor that keep every owner in the logic, life audit of donor and owners after every edit; non-trivial also: shared-node case that ran to its end'
              % (len(UATOMS) - UATOMS_BASE))
    small_leaves = [('ap', 'p'), ('ap', 'AX'), ('true',), ('false',), ('ap', 'True'), ('ap', 'False')]
    ap_leaves = [('ap', 'AX'), ('true',)]
    pool1 = {L: enum_logic(L, 1, small_leaves) for L in LANGS}
    enum2 = {L: enum_logic(L, 2, ap_leaves) for L in LANGS}
    R.cov['enumeration_sizes'] = {'depth<=1 over {p,AX,True,False,true,false}': {L: len(v) for L, v in pool1.items()},
                                  'depth<=2 over {AX,true}': {L: len(v) for L, v in enum2.items()}}
    for L in LANGS:
        assert all(pymember(L, f) for f in pool1[L]) and all(pymember(L, f) for f in enum2[L])

    # random formulas with the full atom set, ternary and/or, depth <= 5
    nrand = 6000 if R.thorough else 500
    rand = {L: [] for L in LANGS}
    for L in LANGS:
        seen = set()
        while len(rand[L]) < nrand:
            f = rand_of(rng, L, rng.randint(1, 5))
            if f not in seen and pymember(L, f):
                seen.add(f)
                rand[L].append(f)
    R.cov['random_formula_heights'] = {L: dict(collections.Counter(fheight(f) for f in rand[L])) for L in LANGS}

    # ---- print: every generated formula, every module ------------------------------------
    printed = []
    for L in LANGS:
        printed += [(L, f) for f in pool1[L]] + [(L, f) for f in (enum2[L] if R.thorough else rng.sample(enum2[L], min(len(enum2[L]), 1200)))] \
            + [(L, f) for f in rand[L]]
    table = check_prints(R, J, printed)
    # the model printer must be injective on the formulas of one logic (C11_print_injective): machinery check
    for L in LANGS:
        inv = {}
        for (M, f), s in table.items():
            if M == L and pymember(L, f):
                if s in inv and inv[s] != f:
                    raise RuntimeError('C11 machinery: model printer not injective on %s: %s / %s' % (L, fstr(f), fstr(inv[s])))
                inv[s] = f

    mark('generate+print')
    # ---- pairs ---------------------------------------------------------------------------
    for L in LANGS:
        P = pool1[L]
        # (a) all ordered pairs of the small pool (incl. the diagonal, with separately built objects)
        check_pairs(R, J, L, [(f, g) for f in P for g in P], 'pool')
        # (b) sampled pairs of the depth <= 2 enumeration and of the random formulas
        E = enum2[L]
        npairs = 20000 if R.thorough else 700
        check_pairs(R, J, L, [(rng.choice(E), rng.choice(E)) for _ in range(npairs)], 'enum2')
        check_pairs(R, J, L, [(rng.choice(rand[L]), rng.choice(rand[L])) for _ in range(npairs)], 'random')
        # (c) copies and near misses
        src = rand[L] + (E if R.thorough else rng.sample(E, min(len(E), 400)))
        check_pairs(R, J, L, [(f, f) for f in src], 'copy')
        check_pairs(R, J, L, [(f, f) for f in src if fheight(f) >= 1], 'rawcopy')
        nm = []
        for f in src:
            g = near_miss(rng, f, L)
            if g is not None:
                nm.append((f, g))
        check_pairs(R, J, L, nm, 'nearmiss')
        # (c') the second object's atom names are held in str objects of their OWN (equal names, another object: names computed at run
        # time) / the second object is read back from text by the module's Parser; judged by tree equality (the model has judged these
        # very trees in the streams above)
        al = [('ap', a) for a in ATOMS]
        fsrc = al + _some(rng, [f for f in src if any(len(a) > 1 for a in atoms_of(f))], 2000 if R.thorough else 200)
        check_pairs(R, J, L, [(f, f) for f in fsrc], 'freshcopy', model=False)
        check_pairs(R, J, L, [(f, g) for f in al for g in al if f != g] + _some(rng, nm, 1000 if R.thorough else 100), 'freshnear', model=False)
        psrc = al + _some(rng, src, 400 if R.thorough else 40)
        check_pairs(R, J, L, [(f, f) for f in psrc], 'parsedcopy', model=False)
        check_pairs(R, J, L, _some(rng, nm, 300 if R.thorough else 30), 'parsednear', model=False)
        # (d) triples
        triples = []
        for (f, g) in rng.sample(nm, min(len(nm), 3000 if R.thorough else 250)):
            triples += [(f, f, g), (f, g, f), (g, f, f), (f, f, f), (f, g, rng.choice(src))]
        check_triples(R, J, L, triples)
        # (e) global: the whole enumeration as keys of one set / dict
        R.evaluations += 1
        M = lang_module(L)
        A, B = [build(f, M) for f in E], [build(f, M) for f in E]
        d = {o: i for i, o in enumerate(A)}
        g_ok = len(set(A + B)) == len(E) and len(d) == len(E) and all(d.get(o) == i for i, o in enumerate(B)) \
            and all(hash(a) == hash(b) for a, b in zip(A, B))
        if not g_ok:
            badi = [i for i, o in enumerate(B) if d.get(o) != i][:3]
            J.bad('the depth <= 2 enumeration of %s does not behave as %d distinct keys of a set / dict' % (L, len(E)),
                  {'kind': 'keys', 'lang': L, 'set_size': len(set(A + B)), 'expected': len(E), 'first_wrong': [E[i] for i in badi]})
        else:
            R.count('global_set_dict_checks')

    mark('pairs+triples')
    # ---- Bool against python bool --------------------------------------------------------
    cmds = [['eqbool', [L, fsx(('true',) if b else ('false',))], b2] for L in LANGS for b in (True, False) for b2 in (True, False)]
    outs = model_batch(cmds)
    k = 0
    for L in LANGS:
        for b in (True, False):
            for b2 in (True, False):
                R.evaluations += 1
                m = outs[k] == '1'
                k += 1
                if m != (b == b2):
                    raise RuntimeError('C11 machinery: eqbool contradicts C11_bool')
                o = lang_module(L).Bool(b)
                obs = {'Bool==bool': call(lambda: o == b2)[1], 'bool==Bool': call(lambda: b2 == o)[1],
                       'Bool!=bool': call(lambda: o != b2)[1], 'bool!=Bool': call(lambda: b2 != o)[1]}
                exp = {'Bool==bool': m, 'bool==Bool': m, 'Bool!=bool': not m, 'bool!=Bool': not m}
                if obs != exp:
                    J.bad('%s.Bool(%s) against the python bool %s' % (L, b, b2), {'kind': 'bool', 'lang': L, 'b': b, 'pybool': b2, 'impl': obs, 'expected': exp})
                else:
                    R.nontriv(('bool', L, b, b2))
    # other formulas against python booleans (outside the property: model = printed form against 'True'/'False')
    others = [(L, f) for L in LANGS for f in pool1[L][:12] if f[0] not in ('true', 'false')] + [(L, ('ap', 'True')) for L in LANGS]
    outs = model_batch([['eqbool', [L, fsx(f)], b2] for (L, f) in others for b2 in (True, False)])
    k = 0
    for (L, f) in others:
        for b2 in (True, False):
            m = outs[k] == '1'
            k += 1
            o = build(f, lang_module(L))
            if (call(lambda: o == b2)[1], call(lambda: b2 == o)[1]) != (m, m):
                J.bad('non-Bool formula against a python bool differs from the model (outside the property)',
                      {'kind': 'formula-vs-bool', 'lang': L, 'tree': f, 'pybool': b2, 'model': m}, no_input=True)
            R.count('informational_formula_vs_pybool')

    mark('bool')
    # ---- clone ---------------------------------------------------------------------------
    citems = []
    for L in LANGS:
        citems += [(L, f) for f in pool1[L]] + [(L, f) for f in rand[L]] + \
            [(L, f) for f in (enum2[L] if R.thorough else rng.sample(enum2[L], min(len(enum2[L]), 500)))]
    check_clones(R, J, citems)

    mark('clone')
    # ---- all ordered pairs of the depth <= 2 enumeration (thorough) ---------------------
    if R.thorough:
        jobs = min(16, os.cpu_count() or 4)
        ap = {}
        for L in LANGS:
            evals, bad, hcoll = all_pairs(L, enum2[L], jobs)
            R.evaluations += evals
            ap[L] = {'formulas': len(enum2[L]), 'ordered_pairs': evals, 'hash_collisions_of_unequal': hcoll}
            for (i, j) in bad[:5]:
                f, g = enum2[L][i], enum2[L][j]
                J.bad('all-pairs: f == g disagrees with tree equality',
                      {'kind': 'pair', 'lang': L, 'f': f, 'g': g, 'f_str': fstr(f), 'g_str': fstr(g), 'same_tree': f == g})
            J.total_bad += max(0, len(bad) - 5)
        R.cov['all_pairs_depth2'] = ap

    mark('all-pairs')
    # ---- across languages: informational only -------------------------------------------
    across = collections.Counter()
    xs = []
    for L in LANGS:
        for f in rng.sample(pool1[L], 12) + rng.sample(rand[L], 60 if R.thorough else 15):
            for M in LANGS:
                if M != L and pymember(M, f):
                    xs.append((L, f, M, f))
                    g = near_miss(rng, f, M)
                    if g is not None:
                        xs.append((L, f, M, g))
    outs = model_batch_parallel([['eq', [L, fsx(f)], [M, fsx(g)]] for (L, f, M, g) in xs])
    for (L, f, M, g), o in zip(xs, outs):
        obs = impl_pair(L, f, M, g)
        across['pairs'] += 1
        across['same_tree'] += f == g
        across['impl_equal'] += obs['eq_fg'] is True
        across['impl_agrees_with_model'] += (obs['eq_fg'] is True) == (o == '1')
        across['same_tree_but_unequal(CTL compact notation)'] += (f == g and obs['eq_fg'] is not True)
    R.cov['across_languages_informational'] = dict(across)
    mark('across')
    # ---- non-ASCII identifier atoms: model-free (tree equality), pairs / triples / clones ---
    uleaves = [('ap', a) for a in UATOMS]
    for L in LANGS:
        M = lang_module(L)
        # all ordered pairs of the atoms themselves and of one operator over them
        op1 = 'not' if L == 'PL' else 'X'
        check_pairs(R, J, L, [(f, g) for f in uleaves for g in uleaves], 'u-atoms', model=False)
        check_pairs(R, J, L, [((op1, f), (op1, g)) for f in uleaves for g in uleaves], 'u-atoms', model=False)
        urand, seen = [], set()
        while len(urand) < (1500 if R.thorough else 150):
            f = rand_of(rng, L, rng.randint(1, 4), UATOMS)
            if f not in seen and pymember(L, f) and any(not a.isascii() for a in atoms_of(f)):
                seen.add(f)
                urand.append(f)
        rand['u' + L] = urand
        check_pairs(R, J, L, [(rng.choice(urand), rng.choice(urand)) for _ in range(len(urand))], 'u-random', model=False)
        check_pairs(R, J, L, [(f, f) for f in urand], 'u-copy', model=False)
        check_pairs(R, J, L, [(f, f) for f in urand if fheight(f) >= 1], 'u-rawcopy', model=False)
        nm = []
        for f in urand:
            # near misses: one edit, and the same formula with two of its atoms exchanged / one atom replaced by a look-alike
            g = near_miss(rng, f, L, UATOMS)
            if g is not None:
                nm.append((f, g))
            ats = sorted(atoms_of(f))
            a = rng.choice(ats)
            b = rng.choice([x for x in UATOMS if x != a])
            g = rename_atoms(f, {a: b, b: a})
            if g != f:
                nm.append((f, g))
        check_pairs(R, J, L, nm, 'u-nearmiss', model=False)
        check_pairs(R, J, L, [(f, f) for f in uleaves + urand], 'u-freshcopy', model=False)
        check_pairs(R, J, L, _some(rng, nm, 150), 'u-freshnear', model=False)
        triples = []
        for (f, g) in rng.sample(nm, min(len(nm), 60)):
            triples += [(f, f, g), (f, g, f), (g, f, f), (f, g, rng.choice(urand))]
        check_triples(R, J, L, triples)
        check_clones(R, J, [(L, f) for f in uleaves[:8] + urand[:80 if not R.thorough else 600]])
        # the formulas as keys of one dict
        R.evaluations += 1
        A, B = [build(f, M) for f in urand], [build(f, M) for f in urand]
        d = {o: i for i, o in enumerate(A)}
        if not (len(set(A + B)) == len(urand) and len(d) == len(urand) and all(d.get(o) == i for i, o in enumerate(B))):
            badi = [i for i, o in enumerate(B) if d.get(o) != i][:3]
            J.bad('formulas over non-ASCII identifier atoms of %s do not behave as %d distinct keys of a set / dict' % (L, len(urand)),
                  {'kind': 'keys', 'lang': L, 'set_size': len(set(A + B)), 'expected': len(urand), 'first_wrong': [urand[i] for i in badi]})
        else:
            R.count('global_set_dict_checks')
    R.cov['non_ascii_atoms'] = list(UATOMS)
    R.cov['non_ascii_atoms_merged_by_a_normal_form'] = sorted({_ud.normalize('NFKC', a).casefold() for a in UATOMS
                                                                if sum(_ud.normalize('NFKC', b).casefold() == _ud.normalize('NFKC', a).casefold() for b in UATOMS) > 1})
    mark('non-ascii')
    # ---- life cycles: clone / edit scripts over a small heap of objects ------------------
    lives = []
    for L in LANGS:
        small = [f for f in pool1[L] if fheight(f) >= 1]
        src = rng.sample(small, min(len(small), 60 if R.thorough else 25)) + _some(rng, [f for f in rand[L] if 1 <= fheight(f) <= 3], 1500 if R.thorough else 150)
        for n, f in enumerate(src):
            # half of the scripts start by cloning the same object twice (then edits and further clones of originals and clones)
            lives.append((L, f, gen_life(rng, L, f, rng.randint(4, 9), ATOMS, prefix=(('clone', 0), ('clone', 0)) if n % 2 else ())))
        for f in _some(rng, [f for f in rand['u' + L] if 1 <= fheight(f) <= 3], 400 if R.thorough else 40):
            lives.append((L, f, gen_life(rng, L, f, rng.randint(4, 9), UATOMS)))
    check_lives(R, J, lives, 'script')
    mark('lives')
    # ---- shared nodes: one node object standing in several formulas, edited in place --------------------------------
    shared = []
    for L in LANGS:
        cands = [f for f in pool1[L] if fheight(f) >= 1] + [f for f in rand[L] if 1 <= fheight(f) <= 3]
        ucands = [f for f in rand['u' + L] if 1 <= fheight(f) <= 3]
        for n in range(800 if R.thorough else 50):
            c = gen_shared(rng, L, cands if n % 5 else ucands, ATOMS if n % 5 else UATOMS)
            if c is not None:
                shared.append((L,) + c)
    check_shared(R, J, shared)
    R.cov['parsed_pairs_skipped(parser does not give the tree back)'] = PARSED_SKIPPED[0]
    mark('shared')
    R.cov['life_edits_without_effect(subformulas() not live)'] = LIFE_INEFFECTIVE[0]
    R.cov['life_script_lengths'] = dict(collections.Counter(len(o) for (_, _, o) in lives))
    R.cov['section_wall_s'] = T
    for L in LANGS:
        R.cov.pop('samples_' + L, None)
    R.cov['disagreements_total'] = J.total_bad
    R.exhaustive = False


# ----------------------------------------------------------------------------------------
def replay(R, data):
    d = data['data']
    kind = d['kind']
    L = d.get('lang')
    print('case :', {k: v for k, v in d.items() if k not in ('impl', 'expected', 'model')})
    if kind == 'pair':
        f, g = detuple(d['f']), detuple(d['g'])
        raw = d.get('g_mode', bool(d.get('g_built_from_raw_operands')))
        exp = expected_pair(f == g)
        if raw:
            exp['raw_built_tree'] = g
        for phase in range(3 if raw is True else 1):            # raw builds rotate between three leaf styles: replay all of them
            _RAWMODE[0] = phase
            obs = impl_pair(L, f, L, g, raw=raw)
            if obs is None:
                print('impl : the parser no longer gives the tree g back: nothing to compare')
                return
            if any(obs[k] != exp[k] for k in exp):
                break
        print('impl :', obs)
        if d.get('model_free'):
            print('model: - (judged by tree equality alone: atoms outside the model\'s `good` predicate, or a stream whose trees the model judged in the copy / nearmiss streams)  tree equality:', f == g)
        else:
            m = model_batch([['eq', [L, fsx(f)], [L, fsx(g)]], ['eq', [L, fsx(g)], [L, fsx(f)]], ['print', L, fsx(f)], ['print', L, fsx(g)]])
            print('model: eq', m[0], m[1], 'print', repr(str(m[2])), repr(str(m[3])), ' tree equality:', f == g)
        if any(obs[k] != exp[k] for k in exp) or (f == g and obs['hash_equal'] is not True):
            R.violation('replayed', d)
    elif kind == 'triple':
        J = Judge(R)
        check_triples(R, J, L, [(detuple(d['f']), detuple(d['g']), detuple(d['h']))])
        print('violations:', len(R.violations))
    elif kind == 'print':
        f = detuple(d['tree'])
        s = call(lambda: str(build(f, lang_module(L))))
        m = str(model_batch([['print', L, fsx(f)]])[0])
        print('impl :', s)
        print('model:', repr(m))
        if s != ('ok', m):
            R.violation('replayed', d)
    elif kind == 'clone':
        f = detuple(d['tree'])
        obs = impl_clone(L, f, raw=bool(d.get('built_from_raw_operands')))
        exp = clone_expected(L, f)
        print('impl    :', obs)
        print('expected:', exp)
        if obs != exp:
            R.violation('replayed', d)
    elif kind == 'life':
        f, ops = detuple(d['tree']), detuple(d['ops'])
        res, steps = impl_life(L, f, ops, raw=bool(d.get('built_from_raw_operands')))
        print('script  :', ops)
        print('impl    :', res if res is not None else 'every object behaves as the formula of its current tree after each of the %d steps' % steps)
        print('expected: every object behaves as the formula of its current tree after each step (model-free: tree equality)')
        if res is not None:
            R.violation('replayed', d)
    elif kind == 'shared':
        s_, owners, ops = detuple(d['donor']), tuple((f, tuple(ps)) for f, ps in detuple(d['owners'])), detuple(d['ops'])
        res, steps = impl_shared(L, s_, owners, ops)
        print('donor   :', fstr(s_), ' owners:', [(fstr(f), ps) for f, ps in owners])
        print('edits   :', ops)
        print('impl    :', res if res is not None else 'every object behaves as the formula of its current tree after each of the %d steps' % steps)
        print('expected: the donor and every formula it is an operand of behave as the formulas of their current trees after each step (model-free: tree equality)')
        if res is not None:
            R.violation('replayed', d)
    elif kind == 'bool':
        o = lang_module(L).Bool(d['b'])
        b2 = d['pybool']
        obs = (call(lambda: o == b2)[1], call(lambda: b2 == o)[1])
        m = model_batch([['eqbool', [L, fsx(('true',) if d['b'] else ('false',))], b2]])[0] == '1'
        print('impl :', obs, ' model:', m)
        if obs != (m, m):
            R.violation('replayed', d)
    else:
        print('re-run the check for this kind of case')
