"""C11 - formula equality, hashing and cloning are coherent.

Theorems (Properties/C11.v): C11_eq_iff_tree, C11_refl, C11_sym, C11_trans, C11_hash, C11_hash_inj, C11_bool,
C11_print_injective (+ C11_reserved_refuted: why reserved-word atoms are scoped out).

Correspondence, within ONE logic and over identifier atoms that are not reserved words:
  pairs   - f == g and g == f (separately built objects) vs tree equality (tree_of) and vs the model's (eq o o');
            hash(f) == hash(g) when equal; len({f, g}); dict lookup with an equal-but-distinct key
  triples - reflexivity / symmetry / transitivity on triples made of copies and near misses
  bool    - L.Bool(b) == b' and b' == L.Bool(b) for python booleans vs (eqbool o b')
  print   - str(f) vs the model's (print L f), character by character, for EVERY generated formula in every language
            module that can hold it (CTL's compact notation included); this string is also the hash key
  clone   - equal tree, same classes, same language; runtime-only (monitored, the tree model has no heap): no node
            object shared between original and clone (id walk over ALL nodes, leaves and operand lists included) and the
            real criterion "no mutable node shared": every node of the clone is mutated (leaf attribute / operand slot)
            and the original must keep its tree, and the other way round
  all-pairs (thorough) - every ordered pair of the depth <= 2 enumeration of each logic through ==, in worker processes
Across-language pairs are informational coverage only (the property is within one logic)."""
from common import *
from props_c08 import pymember, build, detuple, LANGS
import collections, multiprocessing

LEVEL = 'proof'
ATOMS = ('p', 'q', 'Ab', 'AX', 'orb', 'true_', '_x1', 'True', 'False')   # True/False: Python's spellings are NOT reserved words of the logics
MAXV = 40
LOGIC_OPS = ('not', 'or', 'and', 'imp')


# ----------------------------------------------------------------------------------------
# enumerations of the four logics
# ----------------------------------------------------------------------------------------
def enum_logic(L, depth, leaves):
    """all formulas of logic L (objects of module L) with operator nesting <= depth, or/and binary"""
    if L == 'PL':
        return all_trees(depth, leaves, ('not',), ('imp',), NARY)
    if L == 'CTLS':
        return all_trees(depth, leaves, UNARY, BINARY, NARY)
    if L == 'LTL':
        paths = all_trees(depth, leaves, ('not', 'X', 'F', 'G'), BINARY, NARY)
        return paths + [('A', g) for g in paths if fheight(g) < depth]
    # CTL: state formulas, and path formulas (one temporal operator over state formulas)
    return [f for f in all_trees(depth, leaves, UNARY, BINARY, NARY) if pymember('CTL', f)]


def rand_of(rng, L, d):
    if L == 'PL':
        return rand_pl(rng, d, ATOMS)
    if L == 'CTLS':
        return rand_path(rng, d, ATOMS, quant=True)
    if L == 'LTL':
        return ('A', rand_path(rng, d - 1, ATOMS)) if rng.random() < 0.4 else rand_path(rng, d, ATOMS)
    if rng.random() < 0.25:
        o = rng.choice(TEMPORAL)
        return (o,) + tuple(rand_ctl(rng, d - 1, ATOMS) for _ in range(1 if o in 'XFG' else 2))
    return rand_ctl(rng, d, ATOMS)


def positions(f, path=()):
    yield path, f
    if f[0] not in ('true', 'false', 'ap'):
        for i, g in enumerate(f[1:]):
            yield from positions(g, path + (i,))


def replace_at(f, path, new):
    if not path:
        return new
    i = path[0]
    return f[:i + 1] + (replace_at(f[i + 1], path[1:], new),) + f[i + 2:]


SWAP = {'or': 'and', 'and': 'or', 'U': 'R', 'R': 'U', 'X': 'F', 'F': 'G', 'G': 'X', 'A': 'E', 'E': 'A'}


def near_miss(rng, f, L):
    """a formula of the same logic that differs from f by one small edit (or None)"""
    pos = list(positions(f))
    for _ in range(8):
        path, g = rng.choice(pos)
        t = g[0]
        kind = rng.randrange(5)
        if t == 'ap':
            new = ('ap', rng.choice([a for a in ATOMS if a != g[1]])) if kind else ('true',)
        elif t in ('true', 'false'):
            new = ('false',) if t == 'true' else (('true',) if kind else ('ap', 'true_'))
        elif kind == 0 and t in SWAP:
            new = (SWAP[t],) + g[1:]
        elif kind == 1 and len(g) >= 3:
            new = (t,) + tuple(reversed(g[1:]))
        elif kind == 2 and t in NARY and len(g) == 4:
            new = (t, (t, g[1], g[2]), g[3])           # (a or b or c) vs ((a or b) or c)
        elif kind == 2 and t in NARY and len(g) == 3 and g[1][0] == t and len(g[1]) == 3:
            new = (t, g[1][1], g[1][2], g[2])          # ((a or b) or c) vs (a or b or c)
        elif kind == 3 and t in NARY and len(g) == 3:
            new = (t, g[1], g[2], g[2])
        elif kind == 4 and t == 'not':
            new = g[1]
        else:
            new = ('not', g) if t in LOGIC_OPS + ('ap',) else g[1]
        h = replace_at(f, path, new)
        if h != f and pymember(L, h):
            return h
    return None


# ----------------------------------------------------------------------------------------
# observations
# ----------------------------------------------------------------------------------------
def nodes_of(o, acc=None):
    """every node object of a formula (preorder), leaves included"""
    if acc is None:
        acc = []
    acc.append(o)
    if type(o).__name__ not in ('Bool', 'AtomicProposition'):
        for c in o._subformula:
            nodes_of(c, acc)
    return acc


def is_leaf(o):
    return type(o).__name__ in ('Bool', 'AtomicProposition')


def build_raw(f, L):
    """same tree, but leaf operands are handed to the operators as raw python str / bool (and/or/not also through the
    &, |, ~ operators when the left operand is an object)"""
    t = f[0]
    if t in ('true', 'false', 'ap'):
        return build(f, L)
    kids = [(g[1] if g[0] == 'ap' else g[0] == 'true') if g[0] in ('true', 'false', 'ap') else build_raw(g, L) for g in f[1:]]
    if t == 'not' and not isinstance(kids[0], (str, bool)):
        return ~kids[0]
    if t in ('or', 'and') and len(kids) == 2 and not isinstance(kids[0], (str, bool)):
        return (kids[0] | kids[1]) if t == 'or' else (kids[0] & kids[1])
    return getattr(L, PYNAME[t])(*kids)


def impl_pair(Lf, f, Lg, g, raw=False):
    fo = build(f, lang_module(Lf))
    go = build_raw(g, lang_module(Lg)) if raw else build(g, lang_module(Lg))
    obs = {}
    obs['eq_fg'] = call(lambda: fo == go)
    obs['eq_gf'] = call(lambda: go == fo)
    obs['ne_fg'] = call(lambda: fo != go)
    obs['hash_equal'] = call(lambda: hash(fo) == hash(go))
    obs['set_len'] = call(lambda: len({fo, go}))
    obs['dict_hit'] = call(lambda: {fo: 1}.get(go, 0) == 1)
    obs['in_list'] = call(lambda: go in [fo])
    if raw:
        obs['raw_built_tree'] = call(lambda: tree_of(go))
    return {k: (list(v) if v[0] == 'err' else v[1]) for k, v in obs.items()}


def expected_pair(same):
    return {'eq_fg': same, 'eq_gf': same, 'ne_fg': not same, 'set_len': 1 if same else 2, 'dict_hit': same, 'in_list': same}


def mutate_node(n):
    """mutate a leaf in place (operator nodes are mutated by overwriting their operand slots)"""
    if type(n).__name__ == 'Bool':
        n._value = not n._value
    else:
        n.name = n.name + '_mutated'


def _marker(n):
    L = sys.modules[type(n).__module__]
    return L.AtomicProposition('zz_marker')


def impl_clone(Ln, f, raw=False):
    """-> observation dict of o.clone(); raw: the formula is built from raw python str / bool operands and the & | ~
    operators (same tree, another construction route: e.g. the `height` attribute of such nodes differs)"""
    L = lang_module(Ln)
    mk = build_raw if raw else build
    o = mk(f, L)
    s0 = str(o)
    r = call(lambda: o.clone())
    if r[0] == 'err':
        return {'clone': list(r)}
    c = r[1]
    obs = {'clone': 'ok'}
    try:
        obs['tree'] = tree_of(c)
        obs['langs'] = sorted(langs_in(c))
        no, nc = nodes_of(o), nodes_of(c)
    except Exception as e:  # noqa
        obs['clone'] = ['unreadable', type(e).__name__]
        return obs
    obs['same_classes'] = len(no) == len(nc) and all(type(a) is type(b) for a, b in zip(no, nc))
    obs['eq'] = [call(lambda: o == c)[1], call(lambda: c == o)[1], call(lambda: hash(o) == hash(c))[1]]
    obs['is_new_object'] = c is not o
    ids_o = {id(n) for n in no} | {id(n._subformula) for n in no if not is_leaf(n)}
    shared = [i for i, n in enumerate(nc) if id(n) in ids_o or (not is_leaf(n) and id(n._subformula) in ids_o)]
    obs['shared_node_positions'] = shared
    obs['shared_leaves_only'] = bool(shared) and all(is_leaf(nc[i]) for i in shared)
    # mutate every node of the clone (deepest first); the original must keep its tree and printed form
    leaked = []
    for i in range(len(nc) - 1, -1, -1):
        n = nc[i]
        if is_leaf(n):
            mutate_node(n)
            if tree_of(o) != f or str(o) != s0:
                leaked.append(i)
                return dict(obs, mutation_through_clone_reaches_original=leaked)
        else:
            for k in range(len(n._subformula)):
                n._subformula[k] = _marker(n)
                if tree_of(o) != f or str(o) != s0:
                    leaked.append(i)
                    return dict(obs, mutation_through_clone_reaches_original=leaked)
    obs['mutation_through_clone_reaches_original'] = leaked
    # and the other way round on a fresh pair
    o2 = mk(f, L)
    c2 = o2.clone()
    back = []
    n2 = nodes_of(o2)
    for i in range(len(n2) - 1, -1, -1):
        n = n2[i]
        if is_leaf(n):
            mutate_node(n)
        else:
            for k in range(len(n._subformula)):
                n._subformula[k] = _marker(n)
        if tree_of(c2) != f:
            back.append(i)
            break
    obs['mutation_of_original_reaches_clone'] = back
    # a formula that was hashed / used as a key and is EDITED afterwards through the public surface (an atom's `name`,
    # wrap_subformulas) is still a formula: it must be == to, hash like and collide in sets/dicts with a freshly built
    # formula of its CURRENT tree (a hash remembered from before the edit would break this)
    inco = []
    for route in ('rename', 'wrap'):
        o3 = build(f, L)
        hash(o3), {o3: 1}, str(o3)
        for n in nodes_of(o3):
            hash(n)
        want = None
        if route == 'rename':
            leaves = [n for n in nodes_of(o3) if type(n).__name__ == 'AtomicProposition']
            if not leaves:
                continue
            leaves[-1].name = leaves[-1].name + '_r'
        else:
            if is_leaf(o3) or len(o3._subformula) < 2:
                continue
            kids = list(o3.subformulas())
            want = (f[0],) + tuple(reversed(f[1:]))
            r3 = call(lambda: o3.wrap_subformulas(list(reversed(kids)), sys.modules[type(o3).__module__].Formula))
            if r3[0] != 'ok':
                continue
        t3 = tree_of(o3)
        if want is not None and t3 != want:
            inco.append([route, 'tree after the edit is not the requested one'])
            continue
        g3 = build(t3, L)
        co = [call(lambda: o3 == g3)[1], call(lambda: g3 == o3)[1], call(lambda: hash(o3) == hash(g3))[1],
              call(lambda: len({o3, g3}) == 1)[1], call(lambda: {g3: 1}.get(o3) == 1)[1], call(lambda: o3 in {g3})[1]]
        if co != [True] * 6:
            inco.append([route, co])
    obs['edited_formula_incoherent'] = inco
    return obs


def clone_expected(Ln, f):
    return {'clone': 'ok', 'tree': f, 'langs': [Ln], 'same_classes': True, 'eq': [True, True, True], 'is_new_object': True,
            'shared_node_positions': [], 'shared_leaves_only': False, 'mutation_through_clone_reaches_original': [],
            'mutation_of_original_reaches_clone': [], 'edited_formula_incoherent': []}


# ----------------------------------------------------------------------------------------
# all-pairs workers (thorough)
# ----------------------------------------------------------------------------------------
_AP = {}


def _ap_rows(rng_):
    lo, hi = rng_
    A, B = _AP['a'], _AP['b']
    n = len(B)
    bad, evals, hcoll = [], 0, 0
    hb = _AP['hb']
    for i in range(lo, hi):
        a = A[i]
        ha = hash(a)
        for j in range(n):
            if (a == B[j]) != (i == j):
                if len(bad) < 20:
                    bad.append((i, j))
            if ha == hb[j] and i != j:
                hcoll += 1
        evals += n
    return evals, bad, hcoll


def all_pairs(Ln, trees, jobs):
    L = lang_module(Ln)
    _AP['a'] = [build(f, L) for f in trees]
    _AP['b'] = [build(f, L) for f in trees]
    _AP['hb'] = [hash(o) for o in _AP['b']]
    n = len(trees)
    step = max(1, n // (jobs * 8))
    chunks = [(i, min(n, i + step)) for i in range(0, n, step)]
    ctx = multiprocessing.get_context('fork')
    with ctx.Pool(jobs) as pool:
        res = pool.map(_ap_rows, chunks)
    evals = sum(r[0] for r in res)
    bad = [b for r in res for b in r[1]]
    hcoll = sum(r[2] for r in res)
    return evals, bad, hcoll


# ----------------------------------------------------------------------------------------
class Judge:
    def __init__(self, R):
        self.R = R
        self.total_bad = 0

    def bad(self, what, data, no_input=False):
        self.total_bad += 1
        if len(self.R.violations) < MAXV:
            self.R.violation(what, data, no_input=no_input)


def check_prints(R, J, items):
    """items: (L, f) -> str(obj) vs model print, every language module that can hold f"""
    todo = []
    seen = set()
    for (L, f) in items:
        for M in LANGS:
            if (M == L or pymember(M, f)) and (M, f) not in seen:
                seen.add((M, f))
                todo.append((M, f))
    outs = model_batch_parallel([['print', M, fsx(f)] for (M, f) in todo])
    table = {}
    for (M, f), o in zip(todo, outs):
        R.evaluations += 1
        s = call(lambda: str(build(f, lang_module(M))))
        r = call(lambda: repr(build(f, lang_module(M))))
        m = str(o)
        table[(M, f)] = m
        R.count('printed_' + M)
        if s != ('ok', m) or r != ('ok', m):
            J.bad('str(formula) differs from the model printer (the hash / equality key)',
                  {'kind': 'print', 'lang': M, 'tree': f, 'impl': list(s), 'impl_repr': list(r), 'model': m})
        elif M == 'CTL' and any(g[0] in ('A', 'E') for g in subformulas(f)):
            R.nontriv(('print', M, f))
    return table


def check_pairs(R, J, L, pairs, tag):
    """pairs of trees of ONE logic L; tag 'rawcopy': the second object is built from raw str / bool operands"""
    raw = tag == 'rawcopy'
    if tag in ('copy', 'rawcopy', 'nearmiss'):
        pairs = sorted(pairs, key=lambda fg: fsize(fg[0]) + fsize(fg[1]))   # the smallest failing case is recorded first
    cmds = []
    for f, g in pairs:
        cmds.append(['eq', [L, fsx(f)], [L, fsx(g)]])
        cmds.append(['eq', [L, fsx(g)], [L, fsx(f)]])
    outs = model_batch_parallel(cmds)
    for i, (f, g) in enumerate(pairs):
        R.evaluations += 1
        same = (f == g)
        m_fg, m_gf = outs[2 * i] == '1', outs[2 * i + 1] == '1'
        if m_fg != same or m_gf != same:
            raise RuntimeError('C11 machinery: model eq_obj disagrees with tree equality on good formulas (contradicts C11_eq_iff_tree): %s %s %s' % (L, fstr(f), fstr(g)))
        obs = impl_pair(L, f, L, g, raw=raw)
        exp = expected_pair(same)
        if raw:
            exp['raw_built_tree'] = g
        diff = [k for k in exp if obs[k] != exp[k]]
        if same and obs['hash_equal'] is not True:
            diff.append('hash_equal')
        if diff:
            J.bad('equality / hashing of two %s formulas is not coherent with tree equality: %s' % (L, ','.join(diff)),
                  {'kind': 'pair', 'lang': L, 'f': f, 'g': g, 'f_str': fstr(f), 'g_str': fstr(g), 'same_tree': same,
                   'impl': obs, 'model_eq': [m_fg, m_gf], 'expected': exp, 'differs': diff, 'g_built_from_raw_operands': raw})
            continue
        R.count('pairs_%s_%s' % (tag, 'equal' if same else 'unequal'))
        if not same and obs['hash_equal'] is True:
            R.count('hash_collisions_of_unequal_formulas(permitted)')
        if same and fheight(f) >= 1:
            R.nontriv(('pair-eq', L, f))
        elif tag == 'nearmiss':
            R.nontriv(('pair-near', L, f, g))
            if fheight(f) >= 2 and R.cov.get('samples_' + L, 0) < 2:
                R.count('samples_' + L)
                R.sample({'logic': L, 'f': fstr(f), 'g': fstr(g), 'f == g': obs['eq_fg'], 'len({f,g})': obs['set_len']}, limit=8)


def check_triples(R, J, L, triples):
    for (f, g, h) in triples:
        R.evaluations += 1
        M = lang_module(L)
        a, b, c = build(f, M), build(g, M), build(h, M)
        r = {'f==g': call(lambda: a == b)[1], 'g==h': call(lambda: b == c)[1], 'f==h': call(lambda: a == c)[1],
             'g==f': call(lambda: b == a)[1], 'h==g': call(lambda: c == b)[1], 'h==f': call(lambda: c == a)[1],
             'f==f': call(lambda: a == a)[1], 'set': call(lambda: len({a, b, c}))[1]}
        exp = {'f==g': f == g, 'g==h': g == h, 'f==h': f == h, 'g==f': f == g, 'h==g': g == h, 'h==f': f == h, 'f==f': True,
               'set': len({f, g, h})}
        bad = [k for k in exp if r[k] != exp[k]]
        if r['f==g'] is True and r['g==h'] is True and r['f==h'] is not True:
            bad.append('transitivity')
        if r['f==g'] != r['g==f'] or r['g==h'] != r['h==g'] or r['f==h'] != r['h==f']:
            bad.append('symmetry')
        if bad:
            J.bad('== is not an equivalence coherent with tree equality on a triple of %s formulas: %s' % (L, ','.join(bad)),
                  {'kind': 'triple', 'lang': L, 'f': f, 'g': g, 'h': h, 'impl': r, 'expected': exp, 'differs': bad})
        else:
            R.count('triples')
            if len({f, g, h}) < 3:
                R.nontriv(('triple', L, f, g, h))


def check_clones(R, J, items):
    for (L, f) in sorted(items, key=lambda it: fsize(it[1])):
        R.evaluations += 1
        raw = (R.evaluations % 2 == 0) and f[0] not in ('true', 'false', 'ap')
        try:
            obs = impl_clone(L, f, raw=raw)
        except Exception as e:  # noqa  (an observer that raises is an observation: on a correct library none of the steps can fail)
            obs = {'clone': ['the clone / edit protocol raised', '%s: %s' % (type(e).__name__, ' '.join(str(e).split())[:160])]}
        exp = clone_expected(L, f)
        if obs != exp:
            diff = [k for k in exp if obs.get(k) != exp[k]]
            real = any(k in diff for k in ('clone', 'tree', 'langs', 'same_classes', 'eq', 'is_new_object',
                                            'mutation_through_clone_reaches_original', 'mutation_of_original_reaches_clone',
                                            'edited_formula_incoherent'))
            J.bad(('a formula edited after being hashed is ==, but does not hash/collide like, a fresh formula with the same tree'
                   if diff == ['edited_formula_incoherent'] else 'clone() is not an equal, independent copy: %s' % ','.join(diff)),
                  {'kind': 'clone', 'lang': L, 'tree': f, 'tree_str': fstr(f), 'built_from_raw_operands': raw, 'impl': obs, 'expected': exp, 'differs': diff},
                  no_input=not real)
        else:
            R.count('clones')
            if fheight(f) >= 1:
                R.nontriv(('clone', L, f))


def run(R):
    rng = R.rng
    J = Judge(R)
    T = {}
    t_last = [time.time()]

    def mark(name):
        T[name] = round(T.get(name, 0) + time.time() - t_last[0], 1)
        t_last[0] = time.time()
    R.rule = ('formulas of ONE logic (PL / CTL* / CTL state+path / LTL path+A-formulas) over the identifier, non-reserved atoms '
              + ', '.join(ATOMS) + ' and true/false: all ordered pairs of the depth <= 1 enumeration over {p, AX, True, False, true, false} (quick) resp. of the depth <= 2 '
              'enumeration over {AX, true} (thorough, worker processes), sampled pairs of the depth <= 2 enumeration and of random formulas of depth <= 5 with '
              'ternary and/or, each formula also paired with a separately built copy, with a copy built from RAW str/bool operands and the &,|,~ operators, and with a one-edit near miss (atom renamed, operands swapped, '
              'operator swapped, (a or b or c) regrouped, operand duplicated); triples = {f, copy, near miss} permutations; every formula printed (str, repr) '
              'against the model printer in every module that can hold it; every formula cloned, id walk + mutation of every node; '
              'non-trivial = equal pair of distinct objects of height >= 1, near-miss pair, triple with a repeated tree, clone of height >= 1, CTL compact print')
    small_leaves = [('ap', 'p'), ('ap', 'AX'), ('true',), ('false',), ('ap', 'True'), ('ap', 'False')]
    ap_leaves = [('ap', 'AX'), ('true',)]
    pool1 = {L: enum_logic(L, 1, small_leaves) for L in LANGS}
    enum2 = {L: enum_logic(L, 2, ap_leaves) for L in LANGS}
    R.cov['enumeration_sizes'] = {'depth<=1 over {p,AX,True,False,true,false}': {L: len(v) for L, v in pool1.items()},
                                  'depth<=2 over {AX,true}': {L: len(v) for L, v in enum2.items()}}
    for L in LANGS:
        assert all(pymember(L, f) for f in pool1[L]) and all(pymember(L, f) for f in enum2[L])

    # random formulas with the full atom set, ternary and/or, depth <= 5
    nrand = 6000 if R.thorough else 500
    rand = {L: [] for L in LANGS}
    for L in LANGS:
        seen = set()
        while len(rand[L]) < nrand:
            f = rand_of(rng, L, rng.randint(1, 5))
            if f not in seen and pymember(L, f):
                seen.add(f)
                rand[L].append(f)
    R.cov['random_formula_heights'] = {L: dict(collections.Counter(fheight(f) for f in rand[L])) for L in LANGS}

    # ---- print: every generated formula, every module ------------------------------------
    printed = []
    for L in LANGS:
        printed += [(L, f) for f in pool1[L]] + [(L, f) for f in (enum2[L] if R.thorough else rng.sample(enum2[L], min(len(enum2[L]), 1200)))] \
            + [(L, f) for f in rand[L]]
    table = check_prints(R, J, printed)
    # the model printer must be injective on the formulas of one logic (C11_print_injective): machinery check
    for L in LANGS:
        inv = {}
        for (M, f), s in table.items():
            if M == L and pymember(L, f):
                if s in inv and inv[s] != f:
                    raise RuntimeError('C11 machinery: model printer not injective on %s: %s / %s' % (L, fstr(f), fstr(inv[s])))
                inv[s] = f

    mark('generate+print')
    # ---- pairs ---------------------------------------------------------------------------
    for L in LANGS:
        P = pool1[L]
        # (a) all ordered pairs of the small pool (incl. the diagonal, with separately built objects)
        check_pairs(R, J, L, [(f, g) for f in P for g in P], 'pool')
        # (b) sampled pairs of the depth <= 2 enumeration and of the random formulas
        E = enum2[L]
        npairs = 20000 if R.thorough else 700
        check_pairs(R, J, L, [(rng.choice(E), rng.choice(E)) for _ in range(npairs)], 'enum2')
        check_pairs(R, J, L, [(rng.choice(rand[L]), rng.choice(rand[L])) for _ in range(npairs)], 'random')
        # (c) copies and near misses
        src = rand[L] + (E if R.thorough else rng.sample(E, min(len(E), 400)))
        check_pairs(R, J, L, [(f, f) for f in src], 'copy')
        check_pairs(R, J, L, [(f, f) for f in src if fheight(f) >= 1], 'rawcopy')
        nm = []
        for f in src:
            g = near_miss(rng, f, L)
            if g is not None:
                nm.append((f, g))
        check_pairs(R, J, L, nm, 'nearmiss')
        # (d) triples
        triples = []
        for (f, g) in rng.sample(nm, min(len(nm), 3000 if R.thorough else 250)):
            triples += [(f, f, g), (f, g, f), (g, f, f), (f, f, f), (f, g, rng.choice(src))]
        check_triples(R, J, L, triples)
        # (e) global: the whole enumeration as keys of one set / dict
        R.evaluations += 1
        M = lang_module(L)
        A, B = [build(f, M) for f in E], [build(f, M) for f in E]
        d = {o: i for i, o in enumerate(A)}
        g_ok = len(set(A + B)) == len(E) and len(d) == len(E) and all(d.get(o) == i for i, o in enumerate(B)) \
            and all(hash(a) == hash(b) for a, b in zip(A, B))
        if not g_ok:
            badi = [i for i, o in enumerate(B) if d.get(o) != i][:3]
            J.bad('the depth <= 2 enumeration of %s does not behave as %d distinct keys of a set / dict' % (L, len(E)),
                  {'kind': 'keys', 'lang': L, 'set_size': len(set(A + B)), 'expected': len(E), 'first_wrong': [E[i] for i in badi]})
        else:
            R.count('global_set_dict_checks')

    mark('pairs+triples')
    # ---- Bool against python bool --------------------------------------------------------
    cmds = [['eqbool', [L, fsx(('true',) if b else ('false',))], b2] for L in LANGS for b in (True, False) for b2 in (True, False)]
    outs = model_batch(cmds)
    k = 0
    for L in LANGS:
        for b in (True, False):
            for b2 in (True, False):
                R.evaluations += 1
                m = outs[k] == '1'
                k += 1
                if m != (b == b2):
                    raise RuntimeError('C11 machinery: eqbool contradicts C11_bool')
                o = lang_module(L).Bool(b)
                obs = {'Bool==bool': call(lambda: o == b2)[1], 'bool==Bool': call(lambda: b2 == o)[1],
                       'Bool!=bool': call(lambda: o != b2)[1], 'bool!=Bool': call(lambda: b2 != o)[1]}
                exp = {'Bool==bool': m, 'bool==Bool': m, 'Bool!=bool': not m, 'bool!=Bool': not m}
                if obs != exp:
                    J.bad('%s.Bool(%s) against the python bool %s' % (L, b, b2), {'kind': 'bool', 'lang': L, 'b': b, 'pybool': b2, 'impl': obs, 'expected': exp})
                else:
                    R.nontriv(('bool', L, b, b2))
    # other formulas against python booleans (outside the property: model = printed form against 'True'/'False')
    others = [(L, f) for L in LANGS for f in pool1[L][:12] if f[0] not in ('true', 'false')] + [(L, ('ap', 'True')) for L in LANGS]
    outs = model_batch([['eqbool', [L, fsx(f)], b2] for (L, f) in others for b2 in (True, False)])
    k = 0
    for (L, f) in others:
        for b2 in (True, False):
            m = outs[k] == '1'
            k += 1
            o = build(f, lang_module(L))
            if (call(lambda: o == b2)[1], call(lambda: b2 == o)[1]) != (m, m):
                J.bad('non-Bool formula against a python bool differs from the model (outside the property)',
                      {'kind': 'formula-vs-bool', 'lang': L, 'tree': f, 'pybool': b2, 'model': m}, no_input=True)
            R.count('informational_formula_vs_pybool')

    mark('bool')
    # ---- clone ---------------------------------------------------------------------------
    citems = []
    for L in LANGS:
        citems += [(L, f) for f in pool1[L]] + [(L, f) for f in rand[L]] + \
            [(L, f) for f in (enum2[L] if R.thorough else rng.sample(enum2[L], min(len(enum2[L]), 500)))]
    check_clones(R, J, citems)

    mark('clone')
    # ---- all ordered pairs of the depth <= 2 enumeration (thorough) ---------------------
    if R.thorough:
        jobs = min(16, os.cpu_count() or 4)
        ap = {}
        for L in LANGS:
            evals, bad, hcoll = all_pairs(L, enum2[L], jobs)
            R.evaluations += evals
            ap[L] = {'formulas': len(enum2[L]), 'ordered_pairs': evals, 'hash_collisions_of_unequal': hcoll}
            for (i, j) in bad[:5]:
                f, g = enum2[L][i], enum2[L][j]
                J.bad('all-pairs: f == g disagrees with tree equality',
                      {'kind': 'pair', 'lang': L, 'f': f, 'g': g, 'f_str': fstr(f), 'g_str': fstr(g), 'same_tree': f == g})
            J.total_bad += max(0, len(bad) - 5)
        R.cov['all_pairs_depth2'] = ap

    mark('all-pairs')
    # ---- across languages: informational only -------------------------------------------
    across = collections.Counter()
    xs = []
    for L in LANGS:
        for f in rng.sample(pool1[L], 12) + rng.sample(rand[L], 60 if R.thorough else 15):
            for M in LANGS:
                if M != L and pymember(M, f):
                    xs.append((L, f, M, f))
                    g = near_miss(rng, f, M)
                    if g is not None:
                        xs.append((L, f, M, g))
    outs = model_batch_parallel([['eq', [L, fsx(f)], [M, fsx(g)]] for (L, f, M, g) in xs])
    for (L, f, M, g), o in zip(xs, outs):
        obs = impl_pair(L, f, M, g)
        across['pairs'] += 1
        across['same_tree'] += f == g
        across['impl_equal'] += obs['eq_fg'] is True
        across['impl_agrees_with_model'] += (obs['eq_fg'] is True) == (o == '1')
        across['same_tree_but_unequal(CTL compact notation)'] += (f == g and obs['eq_fg'] is not True)
    R.cov['across_languages_informational'] = dict(across)
    mark('across')
    R.cov['section_wall_s'] = T
    for L in LANGS:
        R.cov.pop('samples_' + L, None)
    R.cov['disagreements_total'] = J.total_bad
    R.exhaustive = False


# ----------------------------------------------------------------------------------------
def replay(R, data):
    d = data['data']
    kind = d['kind']
    L = d.get('lang')
    print('case :', {k: v for k, v in d.items() if k not in ('impl', 'expected', 'model')})
    if kind == 'pair':
        f, g = detuple(d['f']), detuple(d['g'])
        obs = impl_pair(L, f, L, g, raw=bool(d.get('g_built_from_raw_operands')))
        m = model_batch([['eq', [L, fsx(f)], [L, fsx(g)]], ['eq', [L, fsx(g)], [L, fsx(f)]], ['print', L, fsx(f)], ['print', L, fsx(g)]])
        exp = expected_pair(f == g)
        print('impl :', obs)
        print('model: eq', m[0], m[1], 'print', repr(str(m[2])), repr(str(m[3])), ' tree equality:', f == g)
        if any(obs[k] != exp[k] for k in exp) or (f == g and obs['hash_equal'] is not True):
            R.violation('replayed', d)
    elif kind == 'triple':
        J = Judge(R)
        check_triples(R, J, L, [(detuple(d['f']), detuple(d['g']), detuple(d['h']))])
        print('violations:', len(R.violations))
    elif kind == 'print':
        f = detuple(d['tree'])
        s = call(lambda: str(build(f, lang_module(L))))
        m = str(model_batch([['print', L, fsx(f)]])[0])
        print('impl :', s)
        print('model:', repr(m))
        if s != ('ok', m):
            R.violation('replayed', d)
    elif kind == 'clone':
        f = detuple(d['tree'])
        obs = impl_clone(L, f, raw=bool(d.get('built_from_raw_operands')))
        exp = clone_expected(L, f)
        print('impl    :', obs)
        print('expected:', exp)
        if obs != exp:
            R.violation('replayed', d)
    elif kind == 'bool':
        o = lang_module(L).Bool(d['b'])
        b2 = d['pybool']
        obs = (call(lambda: o == b2)[1], call(lambda: b2 == o)[1])
        m = model_batch([['eqbool', [L, fsx(('true',) if d['b'] else ('false',))], b2]])[0] == '1'
        print('impl :', obs, ' model:', m)
        if obs != (m, m):
            R.violation('replayed', d)
    else:
        print('re-run the check for this kind of case')
