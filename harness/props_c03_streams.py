"""props_c03_streams.py - streams of C03 added after the second audit (private to props_c03.py).

  GROWN / OBJECT STATES (run_built): the structure is BUILT inside the worker by a recorded sequence of public-API steps on a core
      Kripke object - add_edge / add_node to states the caller never labels, labels(s).update for some of them, the caller dropping
      the (empty) entry of a state from the labelling dict it owns - and its states may be objects that are not values: plain
      instances hashed by identity, instances that hold a resource that cannot be copied (a lock).  The proved model is run on the
      presentation read back from the object (common.kripke_sx); an answer that contains anything that is not a state of K
      (e.g. a copy of a state) is a difference.
  LONG DETERMINISTIC STRUCTURES (run_long): functional graphs (every state has ONE successor: rings, chains into a loop, trees of
      chains that merge) with 1100-3000 states x random formulas, most of them CTL (answered by the CTL back end of the CTL*
      checker: EG / EU / AF / AU / R ...), some with a non-CTL body.  On such a structure every state starts exactly one path, so
      A and E coincide and the exact answer is computed here by an ITERATIVE evaluation of the formula along the successor function
      (lasso_eval; the extracted model works with unary numbers and is not run at this size).
  STALE FALLBACK NAMES (stale_index_cases): structures that carry labels spelled like the fresh name of a quantified subformula AND
      like members of its fallback family '[<name>(k)]' for a random set of indexes k (not only k = 0).
"""
from common import *
from mccheck import *


# ------------------------------------------------------------------------------------------------------------------------------
# states that are objects
# ------------------------------------------------------------------------------------------------------------------------------
class Node(object):
    """a state that is a plain object: hashed and compared by IDENTITY (e.g. a node of the caller's own data base)"""

    def __init__(self, i):
        self.i = i

    def __repr__(self):
        return 'Node(%d)' % self.i


class Handle(object):
    """an identity-hashed state that owns something that can be neither copied nor pickled"""
    __slots__ = ('i', 'lock')

    def __init__(self, i):
        import threading
        self.i = i
        self.lock = threading.Lock()

    def __repr__(self):
        return 'Handle(%d)' % self.i


STATE_KINDS = ['node', 'handle', 'node+int']


def state_maker(kind):
    """number -> state, the same object for the same number"""
    if not kind:
        return lambda i: i
    if kind in RENAMES:
        return RENAMES[kind]
    memo = {}

    def mk(i):
        if i not in memo:
            if kind == 'node':
                memo[i] = Node(i)
            elif kind == 'handle':
                memo[i] = Handle(i)
            else:
                memo[i] = Node(i) if i % 2 == 0 else i
        return memo[i]
    return mk


# ------------------------------------------------------------------------------------------------------------------------------
# structures built by steps of the public API
# ------------------------------------------------------------------------------------------------------------------------------
def build_steps(spec):
    """spec = {'kd': core, 'steps': [...], 'states_as': kind}; returns (K, num) with num: state -> number.
    steps: ['edge', a, b] K.add_edge; ['node', v] K.add_node; ['label', s, [atoms]] K.labels(s).update(atoms);
           ['own'] the caller installs a dict of its own (replace_labelling_function, the sets of K re-used);
           ['drop', s] the caller deletes the entry of s (a state that carries no label) from the labelling dict"""
    mk = state_maker(spec.get('states_as'))
    kd = spec['kd']
    inv = {}

    def st(i):
        s = mk(i)
        inv[s] = i
        return s
    K = mk_py_kripke([st(s) for s in kd['S']], [st(s) for s in kd['S0']], [(st(a), st(b)) for a, b in kd['R']],
                     {st(s): list(ls) for s, ls in kd['L'].items()})
    for step in spec.get('steps', []):
        if step[0] == 'edge':
            K.add_edge(st(step[1]), st(step[2]))
        elif step[0] == 'node':
            K.add_node(st(step[1]))
        elif step[0] == 'label':
            K.labels(st(step[1])).update(step[2])
        elif step[0] == 'own':
            K.replace_labelling_function(dict(K.labelling_function()))
        elif step[0] == 'drop':
            L = K.labelling_function()
            s = st(step[1])
            if s in L and not L[s]:
                del L[s]
    return K, inv


def _built_chunk(chunk):
    out = []
    for spec, f in chunk:
        r0 = call(lambda: build_steps(spec))
        if r0[0] != 'ok':
            out.append((('err', 'build:' + str(r0[1])), None, True, 0))
            continue
        K, inv = r0[1]
        num = inv.__getitem__
        cmd = model_cmd('CTLS', K, f, num=num)
        snap0 = kripke_snapshot(K)
        # canon_answer maps the answer through num: anything that is not one of K's state objects (for identity-hashed states: a
        # copy of one) gives 'other:result-contains-a-non-state'
        r = impl_mc('CTLS', K, f, num=num)
        out.append((tuple(r), cmd, kripke_snapshot(K) == snap0, len(K.states())))
    return out


def grown_cases(rng, n):
    """(spec, formula): a total core with 1-3 states, then 1-3 new states that enter the structure through add_edge (or add_node and
    then add_edge); the caller labels some of them afterwards and leaves the others alone"""
    out = []
    for ci in range(n):
        c = rng.randint(1, 3)
        kd = rand_kripke(rng, c)
        steps = []
        total = c
        fresh = []
        edges = set(kd['R'])

        def edge(a, b):
            if (a, b) not in edges:         # DiGraph.add_edge refuses an edge that is already there
                edges.add((a, b))
                steps.append(['edge', a, b])
        for _ in range(rng.randint(1, 3)):
            v = total
            total += 1
            fresh.append(v)
            if rng.random() < 0.25:
                steps.append(['node', v])
            edge(rng.randrange(v), v)
            for d in rng.sample(range(total), rng.randint(1, min(2, total))):
                edge(v, d)
            if rng.random() < 0.3:
                edge(rng.randrange(v), v)
        labelled = [v for v in fresh if rng.random() < 0.4]
        for v in labelled:
            steps.append(['label', v, sorted(a for a in ('p', 'q') if rng.random() < 0.6)])
        mode = ci % 4
        if mode == 3:
            # the caller owns the labelling dict and removes the entries of states without labels (an absent entry = no labels,
            # as in the dict given to the constructor)
            if rng.random() < 0.5:
                steps.append(['own'])
            for v in range(total):
                if rng.random() < 0.7:
                    steps.append(['drop', v])
        spec = {'kd': kd, 'steps': steps, 'states_as': [None, None, 'node', 'str', None, 'mixed'][ci % 6]}
        # formulas: nested quantifiers (the fresh atoms are added to the clone of the grown structure), both back ends
        f = rand_ctls_state(rng, rng.randint(2, 3))
        out.append((spec, f))
    return out


def object_state_cases(rng, cases):
    """existing (kd, f) cases with states that are objects (identity-hashed instances, instances that cannot be copied)"""
    out = []
    for ci, (kd, f) in enumerate(cases):
        kd = {k: v for k, v in kd.items() if k != 'alias'}
        out.append(({'kd': kd, 'steps': [], 'states_as': STATE_KINDS[ci % len(STATE_KINDS)]}, f))
    return out


def spec_json(spec):
    return {'kd': kd_json(spec['kd']), 'steps': spec.get('steps', []), 'states_as': spec.get('states_as')}


def spec_from_json(j):
    return {'kd': kd_from_json(j['kd']), 'steps': j.get('steps', []), 'states_as': j.get('states_as')}


def final_kd(spec):
    """the structure after the steps, on numbers (for the reference semantics)"""
    K, inv = build_steps(dict(spec, states_as=None))
    L = K.labelling_function()
    return {'S': sorted(K.states()), 'S0': sorted(K.S0), 'R': sorted(K.transitions()), 'L': {s: sorted(L.get(s, ())) for s in K.states()}}


def run_built(R, cases, label):
    """cases: (spec, formula).  CTLS.modelcheck on the built object vs the proved model on the presentation read back from it"""
    res = pmap_chunks(_built_chunk, cases, per=max(6, min(40, len(cases) // (4 * n_jobs()) + 1)))
    idx = [i for i, x in enumerate(res) if x[1] is not None]
    outs = dict(zip(idx, model_batch_parallel([res[i][1] for i in idx])))
    bad = 0
    for i, ((spec, f), (r, _, unchanged, n)) in enumerate(zip(cases, res)):
        R.evaluations += 1
        m = model_obs(outs[i]) if i in outs else ('err', 'not-run')
        kind = spec.get('states_as') or 'int'
        ops = sorted(set(s[0] for s in spec.get('steps', [])))
        if tuple(r) != m or not unchanged:
            bad += 1
            try:
                rr = sorted(ref_check(final_kd(spec), f))
            except Exception as e:  # noqa
                rr = 'ref-failed: %r' % e
            R.violation('CTLS.modelcheck differs from the proved model on a structure built through the public API (%s; states: %s)%s'
                        % (', '.join(ops) or 'constructor only', kind, '' if unchanged else ' (and modified K)'),
                        {'stream': 'built structures', 'logic': 'CTLS', 'spec': spec_json(spec), 'formula': f, 'formula_str': fstr(f),
                         'impl': r, 'model': m, 'reference': rr, 'impl_wrong_by_reference': (r[0] != 'ok' or r[1] != rr)})
            continue
        R.count('agree_CTLS' + label)
        R.count('built%s_states_as:%s' % (label, kind))
        for o in ops:
            R.count('built%s_step:%s' % (label, o))
        if r[0] == 'ok' and has_temporal(f) and 0 < len(r[1]) < n:
            R.nontriv(('built', json.dumps(spec_json(spec), sort_keys=True), f))
    return bad


def replay_built(R, d):
    spec = spec_from_json(d['spec'])
    f = detuple(d['formula'])
    K, inv = build_steps(spec)
    num = inv.__getitem__
    cmd = model_cmd('CTLS', K, f, num=num)
    r = impl_mc('CTLS', K, f, num=num)
    m = model_obs(model_batch([cmd])[0])
    print('steps    :', spec['steps'], ' states as:', spec.get('states_as'))
    print('K        :', K, '  (state numbers: %s)' % {repr(k): v for k, v in inv.items()})
    print('formula  :', fstr(f))
    print('impl     :', r)
    print('model    :', m)
    print('reference:', sorted(ref_check(final_kd(spec), f)))
    if tuple(r) != m:
        R.violation('replayed: implementation differs from the proved model', d)


# ------------------------------------------------------------------------------------------------------------------------------
# long deterministic structures
# ------------------------------------------------------------------------------------------------------------------------------
def long_succ(shape):
    """shape = {'n', 'jumps': {state: successor}}: successor of i is i + 1 unless listed"""
    n = shape['n']
    succ = [i + 1 for i in range(n)]
    for k, v in shape['jumps'].items():
        succ[int(k)] = v
    return succ


def long_labels(shape):
    n = shape['n']
    per = shape.get('q_period', 0)
    notq = set(shape['notq'])
    P = set(shape['p'])
    return [(['p'] if i in P else []) + (['q'] if i not in notq and not (per and i % per == per - 1) else []) for i in range(n)]


def rand_long_shape(rng, lo, hi):
    """ring / chain into a loop / several chains that merge into a chain into a loop"""
    n = rng.randint(lo, hi)
    kind = rng.choice(['ring', 'lasso', 'lasso', 'tree'])
    jumps = {}
    if kind == 'ring':
        jumps[n - 1] = 0
    elif kind == 'lasso':
        jumps[n - 1] = n - rng.choice([1, 1, 2, 3, rng.randint(1, 40)])
    else:
        # main chain 0 .. m-1 into a loop, then 1-3 side chains that join the main chain somewhere
        cuts = sorted(rng.sample(range(n // 2, n - 5), rng.randint(1, 3)))
        m = cuts[0]
        jumps[m - 1] = m - rng.choice([1, 2, rng.randint(1, 20)])
        for a, b in zip(cuts, cuts[1:] + [n]):
            jumps[b - 1] = rng.randrange(0, m)
    far = [rng.randrange(n) for _ in range(4)] + [0, n - 1, n // 2] + list(jumps.values()) + list(jumps.keys())
    shape = {'n': n, 'kind': kind, 'jumps': jumps,
             'p': sorted(set(rng.sample(far, rng.randint(0, 3)))),
             'notq': sorted(set(rng.sample(far, rng.randint(1, 3)))),
             'q_period': rng.choice([0, 0, 0, 2, 7, 500])}
    return shape


def lasso_eval(succ, labels, f):
    """truth set of a CTL* state/path formula on a functional graph (one path per state, so A = E = identity); iterative"""
    n = len(succ)
    preds = [[] for _ in range(n)]
    for i, j in enumerate(succ):
        preds[j].append(i)
    memo = {}

    def until(a, b):
        v = list(b)
        todo = [i for i in range(n) if v[i]]
        while todo:
            j = todo.pop()
            for i in preds[j]:
                if not v[i] and a[i]:
                    v[i] = True
                    todo.append(i)
        return v

    def neg(a):
        return [not x for x in a]

    def ev(g):
        if g in memo:
            return memo[g]
        t = g[0]
        if t == 'true':
            v = [True] * n
        elif t == 'false':
            v = [False] * n
        elif t == 'ap':
            v = [g[1] in labels[i] for i in range(n)]
        elif t == 'not':
            v = neg(ev(g[1]))
        elif t == 'or':
            v = [any(x) for x in zip(*[ev(h) for h in g[1:]])]
        elif t == 'and':
            v = [all(x) for x in zip(*[ev(h) for h in g[1:]])]
        elif t == 'imp':
            v = [(not a) or b for a, b in zip(ev(g[1]), ev(g[2]))]
        elif t in ('A', 'E'):
            v = ev(g[1])
        elif t == 'X':
            a = ev(g[1])
            v = [a[succ[i]] for i in range(n)]
        elif t == 'F':
            v = until([True] * n, ev(g[1]))
        elif t == 'G':
            v = neg(until([True] * n, neg(ev(g[1]))))
        elif t == 'U':
            v = until(ev(g[1]), ev(g[2]))
        elif t == 'R':
            v = neg(until(neg(ev(g[1])), neg(ev(g[2]))))
        else:
            raise ValueError(g)
        memo[g] = v
        return v
    # formulas here are shallow (depth <= 4): the recursion is on the formula, never along the structure
    return [i for i, x in enumerate(ev(f)) if x]


def long_build(shape):
    from pyModelChecking.kripke import Kripke
    succ, labels = long_succ(shape), long_labels(shape)
    K = Kripke(R=[(i, j) for i, j in enumerate(succ)], L={i: set(ls) for i, ls in enumerate(labels) if ls})
    return K, succ, labels


def _long_chunk(chunk):
    import pyModelChecking.CTLS as C
    out = []
    built = {}
    for shape, f in chunk:
        key = json.dumps(shape, sort_keys=True)
        if key not in built:
            built.clear()
            built[key] = long_build(shape)
        K, succ, labels = built[key]
        want = lasso_eval(succ, labels, f)
        r = call(lambda: C.modelcheck(K, to_py(f, C)))
        out.append((tuple(canon_answer(r)), want))
    return out


def long_formulas(rng, n_ctl, n_mixed):
    """CTL formulas (every quantifier answered by the CTL back end) with 1-3 temporal operators; a few with a non-CTL body"""
    out = []
    # every CTL operator once, in its plain form and negated / nested
    basics = [(q, (o, ('ap', 'q'))) for q in 'AE' for o in 'GF'] + [(q, (o, ('ap', 'q'), ('ap', 'p'))) for q in 'AE' for o in 'UR']
    basics += [('or', ('E', ('G', ('ap', 'q'))), ('not', ('A', ('F', ('not', ('ap', 'q'))))))]
    out += rng.sample(basics, min(len(basics), max(4, n_ctl // 3)))
    while len(out) < n_ctl:
        f = rand_ctl(rng, rng.randint(1, 3))
        if 1 <= tcount(f) <= 3 and fsize(f) <= 12:
            out.append(f)
    mixed = []
    while len(mixed) < n_mixed:
        f = rand_ctls_state(rng, 3)
        if not is_ctl_state(f) and 1 <= tcount(f) <= 2 and fsize(f) <= 8:
            mixed.append(f)
    return out, mixed


def run_long(R, n_struct, n_ctl, n_mixed, shapes=None):
    rng = R.rng
    items = []
    shapes_used = []
    for si in range(n_struct):
        shape = rand_long_shape(rng, 1100, 3000)
        shapes_used.append(shape)
        ctl, mixed = long_formulas(rng, n_ctl, n_mixed if shape['n'] < 1800 or si == 0 else 0)
        items += [(shape, f) for f in ctl + mixed]
    # cheap CTL cases first in big chunks, one chunk per structure; the non-CTL ones spread over the pool
    cheap = [it for it in items if is_ctl_state(it[1])]
    dear = [it for it in items if not is_ctl_state(it[1])]
    res = pmap_chunks(_long_chunk, cheap, per=max(4, n_ctl // 3)) + pmap_chunks(_long_chunk, dear, per=1)
    bad = 0
    for (shape, f), (r, want) in zip(cheap + dear, res):
        R.evaluations += 1
        n = shape['n']
        tag = 'CTL-back-end' if is_ctl_state(f) else 'non-CTL-body'
        if r[0] != 'ok' or list(r[1]) != want:
            bad += 1
            got = set(r[1]) if r[0] == 'ok' else set()
            R.violation('on a deterministic structure of %d states (%s) CTLS.modelcheck(K, %s) %s' % (
                n, shape['kind'], fstr(f), ('raised ' + str(r[1])) if r[0] != 'ok' else
                'is not exact (%d states returned, %d expected)' % (len(r[1]), len(want))),
                {'stream': 'long deterministic structures', 'logic': 'CTLS', 'shape': shape, 'formula': f, 'formula_str': fstr(f),
                 'impl': list(r) if r[0] != 'ok' else ['ok', '%d states' % len(r[1])], 'expected': '%d states' % len(want),
                 'first_wrong_states': sorted(got ^ set(want))[:10] if r[0] == 'ok' else None})
            continue
        R.count('agree_CTLS_long_deterministic:' + tag)
        if has_temporal(f) and 0 < len(want) < n:
            R.nontriv(('long', json.dumps(shape, sort_keys=True), f))
    R.cov['long_deterministic_structures'] = {'shapes': [{k: s[k] for k in ('n', 'kind')} for s in shapes_used], 'differences': bad}
    return bad


def replay_long(R, d):
    import pyModelChecking.CTLS as C
    shape = d['shape']
    f = detuple(d['formula'])
    K, succ, labels = long_build(shape)
    want = lasso_eval(succ, labels, f)
    r = canon_answer(call(lambda: C.modelcheck(K, to_py(f, C))))
    print('structure:', {k: shape[k] for k in shape})
    print('formula  :', fstr(f))
    print('impl     :', r if r[0] != 'ok' else ('ok', '%d states' % len(r[1]), 'first: %s' % r[1][:10]))
    print('expected :', '%d states' % len(want), 'first: %s' % want[:10])
    if r[0] != 'ok' or list(r[1]) != want:
        print('symmetric difference (first 10):', sorted(set(r[1]) ^ set(want))[:10] if r[0] == 'ok' else '-')
        R.violation('replayed: implementation differs from the exact answer', d)


# ------------------------------------------------------------------------------------------------------------------------------
# labels spelled like fresh names and like members of their fallback families
# ------------------------------------------------------------------------------------------------------------------------------
def fresh_name(g, CTLS):
    """the name the elimination gives to the quantified formula g when nothing collides: inner quantified subformulas are replaced
    by atoms carrying THEIR names first"""
    def subst(h):
        if h[0] in ('true', 'false', 'ap'):
            return h
        if h[0] in ('A', 'E'):
            return ('ap', fresh_name(h, CTLS))
        return (h[0],) + tuple(subst(x) for x in h[1:])
    return '[%s]' % str(to_py((g[0], subst(g[1])), CTLS))


def stale_index_cases(rng, n, gen):
    """like mccheck.stale_label_cases, with the fallback family: next to '[f]' the structure carries '[[f](k)]' for a random set of
    indexes k in 0..11 (gaps included, so that whatever index a fallback scheme tries first - 0, 1, the number of labels or of
    states of K, ... - is taken in part of the cases); names are computed innermost-first, so nested quantifiers are hit too"""
    import pyModelChecking.CTLS as CTLS
    out = []
    tries = 0
    while len(out) < n and tries < 20 * n:
        tries += 1
        kd = rand_kripke(rng, rng.randint(2, 5), aps=rng.choice([('p',), ('p', 'q'), ('p', 'q')]))
        f = gen()
        qs = [g for g in subformulas(f) if g[0] in ('A', 'E')]
        if not qs:
            continue
        kd = dict(kd)
        kd['L'] = {s: list(ls) for s, ls in kd['L'].items()}
        for g in rng.sample(qs, min(len(qs), rng.choice([1, 1, 2]))):
            name = fresh_name(g, CTLS)
            ks = rng.sample(range(12), rng.randint(1, 7))
            names = [name] + ['[%s(%d)]' % (name, k) for k in ks]
            for nm in names:
                # every name labels at least one state (so that it is a label of K), each on a set of its own
                on = [s for s in kd['S'] if rng.random() < 0.5] or [rng.choice(kd['S'])]
                for s in on:
                    if nm not in kd['L'][s]:
                        kd['L'][s].append(nm)
        out.append((kd, f))
    return out
