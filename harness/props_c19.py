"""C19 - every well-formed query returns a fresh set of the structure's own states.
Theorems (Properties/C19.v): C19_total, C19_subset (from C01-C03), C19_fresh (heap model).
Correspondence / monitored part: the runtime dimension the model cannot express - Python value types.
Structures whose states are strings, tuples, negative ints, frozensets or a mixture, labels that are ints /
tuples / operator-like / fresh-atom-like / fair-like strings, atoms absent from K, deep formulas, text
formulas.  For every query: the call returns (no internal error), the result IS a set, contains only states
of K, is a new object on every call, is not an object of K, and after the caller mutates it a repeated call
(and a call on the negated formula) again returns the model's answer while the caller's set keeps what the
caller put into it.  States and labels are numbered through a bijection for the model (states are nat there).
EXACT answers are compared only where no known finding applies (formula atoms are non-reserved identifiers);
for exotic atom names only the weaker contract (set of states, no internal error, fresh object) is asserted."""
from common import *
from mccheck import *
from props_c07 import ftext, snap_kripke, internal_ids, shared_parser, in_logic, n_temporal, MODEL_F, guarded, TIMEOUTS
LEVEL = 'proof'

LOGICS = ('CTL', 'LTL', 'CTLS')
RESERVED = {'A', 'E', 'X', 'F', 'G', 'U', 'R', 'not', 'or', 'and', 'true', 'false'}
IDENT = re.compile(r'^[a-zA-Z_][a-zA-Z_0-9]*$')
GOOD_ATOMS = ['p', 'q', 'r', 'zz', 'fair', 'fair0', 'x1', '_a', 'P']      # r, zz, x1, _a, P label a state only in the 'all' label mix
EXOTIC_ATOMS = ['or', 'A', 'true', 'not p', 'E', 'U', 'not', '(p or q)', 'A(G(p))', '[E(X(p))]', '[p]', '[A(F(G(p)))]', '', ' ', 'p q', '"p"']
OPLIKE = ['or', 'A', 'true', 'not p', 'E', 'U', 'X', 'and', 'false', '(p or q)', 'A(G(p))', 'not', 'EX p', '-->']
FAIRLIKE = ['fair', 'fair0', 'fair1', 'fair2']
NONSTR = [0, 1, -1, (), ('p',), ('p', 'q'), 2.5, frozenset(['p']), (1, (2, 3))]

FAMILIES = {
    'str': ['s0', 's1', 'a b', '', 'None', 'p', '\xe9t\xe9', '0', 'fair', '[E(X(p))]', 'or'],
    'tuple': [(0, 1), ('a',), (), ((1, 2), 3), (0,), ('p', 'q'), (0, 0), (-1, 'x'), ((),)],
    'negint': [-1, -2, -3, -10, -7, -100, -4],
    'frozenset': [frozenset(), frozenset([0]), frozenset([1, 2]), frozenset(['a']), frozenset([(0, 1)]), frozenset([0, 1, 2]), frozenset(['p', 'q'])],
    'mixed': [0, '0', (0,), -3, frozenset([1]), 's', 1, '1', (), 2.5, (1,), frozenset(), 'p', ('p',), -1],
    'int': [0, 1, 2, 3, 4, 5, 6],
}


def is_good_atom(a):
    return bool(IDENT.match(a)) and a not in RESERVED


# ---------- JSON encoding of exotic values (replay files) ----------
def enc(v):
    if isinstance(v, bool):
        raise ValueError('bool values are not used')
    if isinstance(v, (int, float)):
        return v
    if isinstance(v, str):
        return {'s': v}
    if isinstance(v, tuple):
        return {'t': [enc(x) for x in v]}
    if isinstance(v, frozenset):
        return {'fs': [enc(x) for x in sorted(v, key=repr)]}
    raise ValueError(repr(v))


def dec(j):
    if isinstance(j, dict):
        if 's' in j:
            return j['s']
        if 't' in j:
            return tuple(dec(x) for x in j['t'])
        return frozenset(dec(x) for x in j['fs'])
    return j


def labname(a):
    """model name of a label: strings as they are, other values under a name no atom can have"""
    return a if type(a) is str else '<%s:%r>' % (type(a).__name__, a)


def to_py_iter(f, L):
    """bottom-up construction without harness recursion (so a RecursionError is the library's own)"""
    out, stack = [], [(f, False)]
    while stack:
        node, done = stack.pop()
        t = node[0]
        if t == 'true':
            out.append(L.Bool(True))
        elif t == 'false':
            out.append(L.Bool(False))
        elif t == 'ap':
            out.append(L.AtomicProposition(node[1]))
        elif not done:
            stack.append((node, True))
            for g in reversed(node[1:]):
                stack.append((g, False))
        else:
            k = len(node) - 1
            args = out[-k:]
            del out[-k:]
            out.append(getattr(L, PYNAME[t])(*args))
    return out[0]


def height_iter(f):
    best, stack = 0, [(f, 0)]
    while stack:
        n, d = stack.pop()
        best = max(best, d)
        if n[0] not in ('true', 'false', 'ap'):
            for g in n[1:]:
                stack.append((g, d + 1))
    return best


# ---------- deep formulas ----------
def leafs(rng, atoms):
    return ('ap', rng.choice(atoms)) if rng.random() < 0.85 else rng.choice([('true',), ('false',)])


def deep_formula(rng, logic, h, atoms):
    """a state formula of the logic whose tree height is in [h, h+3]; chains with small side operands.
    LTL: at most 3 temporal operators (the tableau is exponential in them); CTL: at most 3 of A U / A R / E R
    (their restricted form duplicates an operand, nesting them is exponential); CTL*: every temporal block
    starts with its own quantifier, so every LTL segment stays small"""
    f = leafs(rng, atoms)
    budget = 3

    def boolean(f):
        o = rng.choice(['not', 'or', 'and', 'imp'])
        if o == 'not':
            return ('not', f)
        side = leafs(rng, atoms)
        if o in ('or', 'and') and rng.random() < 0.2:
            return (o, side, f, leafs(rng, atoms))
        return (o, f, side) if rng.random() < 0.5 else (o, side, f)
    while height_iter(f) < h - (1 if logic == 'LTL' else 0):
        r = rng.random()
        if logic == 'CTL':
            if r < 0.35:
                f = boolean(f)
            else:
                q, o = rng.choice('AE'), rng.choice('XFGUR')
                if o in 'UR' and (q, o) != ('E', 'U'):
                    # A U / A R / E R are rewritten with two copies of an operand: exponential when nested
                    if budget == 0:
                        q, o = 'E', 'U'
                    else:
                        budget -= 1
                if o in 'XFG':
                    f = (q, (o, f))
                else:
                    side = leafs(rng, atoms)
                    f = (q, (o, f, side)) if rng.random() < 0.5 else (q, (o, side, f))
        elif logic == 'LTL':
            if r < 0.9 or budget == 0:
                f = boolean(f)
            else:
                budget -= 1
                o = rng.choice('XFGUR')
                f = (o, f) if o in 'XFG' else ((o, f, leafs(rng, atoms)) if rng.random() < 0.5 else (o, leafs(rng, atoms), f))
        else:
            if r < 0.35:
                f = boolean(f)
            else:
                q = rng.choice('AE')
                k = rng.choice(['X', 'FG', 'GF', 'XX', 'orX', 'UX', 'F'])
                if k == 'X':
                    f = (q, ('X', f))
                elif k == 'F':
                    f = (q, ('F', f))
                elif k == 'FG':
                    f = (q, ('F', ('G', f)))
                elif k == 'GF':
                    f = (q, ('G', ('F', f)))
                elif k == 'XX':
                    f = (q, ('X', ('X', f)))
                elif k == 'orX':
                    f = (q, ('or', ('X', f), leafs(rng, atoms)))
                else:
                    f = (q, ('U', leafs(rng, atoms), ('X', f)))
    if logic == 'LTL':
        f = ('A', f)
    return f


# ---------- cases ----------
def subst_atoms(rng, f, names, p):
    t = f[0]
    if t == 'ap':
        return ('ap', rng.choice(names)) if rng.random() < p else f
    if t in ('true', 'false'):
        return f
    return (t,) + tuple(subst_atoms(rng, g, names, p) for g in f[1:])


def gen_formula(rng, logic, atoms):
    need = 1 if rng.random() < 0.85 else 0
    while True:
        if logic == 'CTL':
            f = rand_ctl(rng, rng.randint(1, 3), atoms)
        elif logic == 'LTL':
            f = ('A', rand_path(rng, rng.randint(1, 3), atoms))
        else:
            f = rand_ctls_state(rng, rng.randint(1, 3), atoms)
        if need <= n_temporal(f) <= 4 and fsize(f) <= 16:
            return f


def fresh_like(rng, f):
    """names the CTL* elimination would choose for quantified subformulas of f (and their first fallbacks)"""
    import pyModelChecking.CTLS as C
    out = []
    for g in subformulas(f):
        if g[0] in ('A', 'E'):
            s = '[%s]' % to_py_iter(g, C)
            out += [s, '[%s(0)]' % s]
    return out


def gen_case(rng, family=None, logic=None, cls=None, deep=None, mode=None, Fkind=None, extra=None, formula=None, p_text=0.15):
    family = family or rng.choice(['str', 'tuple', 'negint', 'frozenset', 'mixed', 'mixed', 'mixed', 'int'])
    logic = logic or rng.choice(LOGICS)
    n = rng.randint(1, 5)
    kd = rand_kripke(rng, n)
    states = rng.sample(FAMILIES[family], n)
    if cls is None:
        r = rng.random()
        cls = 'exact' if r < 0.8 else 'weak' if r < 0.97 else 'ool'
    atoms = ['p', 'q'] + [rng.choice(GOOD_ATOMS) for _ in range(2)]
    if formula is not None:
        f = formula
    elif deep:
        f = deep_formula(rng, logic, deep, atoms)
    elif cls == 'ool':
        others = [l for l in LOGICS if l != logic]
        while True:      # CTL*: a path formula that is no state formula; CTL / LTL: a formula of another logic
            f = rand_path(rng, 2, atoms, quant=True) if logic == 'CTLS' else gen_formula(rng, rng.choice(others), atoms)
            if not in_logic(logic, f) and n_temporal(f) <= 4:
                break
    elif cls == 'exact' and rng.random() < 0.06:
        # degenerate queries: the branches that could hand out a constant / cached / internal object
        f = rng.choice([('true',), ('false',), ('ap', rng.choice(atoms)), ('not', ('ap', rng.choice(atoms))), ('not', ('true',)),
                        ('or', ('ap', 'p'), ('true',)), ('and', ('true',), ('true',)), ('imp', ('ap', 'q'), ('ap', 'p'))])
        f = ('A', f) if logic == 'LTL' else f
    else:
        f = gen_formula(rng, logic, atoms)
    if cls == 'weak':
        f = subst_atoms(rng, f, EXOTIC_ATOMS + fresh_like(rng, f)[:2], 0.5)
        if all(is_good_atom(a) for a in fatoms(f)):
            f = ('or', f, ('ap', rng.choice(EXOTIC_ATOMS))) if logic != 'LTL' else ('A', ('or', f[1], ('ap', rng.choice(EXOTIC_ATOMS))))
    # labels: the base {p,q} labelling plus exotic extras
    extra = extra if extra is not None else rng.choice(['none', 'nonstr', 'oplike', 'fresh', 'fair', 'all', 'all'])
    pool = []
    if extra in ('nonstr', 'all'):
        pool += rng.sample(NONSTR, 3)
    if extra in ('oplike', 'all'):
        pool += rng.sample(OPLIKE, 3)
    if extra in ('fresh', 'all'):
        fl = fresh_like(rng, f)
        pool += rng.sample(fl, min(len(fl), 3)) or ['[E(X(p))]']
    if extra in ('fair', 'all'):
        pool += rng.sample(FAIRLIKE, rng.randint(1, 3))
    if extra == 'all':
        pool += [a for a in GOOD_ATOMS if rng.random() < 0.2]
    labels = {}
    for i in range(n):
        ls = list(kd['L'][i]) + [x for x in pool if rng.random() < 0.45]
        labels[str(i)] = [enc(x) for x in ls]
    if Fkind is None:
        r = rng.random()
        Fkind = 'none' if r < 0.6 else 'empty' if r < 0.7 else 'sets'
    F = None if Fkind == 'none' else [] if Fkind == 'empty' else \
        [sorted(i for i in range(n) if rng.random() < 0.5) for _ in range(rng.randint(1, 3))]
    if mode is None:
        mode = 'text' if (cls == 'exact' and rng.random() < p_text) else 'obj'
    mut = rng.choice(['add-state', 'add-foreign', 'clear', 'discard', 'update-all'])
    return {'family': family, 'states': [enc(s) for s in states], 'S0': kd['S0'], 'R': [list(e) for e in kd['R']],
            'labels': labels, 'logic': logic, 'formula': f, 'mode': mode, 'F': F, 'cls': cls, 'mut': mut,
            'negated_followup': logic != 'LTL' and cls != 'ool' and rng.random() < 0.5,
            'relabel': rng.random() < 0.3}


def build(case):
    states = [dec(s) for s in case['states']]
    K = mk_py_kripke(list(states), [states[i] for i in case['S0']], [(states[a], states[b]) for a, b in case['R']],
                     {states[int(i)]: [dec(x) for x in ls] for i, ls in case['labels'].items()})
    if case.get('relabel'):
        # the labelling is (re)installed through the public replace_labelling_function: equal label sets become ONE shared set
        # object, and the caller's dict also carries entries for objects that are NOT states (a design-wide labelling dict)
        groups, L = {}, {}
        for s in K.states():
            key = frozenset(K.labels(s))
            L[s] = groups.setdefault(key, set(key))
        allab = set(a for ls in L.values() for a in ls)
        L[('#not-a-state', 1)] = set(allab) | {'p', 'q'}
        L['#ghost'] = set(allab)
        K.replace_labelling_function(L)
    num = {s: i for i, s in enumerate(K._next)}
    return K, states, num


def ksx(K, num):
    g = [[num[k], [num[d] for d in ds]] for k, ds in K._next.items()]
    init = [num[s] for s in K.S0]
    lab = [[num[s], [Q(a) for a in sorted(set(labname(a) for a in K._labels[s]))]] for s in K._labels if s in K._next]
    return [g, init, lab]


def mcmd(logic, ks, f, F):
    if F is None:
        return ['ctl', ks, fsx(f)] if logic == 'CTL' else ['ltl', ks, fsx(f)] if logic == 'LTL' else ['ctls', 'CTLS', ks, fsx(f)]
    return [MODEL_F[logic], ks, fsx(f), F]


FOREIGN = ('#foreign', 0)


def contract(v, K, earlier):
    """the type-level contract on one returned object; list of complaints"""
    bad = []
    if type(v) is not set:
        return ['the result is a %s, not a set' % type(v).__name__]
    sts = set(K.states())
    if not v <= sts:
        bad.append('the result contains non-states: %r' % sorted(map(repr, v - sts)))
    if any(v is e for e in earlier):
        bad.append('the result IS the object returned by an earlier call')
    if id(v) in internal_ids(K):
        bad.append('the result IS an internal object of the structure')
    return bad


def run_case(case):
    """-> (observations, model commands); observations are compared with the model later"""
    f = detuple(case['formula'])
    logic = case['logic']
    L = lang_module(logic)
    K, states, num = build(case)
    snap0 = snap_kripke(K)
    ks = ksx(K, num)
    order_differs = False
    if case['F'] is not None:
        # With F the library works on kripke.clone(); Kripke.get_fair_states (known finding KF-C15-a) looks at the
        # FIRST-yielded node of each SCC, so its answer depends on the iteration order of the clone's successor
        # sets, which for non-int states (hash collisions, insertion history) may differ from the original's.
        # The faithful model is therefore given the presentation of a clone (clone() is deterministic).
        ksc = ksx(K.clone(), num)
        order_differs = ksc != ks
        ks = ksc
    n = len(states)
    Fm = None if case['F'] is None else [sorted(num[states[i]] for i in P) for P in case['F']]

    def mkF():
        return None if case['F'] is None else [set(states[i] for i in P) for P in case['F']]
    if case['mode'] == 'text':
        arg = ftext(f)
        back = call(lambda: tree_of(shared_parser(logic)(arg)))
        if back != ('ok', f):
            raise RuntimeError('text %r does not parse back to %r in %s (%r)' % (arg, f, logic, back))
    else:
        arg = to_py_iter(f, lang_module('CTLS') if case['cls'] == 'ool' else L)

    def query(a):
        Fv = mkF()
        if Fv is None:
            return guarded(lambda: L.modelcheck(K, a))
        return guarded(lambda: L.modelcheck(K, a, F=Fv))

    def canon(v):
        return ['ok', sorted(num[s] for s in v)] if type(v) is set and v <= set(K.states()) else ['ok', 'uncanonical']
    obs = {'calls': [], 'complaints': [], 'clone_order_differs': order_differs}
    cmds = [mcmd(logic, ks, f, Fm)]
    kept = []

    def done():
        if snap_kripke(K) != snap0:
            obs['complaints'].append('the structure was modified (labels / transitions / identities)')
        return obs, cmds, K, num
    r1 = query(arg)
    if r1[0] != 'ok':
        obs['calls'].append(['first', list(r1), 0])
        return done()
    v1 = r1[1]
    obs['complaints'] += ['first call: ' + c for c in contract(v1, K, kept)]
    obs['calls'].append(['first', canon(v1), 0])
    obs['size'] = (len(v1), n) if type(v1) is set else None
    kept.append(v1)
    if type(v1) is set:
        # the caller does what it likes with ITS set
        m = case['mut']
        if m == 'add-state':
            rest = [s for s in states if s not in v1]
            v1.add(rest[0] if rest else FOREIGN)
        elif m == 'add-foreign':
            v1.add(FOREIGN)
        elif m == 'clear':
            v1.clear()
        elif m == 'discard':
            if v1:
                v1.discard(sorted(v1, key=repr)[0])
            else:
                v1.add(FOREIGN)
        else:
            v1.update(states)
            v1.add(FOREIGN)
        mine = set(v1)
    r2 = query(arg)
    if r2[0] != 'ok':
        obs['calls'].append(['after-mutation', list(r2), 0])
        return done()
    v2 = r2[1]
    obs['complaints'] += ['repeated call: ' + c for c in contract(v2, K, kept)]
    obs['calls'].append(['after-mutation', canon(v2), 0])
    kept.append(v2)
    if type(v1) is set and v1 != mine:
        obs['complaints'].append('a later call changed the set the caller owns: %r -> %r' % (sorted(map(repr, mine)), sorted(map(repr, v1))))
    if case['negated_followup'] and type(v2) is set:
        v2.clear()
        v2.add(FOREIGN)
        g = ('not', f)
        cmds.append(mcmd(logic, ks, g, Fm))
        a3 = ftext(g) if case['mode'] == 'text' else to_py_iter(g, L)
        r3 = query(a3)
        if r3[0] != 'ok':
            obs['calls'].append(['negated', list(r3), 1])
        else:
            v3 = r3[1]
            obs['complaints'] += ['call on the negated formula: ' + c for c in contract(v3, K, kept)]
            obs['calls'].append(['negated', canon(v3), 1])
        if v2 != {FOREIGN} or (type(v1) is set and v1 != mine):
            obs['complaints'].append('a later call changed a set the caller owns')
    return done()


def judge(case, obs, exps):
    """complaints of one case given the model's answers"""
    bad = list(obs['complaints'])
    for name, res, k in obs['calls']:
        e = exps[k]
        if res[0] == 'err':
            if res[1] == 'TypeError' and (case['cls'] == 'ool' or e == ['err', 'TypeError']):
                continue                                  # documented rejection of out-of-logic input
            if case['cls'] == 'weak' and res[1] == 'TypeError':
                bad.append('%s call raised TypeError for a well-formed query' % name)
                continue
            bad.append('%s call raised %s (model: %s)' % (name, res[1], e))
        elif case['cls'] == 'exact':
            if res != e:
                bad.append('%s call returned %s, the model gives %s' % (name, res[1], e))
        elif case['cls'] == 'ool':
            if e[0] == 'ok' and res != e:
                bad.append('%s call returned %s, the model gives %s' % (name, res[1], e))
    return bad


def exp_of(o):
    m = model_obs(o)
    return [m[0], m[1]]


# ---------- the library's practical nesting limit (informational) ----------
def depth_probe(R):
    rng = random.Random(R.seed)
    K = kd_py({'S': [0], 'S0': [], 'R': [(0, 0)], 'L': {0: ['p']}})
    out = {}
    heights = list(range(60, 421, 20 if R.thorough else 60))
    for logic in LOGICS:
        ok_up_to, first_bad = None, None
        for h in heights:
            f = deep_formula(rng, logic, h, ['p', 'q'])
            L = lang_module(logic)
            t0 = time.time()
            o = to_py_iter(f, L)
            r = call(lambda: L.modelcheck(K, o))
            if r[0] != 'ok':
                first_bad = {'height': height_iter(f), 'error': r[1]}
                break
            ok_up_to = height_iter(f)
            if time.time() - t0 > 2.0:
                break
        out[logic] = {'no_error_up_to_height': ok_up_to, 'first_failure': first_bad}
    R.cov['library_nesting_limit_at_default_recursionlimit_%d' % sys.getrecursionlimit()] = out


# ----------------------------------------------------------------------------------------
def corpus(rng):
    cs = []
    for fam in ('str', 'tuple', 'negint', 'frozenset', 'mixed', 'int'):
        for logic in LOGICS:
            cs.append(gen_case(rng, family=fam, logic=logic, cls='exact', extra='all', Fkind='none'))
            cs.append(gen_case(rng, family=fam, logic=logic, cls='exact', extra='fair', Fkind='sets'))
            cs.append(gen_case(rng, family=fam, logic=logic, cls='exact', extra='fresh', Fkind='none', mode='text'))
            cs.append(gen_case(rng, family=fam, logic=logic, cls='weak', extra='all'))
            # the degenerate queries: constants, a label, an atom no state carries, their negations
            for g in (('true',), ('false',), ('ap', 'p'), ('ap', 'r'), ('not', ('ap', 'q')), ('or', ('ap', 'p'), ('true',))):
                g = ('A', g) if logic == 'LTL' else g
                cs.append(gen_case(rng, family=fam, logic=logic, cls='exact', formula=g, mode=rng.choice(['obj', 'obj', 'text']),
                                   Fkind=rng.choice(['none', 'none', 'sets'])))
    return cs


def long_corridors(R):
    """structures with thousands of states (a corridor 0 -> 1 -> ... -> n-1 with a self loop at the end, the end labelled p, the
    rest q): "for every Kripke structure" includes LONG ones - an answer is still a set of K's states (here known in closed
    form: every state satisfies E F p, A F p, E G true, E(q U p), A F G p), not an internal error such as RecursionError from a
    helper that recurses along paths.  The model (unary numbers) is not run at this size."""
    import pyModelChecking.CTL as CTL, pyModelChecking.LTL as LTL, pyModelChecking.CTLS as CTLS
    from pyModelChecking.kripke import Kripke
    n_bad = 0
    for n, name in ((1500, lambda i: i), (2600, lambda i: 's%d' % i), (1200, lambda i: ('c', i))):
        R_ = [(name(i), name(i + 1)) for i in range(n - 1)] + [(name(n - 1), name(n - 1))]
        L_ = {name(i): {'q'} for i in range(n - 1)}
        L_[name(n - 1)] = {'p'}
        K = Kripke(R=R_, L=L_)
        everything = set(K.states())
        qs = [('CTL', CTL, 'E F p'), ('CTL', CTL, 'A F p'), ('CTL', CTL, 'E G true'), ('CTL', CTL, 'E (q U p)'),
              ('CTL', CTL, 'not A G q'), ('LTL', LTL, 'A F p'), ('CTLS', CTLS, 'A F G p')]
        if n > 2000:
            qs = qs[:5]
        for lg, M, text in qs:
            R.evaluations += 1
            r = call(lambda: M.modelcheck(K, text))
            if r[0] != 'ok' or not isinstance(r[1], set) or r[1] != everything:
                n_bad += 1
                R.violation('C19: on a corridor of %d states %s.modelcheck(K, %r) %s' %
                            (n, lg, text, ('raised ' + str(r[1])) if r[0] != 'ok' else 'is not the set of all states (%d elements)' % len(r[1])),
                            {'stream': 'long corridors', 'n_states': n, 'state_kind': repr(name(0)), 'logic': lg, 'formula_text': text,
                             'impl': r if r[0] != 'ok' else ['ok', len(r[1])]})
            else:
                R.nontriv(('corridor', n, lg, text))
    R.cov['long_corridors'] = {'sizes': [1500, 2600, 1200], 'differences': n_bad}


def run(R):
    lo, hi = 30, 60
    R.rule = ('(typed structure, query, caller mutation): 1-5 states drawn from a value family (str incl. empty / operator-like / '
              'non-ASCII, tuple incl. () and nested, negative int, frozenset, mixed int/str/tuple/frozenset/float with 1 vs "1" vs (1,), plain int), '
              'labels {p,q} plus extras (non-string values, operator-like strings, the fresh names the CTL* elimination would pick for '
              'this very formula and their first fallbacks, fair/fair0/..); classes: exact (atoms are non-reserved identifiers, some absent '
              'from K; compared with the extracted model through a numbering of states, labels by name), weak (reserved / bracketed / '
              'printed-formula-like / empty atom names: set of states, no internal error, fresh object only), out-of-logic (TypeError); '
              'F in {None, [], 1-3 sets of typed states} (faithful fairness model); 15%% (thorough 8%%) of exact cases as text; a fixed corpus per family x logic incl. the degenerate queries true / false / p / absent atom; deep formulas of tree '
              'height %d-%d per logic; each case = call, type/subset/identity contract, caller mutates the result (add state / add foreign / '
              'clear / discard / update), same call again vs model, caller set untouched, optionally the negated formula after clobbering the '
              'second result; non-trivial = a state that is not an int and an answer neither empty nor all states; distinct by case'
              % (lo, hi))
    rng = R.rng
    depth_probe(R)
    long_corridors(R)
    cases = corpus(rng)
    n_rand, n_deep = (20000, 450) if R.thorough else (700, 36)
    for _ in range(n_rand):
        cases.append(gen_case(rng, p_text=0.08 if R.thorough else 0.15))
    for i in range(n_deep):
        logic = LOGICS[i % 3]
        cases.append(gen_case(rng, logic=logic, cls='exact', deep=rng.randint(lo, hi - 3),
                              mode='text' if i % 6 == 5 else 'obj', Fkind=rng.choice(['none', 'none', 'sets'])))
    results, cmds = [], []
    for case in cases:
        case = json.loads(json.dumps(case))
        if TIMEOUTS[0] >= 3:
            R.cov['stopped_after_call_timeouts'] = TIMEOUTS[0]
            break
        obs, cs, K, num = run_case(case)
        results.append((case, obs, len(cmds), len(cs)))
        cmds += cs
    outs = model_batch_parallel(cmds)
    depths = {}
    for case, obs, off, k in results:
        exps = [exp_of(o) for o in outs[off:off + k]]
        R.evaluations += len(obs['calls'])
        f = detuple(case['formula'])
        R.count('family_' + case['family'])
        R.count('class_' + case['cls'])
        R.count('logic_' + case['logic'])
        R.count('mode_' + case['mode'])
        R.count('F_' + ('None' if case['F'] is None else 'empty' if not case['F'] else 'sets'))
        R.count('mutation_' + case['mut'])
        if obs.get('clone_order_differs'):
            R.count('fair_cases_where_clone_iteration_order_differs_from_original')
        h = height_iter(f)
        if h >= lo:
            depths[h] = depths.get(h, 0) + 1
            R.count('deep_' + case['logic'])
        for name, res, _ in obs['calls']:
            R.count('outcome_' + (res[0] if res[0] == 'ok' else res[1]))
        if any(a not in ('p', 'q') and is_good_atom(a) for a in fatoms(f)):
            R.count('formula_has_atom_absent_from_K_or_fairlike')
        bad = judge(case, obs, exps)
        if bad:
            R.violation('C19: ' + '; '.join(bad)[:500],
                        {'case': case, 'formula_str': fstr(f), 'observations': obs['calls'], 'model': exps, 'complaints': bad})
            if len(R.violations) >= 25:
                break
            continue
        sz = obs.get('size')
        if sz and case['family'] != 'int' and 0 < sz[0] < sz[1] and any(type(dec(s)) is not int for s in case['states']):
            R.nontriv(case)
            if case['family'] in ('mixed', 'tuple', 'frozenset', 'str') and n_temporal(f) >= 2:
                R.sample({'states': [repr(dec(s)) for s in case['states']], 'labels': {k: [repr(dec(x)) for x in v] for k, v in case['labels'].items()},
                          'query': '%s.modelcheck(K, %s %s, F=%s)' % (case['logic'], case['mode'], fstr(f)[:200], case['F']),
                          'class': case['cls'], 'answers(numbered)': obs['calls'], 'caller_mutation': case['mut']}, limit=5)
    R.cov['deep_formula_heights_used'] = {'min': min(depths) if depths else None, 'max': max(depths) if depths else None,
                                          'count': sum(depths.values())}


def replay(R, data):
    if data['data'].get('stream') == 'long corridors':
        n0 = len(R.violations)
        long_corridors(R)
        print('long corridors re-run: %d violation(s)' % (len(R.violations) - n0))
        return
    case = data['data']['case']
    obs, cs, K, num = run_case(case)
    exps = [exp_of(o) for o in model_batch(cs)]
    print('structure :', K)
    print('numbering :', {repr(s): i for s, i in num.items()})
    print('query     : %s.modelcheck(K, %s %s, F=%s)  class=%s' % (case['logic'], case['mode'], fstr(detuple(case['formula'])), case['F'], case['cls']))
    for name, res, k in obs['calls']:
        print('%-15s impl=%s model=%s' % (name, res, exps[k]))
    bad = judge(case, obs, exps)
    for b in bad:
        print('complaint :', b)
    if bad:
        R.violation('replayed: ' + '; '.join(bad)[:300], data['data'])
