"""C19 - every well-formed query returns a fresh set of the structure's own states.
Theorems (Properties/C19.v): C19_total, C19_subset (from C01-C03), C19_fresh (heap model).
Correspondence / monitored part: the runtime dimension the model cannot express - Python value types.
Structures whose states are strings, tuples, negative ints, frozensets or a mixture, labels that are ints /
tuples / operator-like / fresh-atom-like / fair-like strings, atoms absent from K, deep formulas, text
formulas.  For every query: the call returns (no internal error), the result IS a set, contains only states
of K, is a new object on every call, is not an object of K, and after the caller mutates it a repeated call
(and a call on the negated formula) again returns the model's answer while the caller's set keeps what the
caller put into it.  States and labels are numbered through a bijection for the model (states are nat there).
EXACT answers are compared only where no known finding applies (formula atoms are non-reserved identifiers);
for exotic atom names only the weaker contract (set of states, no internal error, fresh object) is asserted.
Further streams ("for every total Kripke structure and every formula" has no size bound and no hashing assumption):
  * long structures WITH F (LONG_SHAPES: corridor into a 2-clique, ring with self loops, two cliques joined by a corridor; 1100-2400
    states named by ints / strings / tuples / negative ints): closed-form answers that hold under the plain, the textbook-fair and the
    coded semantics alike (no SCC of size 1, every SCC member has a self loop, F chosen so that either every path is fair or the
    queried fact has a fair witness: outside KF-C15-a/b), validated against the extracted model on the same shapes with 6 / 9 states;
  * degenerate structures: Kripke() / Kripke(S=[],..) and one-state structures through all three entry points, text and object,
    F in {None, [], [set()], [{not a state}], sets};
  * states that are plain objects with identity __eq__ (Site: address hash, SiteH: int hash): elements of a result must BE K's objects;
  * one or / and node with 520-1300 operands (object and text) on small typed structures (model) and on a long ring (closed form);
  * build-ask-drop loops: many short-lived structures of equal size asked the same one or two formulas (model answer per round);
  * the public-API channel (api_cases): atoms whose names hold braces / backslashes / percent signs / blanks (format-string and
    escape-sequence shaped; exact class: their printed form cannot be that of another formula), as objects and as QUOTED text
    ("..."; identifier atoms randomly quoted too); CTL* formulas in which the same quantified subformula occurs twice (the fallback
    fresh name); structures that are instances of a Kripke SUBCLASS (own constructor signature / keyword-only / extra attribute);
    structures relabelled through replace_labelling_function with a PARTIAL dict (only some states listed, with or without a ghost
    key); structures GROWN after construction with add_node / add_edge (new states never labelled, also from Kripke()): regression
    of fix F13.  All through the main pipeline (contract, caller mutation, repeated call, model)."""
from common import *
from mccheck import *
from props_c07 import TEXTOP, ftext, snap_kripke, internal_ids, shared_parser, in_logic, n_temporal, MODEL_F, guarded, TIMEOUTS, Site, SiteH
LEVEL = 'proof'

LOGICS = ('CTL', 'LTL', 'CTLS')
RESERVED = {'A', 'E', 'X', 'F', 'G', 'U', 'R', 'not', 'or', 'and', 'true', 'false'}
IDENT = re.compile(r'^[a-zA-Z_][a-zA-Z_0-9]*$')
GOOD_ATOMS = ['p', 'q', 'r', 'zz', 'fair', 'fair0', 'x1', '_a', 'P']      # r, zz, x1, _a, P label a state only in the 'all' label mix
EXOTIC_ATOMS = ['or', 'A', 'true', 'not p', 'E', 'U', 'not', '(p or q)', 'A(G(p))', '[E(X(p))]', '[p]', '[A(F(G(p)))]', '', ' ', 'p q', '"p"']
OPLIKE = ['or', 'A', 'true', 'not p', 'E', 'U', 'X', 'and', 'false', '(p or q)', 'A(G(p))', 'not', 'EX p', '-->']
FAIRLIKE = ['fair', 'fair0', 'fair1', 'fair2']
NONSTR = [0, 1, -1, (), ('p',), ('p', 'q'), 2.5, frozenset(['p']), (1, (2, 3))]

# atom names shaped like format strings / escape sequences / printf directives; none holds ( ) [ ] " or starts with 'not ' or is
# reserved or fair-like: the printed form of such an atom is the printed form of no other formula (outside KF-print-a / KF-C03-a /
# KF-fair-capture), so EXACT answers are compared.  None ends in an odd number of backslashes (not writable as "..." text).
QUOTED_ATOMS = ['{busy}', '{}', 'x in {1,2}', '{0}', '{p}', 'a{b', '}{', '{{}}', '{0!r}', '{:d}', '{q', 'p}',
                '\\xi', '\\phi', '\\nu', 'a\\tb', '\\\\', 'C:\\new\\x', '\\u00', '\\N', '\\0', "\\'", '\\x4', 'p\\q',
                '100%', '%s', '%(p)s', '%d items', '%', '%%', 'x=1', 'a.b', 'a-b', "it's", '$x', '#1', '\xe9{', 'p q', 'p,q', '{%s}']


def is_quotable(a):
    """can be written as "..." text: no double quote, no line break, no trailing odd run of backslashes"""
    return '"' not in a and '\n' not in a and '\r' not in a and (len(a) - len(a.rstrip('\\'))) % 2 == 0


def qtext(f, quote_all=False):
    """concrete syntax like props_c07.ftext, but atoms that are not plain non-reserved identifiers (with quote_all: every atom) are
    written as quoted strings"""
    t = f[0]
    if t in ('true', 'false'):
        return t
    if t == 'ap':
        return f[1] if (is_good_atom(f[1]) and not quote_all) else '"%s"' % f[1]

    def w(g):
        return qtext(g, quote_all) if g[0] in ('true', 'false', 'ap') else '(' + qtext(g, quote_all) + ')'
    op = TEXTOP.get(t, t)
    if t in UNARY:
        return op + ' ' + w(f[1])
    return (' %s ' % op).join(w(g) for g in f[1:])


FAMILIES = {
    'str': ['s0', 's1', 'a b', '', 'None', 'p', '\xe9t\xe9', '0', 'fair', '[E(X(p))]', 'or'],
    'tuple': [(0, 1), ('a',), (), ((1, 2), 3), (0,), ('p', 'q'), (0, 0), (-1, 'x'), ((),)],
    'negint': [-1, -2, -3, -10, -7, -100, -4],
    'frozenset': [frozenset(), frozenset([0]), frozenset([1, 2]), frozenset(['a']), frozenset([(0, 1)]), frozenset([0, 1, 2]), frozenset(['p', 'q'])],
    'mixed': [0, '0', (0,), -3, frozenset([1]), 's', 1, '1', (), 2.5, (1,), frozenset(), 'p', ('p',), -1],
    'int': [0, 1, 2, 3, 4, 5, 6],
}


def is_good_atom(a):
    return bool(IDENT.match(a)) and a not in RESERVED


# ---------- JSON encoding of exotic values (replay files) ----------
def enc(v):
    if isinstance(v, bool):
        raise ValueError('bool values are not used')
    if isinstance(v, Site):
        return {'oh' if isinstance(v, SiteH) else 'o': v.i}
    if isinstance(v, (int, float)):
        return v
    if isinstance(v, str):
        return {'s': v}
    if isinstance(v, tuple):
        return {'t': [enc(x) for x in v]}
    if isinstance(v, frozenset):
        return {'fs': [enc(x) for x in sorted(v, key=repr)]}
    raise ValueError(repr(v))


def dec(j):
    if isinstance(j, dict):
        if 's' in j:
            return j['s']
        if 't' in j:
            return tuple(dec(x) for x in j['t'])
        if 'o' in j:
            return Site(j['o'])          # a NEW plain object (identity __eq__ / __hash__) on every decoding: build() decodes once
        if 'oh' in j:
            return SiteH(j['oh'])        # identity __eq__, hashed like the int
        return frozenset(dec(x) for x in j['fs'])
    return j


def labname(a):
    """model name of a label: strings as they are, other values under a name no atom can have"""
    return a if type(a) is str else '<%s:%r>' % (type(a).__name__, a)


def to_py_iter(f, L):
    """bottom-up construction without harness recursion (so a RecursionError is the library's own)"""
    out, stack = [], [(f, False)]
    while stack:
        node, done = stack.pop()
        t = node[0]
        if t == 'true':
            out.append(L.Bool(True))
        elif t == 'false':
            out.append(L.Bool(False))
        elif t == 'ap':
            out.append(L.AtomicProposition(node[1]))
        elif not done:
            stack.append((node, True))
            for g in reversed(node[1:]):
                stack.append((g, False))
        else:
            k = len(node) - 1
            args = out[-k:]
            del out[-k:]
            out.append(getattr(L, PYNAME[t])(*args))
    return out[0]


def height_iter(f):
    best, stack = 0, [(f, 0)]
    while stack:
        n, d = stack.pop()
        best = max(best, d)
        if n[0] not in ('true', 'false', 'ap'):
            for g in n[1:]:
                stack.append((g, d + 1))
    return best


# ---------- deep formulas ----------
def leafs(rng, atoms):
    return ('ap', rng.choice(atoms)) if rng.random() < 0.85 else rng.choice([('true',), ('false',)])


def deep_formula(rng, logic, h, atoms):
    """a state formula of the logic whose tree height is in [h, h+3]; chains with small side operands.
    LTL: at most 3 temporal operators (the tableau is exponential in them); CTL: at most 3 of A U / A R / E R
    (their restricted form duplicates an operand, nesting them is exponential); CTL*: every temporal block
    starts with its own quantifier, so every LTL segment stays small"""
    f = leafs(rng, atoms)
    budget = 3

    def boolean(f):
        o = rng.choice(['not', 'or', 'and', 'imp'])
        if o == 'not':
            return ('not', f)
        side = leafs(rng, atoms)
        if o in ('or', 'and') and rng.random() < 0.2:
            return (o, side, f, leafs(rng, atoms))
        return (o, f, side) if rng.random() < 0.5 else (o, side, f)
    while height_iter(f) < h - (1 if logic == 'LTL' else 0):
        r = rng.random()
        if logic == 'CTL':
            if r < 0.35:
                f = boolean(f)
            else:
                q, o = rng.choice('AE'), rng.choice('XFGUR')
                if o in 'UR' and (q, o) != ('E', 'U'):
                    # A U / A R / E R are rewritten with two copies of an operand: exponential when nested
                    if budget == 0:
                        q, o = 'E', 'U'
                    else:
                        budget -= 1
                if o in 'XFG':
                    f = (q, (o, f))
                else:
                    side = leafs(rng, atoms)
                    f = (q, (o, f, side)) if rng.random() < 0.5 else (q, (o, side, f))
        elif logic == 'LTL':
            if r < 0.9 or budget == 0:
                f = boolean(f)
            else:
                budget -= 1
                o = rng.choice('XFGUR')
                f = (o, f) if o in 'XFG' else ((o, f, leafs(rng, atoms)) if rng.random() < 0.5 else (o, leafs(rng, atoms), f))
        else:
            if r < 0.35:
                f = boolean(f)
            else:
                q = rng.choice('AE')
                k = rng.choice(['X', 'FG', 'GF', 'XX', 'orX', 'UX', 'F'])
                if k == 'X':
                    f = (q, ('X', f))
                elif k == 'F':
                    f = (q, ('F', f))
                elif k == 'FG':
                    f = (q, ('F', ('G', f)))
                elif k == 'GF':
                    f = (q, ('G', ('F', f)))
                elif k == 'XX':
                    f = (q, ('X', ('X', f)))
                elif k == 'orX':
                    f = (q, ('or', ('X', f), leafs(rng, atoms)))
                else:
                    f = (q, ('U', leafs(rng, atoms), ('X', f)))
    if logic == 'LTL':
        f = ('A', f)
    return f


# ---------- cases ----------
def subst_atoms(rng, f, names, p):
    t = f[0]
    if t == 'ap':
        return ('ap', rng.choice(names)) if rng.random() < p else f
    if t in ('true', 'false'):
        return f
    return (t,) + tuple(subst_atoms(rng, g, names, p) for g in f[1:])


def gen_formula(rng, logic, atoms):
    need = 1 if rng.random() < 0.85 else 0
    while True:
        if logic == 'CTL':
            f = rand_ctl(rng, rng.randint(1, 3), atoms)
        elif logic == 'LTL':
            f = ('A', rand_path(rng, rng.randint(1, 3), atoms))
        else:
            f = rand_ctls_state(rng, rng.randint(1, 3), atoms)
        if need <= n_temporal(f) <= 4 and fsize(f) <= 16:
            return f


def fresh_like(rng, f):
    """names the CTL* elimination would choose for quantified subformulas of f (and their first fallbacks)"""
    import pyModelChecking.CTLS as C
    out = []
    for g in subformulas(f):
        if g[0] in ('A', 'E'):
            s = '[%s]' % to_py_iter(g, C)
            out += [s, '[%s(0)]' % s]
    return out


def gen_case(rng, family=None, logic=None, cls=None, deep=None, mode=None, Fkind=None, extra=None, formula=None, p_text=0.15,
             n=None, ctor=None):
    family = family or rng.choice(['str', 'tuple', 'negint', 'frozenset', 'mixed', 'mixed', 'mixed', 'int'])
    logic = logic or rng.choice(LOGICS)
    n = rng.randint(1, 5) if n is None else n
    kd = rand_kripke(rng, n) if n else {'S0': [], 'R': [], 'L': {}}          # n = 0: the EMPTY structure (vacuously total)
    if family in ('object', 'objecth'):
        # plain objects compared by identity: an element of a result must BE one of K's own state objects
        states = [(Site if family == 'object' else SiteH)(k) for k in rng.sample(range(12), n)]
    else:
        states = rng.sample(FAMILIES[family], n)
    if cls is None:
        r = rng.random()
        cls = 'exact' if r < 0.8 else 'weak' if r < 0.97 else 'ool'
    atoms = ['p', 'q'] + [rng.choice(GOOD_ATOMS) for _ in range(2)]
    if formula is not None:
        f = formula
    elif deep:
        f = deep_formula(rng, logic, deep, atoms)
    elif cls == 'ool':
        others = [l for l in LOGICS if l != logic]
        while True:      # CTL*: a path formula that is no state formula; CTL / LTL: a formula of another logic
            f = rand_path(rng, 2, atoms, quant=True) if logic == 'CTLS' else gen_formula(rng, rng.choice(others), atoms)
            if not in_logic(logic, f) and n_temporal(f) <= 4:
                break
    elif cls == 'exact' and rng.random() < 0.06:
        # degenerate queries: the branches that could hand out a constant / cached / internal object
        f = rng.choice([('true',), ('false',), ('ap', rng.choice(atoms)), ('not', ('ap', rng.choice(atoms))), ('not', ('true',)),
                        ('or', ('ap', 'p'), ('true',)), ('and', ('true',), ('true',)), ('imp', ('ap', 'q'), ('ap', 'p'))])
        f = ('A', f) if logic == 'LTL' else f
    else:
        f = gen_formula(rng, logic, atoms)
    if cls == 'weak':
        f = subst_atoms(rng, f, EXOTIC_ATOMS + fresh_like(rng, f)[:2], 0.5)
        if all(is_good_atom(a) for a in fatoms(f)):
            f = ('or', f, ('ap', rng.choice(EXOTIC_ATOMS))) if logic != 'LTL' else ('A', ('or', f[1], ('ap', rng.choice(EXOTIC_ATOMS))))
    # labels: the base {p,q} labelling plus exotic extras
    extra = extra if extra is not None else rng.choice(['none', 'nonstr', 'oplike', 'fresh', 'fair', 'all', 'all'])
    pool = []
    if extra in ('nonstr', 'all'):
        pool += rng.sample(NONSTR, 3)
    if extra in ('oplike', 'all'):
        pool += rng.sample(OPLIKE, 3)
    if extra in ('fresh', 'all'):
        fl = fresh_like(rng, f)
        pool += rng.sample(fl, min(len(fl), 3)) or ['[E(X(p))]']
    if extra in ('fair', 'all'):
        pool += rng.sample(FAIRLIKE, rng.randint(1, 3))
    if extra == 'all':
        pool += [a for a in GOOD_ATOMS if rng.random() < 0.2]
    labels = {}
    for i in range(n):
        ls = list(kd['L'][i]) + [x for x in pool if rng.random() < 0.45]
        labels[str(i)] = [enc(x) for x in ls]
    if Fkind is None:
        r = rng.random()
        Fkind = 'none' if r < 0.6 else 'empty' if r < 0.7 else 'sets'
    # an index >= n in a fairness set stands for an object that is NOT a state of K (harmless: only intersections with SCCs count)
    F = None if Fkind == 'none' else [] if Fkind == 'empty' else [[]] if Fkind == 'emptyset' else \
        [[n + 1]] + [sorted(i for i in range(n) if rng.random() < 0.5) for _ in range(rng.randint(0, 1))] if Fkind == 'foreign' else \
        [sorted(i for i in range(n) if rng.random() < 0.5) for _ in range(rng.randint(1, 3))]
    if mode is None:
        mode = 'text' if (cls == 'exact' and rng.random() < p_text) else 'obj'
    mut = rng.choice(['add-state', 'add-foreign', 'clear', 'discard', 'update-all'])
    return {'family': family, 'states': [enc(s) for s in states], 'S0': kd['S0'], 'R': [list(e) for e in kd['R']],
            'labels': labels, 'logic': logic, 'formula': f, 'mode': mode, 'F': F, 'cls': cls, 'mut': mut,
            'negated_followup': logic != 'LTL' and cls != 'ool' and rng.random() < 0.5,
            'relabel': rng.random() < 0.3, 'ctor': ctor or 'full'}


def kripke_class(ctor):
    """the class of the structure: Kripke itself or a SUBCLASS of it (a parametric model written by the caller).  An instance of a
    subclass IS a Kripke structure; -> (class, function that builds an instance from S, S0, R, L)"""
    from pyModelChecking.kripke import Kripke
    if ctor == 'subclass-spec':
        class Design(Kripke):                        # its own constructor signature: one positional description
            def __init__(self, spec):
                super(Design, self).__init__(S=spec[0], S0=spec[1], R=spec[2], L=spec[3])
        return Design, lambda S, S0, R, L: Design((S, S0, R, L))
    if ctor == 'subclass-kwonly':
        class Design(Kripke):                        # keyword-only parameters
            def __init__(self, *, states, init, trans, labelling):
                super(Design, self).__init__(states, init, trans, labelling)
        return Design, lambda S, S0, R, L: Design(states=S, init=S0, trans=R, labelling=L)
    if ctor == 'subclass-attr':
        class Design(Kripke):                        # Kripke's signature plus a required name kept as an attribute
            def __init__(self, name, S=None, S0=None, R=None, L=None):
                super(Design, self).__init__(S, S0, R, L)
                self.name = name
        return Design, lambda S, S0, R, L: Design('design', S, S0, R, L)
    return Kripke, mk_py_kripke


def build(case):
    states = [dec(s) for s in case['states']]
    ctor = case.get('ctor', 'full')
    grow = case.get('grow')
    new = set(grow['new']) if grow else set()
    old = [s for i, s in enumerate(states) if i not in new]          # the states the structure is CONSTRUCTED with
    Ld = {states[int(i)]: [dec(x) for x in ls] for i, ls in case['labels'].items() if int(i) not in new}
    if ctor == 'noargs' and not old:
        from pyModelChecking.kripke import Kripke
        K = Kripke()                                  # no state, no transition: every state (there is none) has a successor
    elif ctor == 'R-only':
        from pyModelChecking.kripke import Kripke     # states given by the transitions only (a total structure has no isolated state)
        K = Kripke(R=[(states[a], states[b]) for a, b in case['R']], L=Ld)
    else:
        K = kripke_class(ctor)[1](list(old), [states[i] for i in case['S0']], [(states[a], states[b]) for a, b in case['R']], Ld)
    if case.get('relabel'):
        # the labelling is (re)installed through the public replace_labelling_function: equal label sets become ONE shared set
        # object, and the caller's dict also carries entries for objects that are NOT states (a design-wide labelling dict)
        groups, L = {}, {}
        for s in K.states():
            key = frozenset(K.labels(s))
            L[s] = groups.setdefault(key, set(key))
        allab = set(a for ls in L.values() for a in ls)
        L[('#not-a-state', 1)] = set(allab) | {'p', 'q'}
        L['#ghost'] = set(allab)
        K.replace_labelling_function(L)
    if grow:
        # the structure GROWS after construction through the public add_node / add_edge; the caller never labels the new states
        # (they carry no atomic proposition); the structure is total again when the last operation is done
        for op in grow['ops']:
            if op[0] == 'node':
                K.add_node(states[op[1]])
            else:
                K.add_edge(states[op[1]], states[op[2]])
    part = case.get('relabel_partial')
    if part:
        # replace_labelling_function with a dict that lists only SOME states (the others carry no label from now on)
        L = {states[int(i)]: set(dec(x) for x in ls) for i, ls in part['L'].items()}
        if part.get('ghost'):
            L['#ghost'] = set(a for ls in L.values() for a in ls) | {'p'}
        K.replace_labelling_function(L)
    num = {s: i for i, s in enumerate(K._next)}
    return K, states, num


def ksx(K, num):
    g = [[num[k], [num[d] for d in ds]] for k, ds in K._next.items()]
    init = [num[s] for s in K.S0]
    lab = [[num[s], [Q(a) for a in sorted(set(labname(a) for a in K._labels[s]))]] for s in K._labels if s in K._next]
    return [g, init, lab]


def mcmd(logic, ks, f, F):
    if F is None:
        return ['ctl', ks, fsx(f)] if logic == 'CTL' else ['ltl', ks, fsx(f)] if logic == 'LTL' else ['ctls', 'CTLS', ks, fsx(f)]
    return [MODEL_F[logic], ks, fsx(f), F]


FOREIGN = ('#foreign', 0)


def contract(v, K, earlier):
    """the type-level contract on one returned object; list of complaints"""
    bad = []
    if type(v) is not set:
        return ['the result is a %s, not a set' % type(v).__name__]
    sts = set(K.states())
    if not v <= sts:
        bad.append('the result contains non-states: %r' % sorted(map(repr, v - sts)))
    if any(v is e for e in earlier):
        bad.append('the result IS the object returned by an earlier call')
    if id(v) in internal_ids(K):
        bad.append('the result IS an internal object of the structure')
    return bad


def run_case(case):
    """-> (observations, model commands); observations are compared with the model later"""
    f = detuple(case['formula'])
    logic = case['logic']
    L = lang_module(logic)
    K, states, num = build(case)
    snap0 = snap_kripke(K)
    ks = ksx(K, num)
    order_differs = False
    if case['F'] is not None:
        # With F the library works on kripke.clone(); Kripke.get_fair_states (known finding KF-C15-a) looks at the
        # FIRST-yielded node of each SCC, so its answer depends on the iteration order of the clone's successor
        # sets, which for non-int states (hash collisions, insertion history) may differ from the original's.
        # The faithful model is therefore given the presentation of a clone (clone() is deterministic).
        try:
            ksc = ksx(K.clone(), num)
            order_differs = ksc != ks
            ks = ksc
        except Exception:
            pass               # the clone holds objects that are not K's states (identity-compared states), or clone() itself fails
                               # (e.g. on an instance of a subclass): the query below meets the same and the contract reports it
    n = len(states)

    def fst(i):
        return states[i] if i < n else ('#not-a-state', i)
    Fm = None if case['F'] is None else [sorted(num[states[i]] if i < n else 1000 + i for i in P) for P in case['F']]

    def mkF():
        return None if case['F'] is None else [set(fst(i) for i in P) for P in case['F']]
    if case['mode'] == 'text':
        arg = ftext(f)
        back = call(lambda: tree_of(shared_parser(logic)(arg)))
        if back != ('ok', f):
            raise RuntimeError('text %r does not parse back to %r in %s (%r)' % (arg, f, logic, back))
    elif case['mode'] == 'qtext':
        # quoted atoms: the tree is f by the grammar (a_prop -> ESCAPED_STRING, the name is what stands between the quotes); the
        # library's own parser is NOT asked first - a text it cannot read shows as the outcome of the query
        arg = qtext(f, case.get('quote_all', False))
    else:
        arg = to_py_iter(f, lang_module('CTLS') if case['cls'] == 'ool' else L)

    def query(a):
        Fv = mkF()
        if case.get('parser') == 'shared':
            # (the default route builds a new parser per call; the caller may pass its own: one per logic and interpreter)
            return guarded(lambda: L.modelcheck(K, a, parser=shared_parser(logic), F=Fv))
        if Fv is None:
            return guarded(lambda: L.modelcheck(K, a))
        return guarded(lambda: L.modelcheck(K, a, F=Fv))

    def canon(v):
        return ['ok', sorted(num[s] for s in v)] if type(v) is set and v <= set(K.states()) else ['ok', 'uncanonical']
    obs = {'calls': [], 'complaints': [], 'clone_order_differs': order_differs}
    cmds = [mcmd(logic, ks, f, Fm)]
    kept = []

    def done():
        if snap_kripke(K) != snap0:
            obs['complaints'].append('the structure was modified (labels / transitions / identities)')
        return obs, cmds, K, num
    r1 = query(arg)
    if r1[0] != 'ok':
        obs['calls'].append(['first', list(r1), 0])
        return done()
    v1 = r1[1]
    obs['complaints'] += ['first call: ' + c for c in contract(v1, K, kept)]
    obs['calls'].append(['first', canon(v1), 0])
    obs['size'] = (len(v1), n) if type(v1) is set else None
    kept.append(v1)
    if type(v1) is set:
        # the caller does what it likes with ITS set
        m = case['mut']
        if m == 'add-state':
            rest = [s for s in states if s not in v1]
            v1.add(rest[0] if rest else FOREIGN)
        elif m == 'add-foreign':
            v1.add(FOREIGN)
        elif m == 'clear':
            v1.clear()
        elif m == 'discard':
            if v1:
                v1.discard(sorted(v1, key=repr)[0])
            else:
                v1.add(FOREIGN)
        else:
            v1.update(states)
            v1.add(FOREIGN)
        mine = set(v1)
    r2 = query(arg)
    if r2[0] != 'ok':
        obs['calls'].append(['after-mutation', list(r2), 0])
        return done()
    v2 = r2[1]
    obs['complaints'] += ['repeated call: ' + c for c in contract(v2, K, kept)]
    obs['calls'].append(['after-mutation', canon(v2), 0])
    kept.append(v2)
    if type(v1) is set and v1 != mine:
        obs['complaints'].append('a later call changed the set the caller owns: %r -> %r' % (sorted(map(repr, mine)), sorted(map(repr, v1))))
    if case['negated_followup'] and type(v2) is set:
        v2.clear()
        v2.add(FOREIGN)
        g = ('not', f)
        cmds.append(mcmd(logic, ks, g, Fm))
        a3 = ftext(g) if case['mode'] == 'text' else qtext(g, case.get('quote_all', False)) if case['mode'] == 'qtext' else to_py_iter(g, L)
        r3 = query(a3)
        if r3[0] != 'ok':
            obs['calls'].append(['negated', list(r3), 1])
        else:
            v3 = r3[1]
            obs['complaints'] += ['call on the negated formula: ' + c for c in contract(v3, K, kept)]
            obs['calls'].append(['negated', canon(v3), 1])
        if v2 != {FOREIGN} or (type(v1) is set and v1 != mine):
            obs['complaints'].append('a later call changed a set the caller owns')
    return done()


def judge(case, obs, exps):
    """complaints of one case given the model's answers"""
    bad = list(obs['complaints'])
    for name, res, k in obs['calls']:
        e = exps[k]
        if res[0] == 'err':
            if res[1] == 'TypeError' and (case['cls'] == 'ool' or e == ['err', 'TypeError']):
                continue                                  # documented rejection of out-of-logic input
            if case['cls'] == 'weak' and res[1] == 'TypeError':
                bad.append('%s call raised TypeError for a well-formed query' % name)
                continue
            bad.append('%s call raised %s (model: %s)' % (name, res[1], e))
        elif case['cls'] == 'exact':
            if res != e:
                bad.append('%s call returned %s, the model gives %s' % (name, res[1], e))
        elif case['cls'] == 'ool':
            if e[0] == 'ok' and res != e:
                bad.append('%s call returned %s, the model gives %s' % (name, res[1], e))
    return bad


def exp_of(o):
    m = model_obs(o)
    return [m[0], m[1]]


# ---------- the library's practical nesting limit (informational) ----------
def depth_probe(R):
    rng = random.Random(R.seed)
    K = kd_py({'S': [0], 'S0': [], 'R': [(0, 0)], 'L': {0: ['p']}})
    out = {}
    heights = list(range(60, 421, 20 if R.thorough else 60))
    for logic in LOGICS:
        ok_up_to, first_bad = None, None
        for h in heights:
            f = deep_formula(rng, logic, h, ['p', 'q'])
            L = lang_module(logic)
            t0 = time.time()
            o = to_py_iter(f, L)
            r = call(lambda: L.modelcheck(K, o))
            if r[0] != 'ok':
                first_bad = {'height': height_iter(f), 'error': r[1]}
                break
            ok_up_to = height_iter(f)
            if time.time() - t0 > 2.0:
                break
        out[logic] = {'no_error_up_to_height': ok_up_to, 'first_failure': first_bad}
    R.cov['library_nesting_limit_at_default_recursionlimit_%d' % sys.getrecursionlimit()] = out


# ----------------------------------------------------------------------------------------
def extra_cases(rng, thorough):
    """degenerate structures, identity-compared states, very wide connectives (all through the main pipeline: contract, caller
    mutation, repeated call, model)"""
    cs = []
    # -- no state / one state: every entry point, text and object, every form of F
    fixed = {'CTL': ['A G p', 'E X p', 'not E (q U p)', 'true', 'p'], 'LTL': ['A F G p', 'A (p U q)', 'A true', 'A not p'],
             'CTLS': ['A F G p', 'E X A F p', 'E (G F p and X q)', 'not p', 'A G (p or E X q)']}
    for n in (0, 1):
        for logic in LOGICS:
            for Fkind in ('none', 'empty', 'emptyset', 'foreign', 'sets'):
                fs = [tree_of(shared_parser(logic)(t)) for t in (fixed[logic] if thorough else rng.sample(fixed[logic], 2))]
                fs += [None] * (4 if thorough else 1)
                for f in fs:
                    ctor = rng.choice(['noargs', 'noargs', 'full']) if n == 0 else rng.choice(['full', 'R-only'])
                    fam = rng.choice(['int', 'str', 'tuple', 'mixed', 'object', 'objecth', 'frozenset'])
                    c = gen_case(rng, family=fam, logic=logic, cls='exact', Fkind=Fkind, formula=f, n=n, ctor=ctor,
                                 mode=rng.choice(['obj', 'text']), extra=rng.choice(['none', 'fair', 'fresh', 'all']))
                    if ctor != 'full':
                        c['S0'] = []          # (these constructor forms have no initial states)
                        c['relabel'] = c['relabel'] and ctor != 'noargs'
                    cs.append(c)
    # -- plain-object states (identity __eq__): results must consist of K's OWN state objects
    for i in range(600 if thorough else 72):
        cs.append(gen_case(rng, family=rng.choice(['object', 'objecth']), logic=LOGICS[i % 3], cls='exact' if i % 10 else 'weak',
                           Fkind=rng.choice(['none', 'empty', 'sets', 'sets']), ctor=rng.choice(['full', 'full', 'R-only'])))
        if cs[-1]['ctor'] == 'R-only':
            cs[-1]['S0'] = []
    # -- one connective with hundreds of operands, as object and as text
    for i in range(36 if thorough else 9):
        logic = LOGICS[i % 3]
        width = rng.randint(1050, 1300) if (i // 3) % 2 == 0 else rng.randint(600, 900)
        f = wide_formula(rng, logic, width, ['p', 'q'], place=['late', 'early', 'late', 'late', 'early', 'any'][(i // 3) % 6])
        cs.append(gen_case(rng, logic=logic, cls='exact', formula=f, mode='text' if i % 6 >= 3 else 'obj',
                           Fkind='none' if i % 4 else rng.choice(['empty', 'sets']), extra=rng.choice(['none', 'fair'])))
    return cs


# ---------- the public-API channel: quoted / format-shaped atoms, subclasses, partial relabelling, growth ----------
def rename_atoms(f, ren):
    t = f[0]
    if t == 'ap':
        return ('ap', ren.get(f[1], f[1]))
    if t in ('true', 'false'):
        return f
    return (t,) + tuple(rename_atoms(g, ren) for g in f[1:])


def dup_formula(rng, atoms):
    """a CTL* state formula in which the SAME quantified subformula g occurs twice (once under another quantifier): the second
    elimination finds the first fresh name among the labels of the working copy and has to take a fallback name"""
    a, b = ('ap', rng.choice(atoms)), ('ap', rng.choice(atoms))
    g = (rng.choice('AE'), rng.choice([('X', a), ('F', a), ('G', a), ('U', a, b), ('F', ('G', a)), ('X', ('X', a)), ('or', ('X', a), b)]))
    k = rng.randrange(7)
    if k == 0:
        return ('and', g, ('A', ('G', ('F', g))))
    if k == 1:
        return ('or', ('not', g), ('E', ('X', g)))
    if k == 2:
        return ('E', ('U', g, ('X', g)))
    if k == 3:
        return ('A', ('F', ('and', g, ('X', g))))
    if k == 4:
        return ('imp', ('E', ('F', g)), g)
    if k == 5:
        return ('E', ('X', ('A', ('G', ('or', g, ('X', g))))))
    return ('and', g, g, ('E', ('G', ('not', g))))


def gen_api_case(rng, i):
    logic = LOGICS[i % 3]
    feats = []
    third = rng.choice(GOOD_ATOMS[2:])
    atoms = ['p', 'q', 'p', 'q', third]
    if logic == 'CTLS' and rng.random() < 0.45:
        f = dup_formula(rng, atoms)
        feats.append('same_quantified_subformula_twice')
    else:
        f = gen_formula(rng, logic, atoms)
    ren = {}
    if rng.random() < 0.65:
        names = rng.sample(QUOTED_ATOMS, 3)
        ren = {'p': names[0], 'q': names[1]}
        if rng.random() < 0.5:
            ren[third] = names[2]
        f = rename_atoms(f, ren)
        feats.append('format_or_escape_shaped_atoms')
    cls = 'exact' if rng.random() < 0.88 else 'weak'
    grow = rng.random() < 0.35
    ctor = rng.choice(['full', 'full', 'full', 'subclass-spec', 'subclass-kwonly', 'subclass-attr'])
    n = rng.randint(1, 5)
    k_new = 0
    if grow:
        k_new = rng.randint(1, min(n, 3))
        if k_new == n and rng.random() < 0.5 and ctor == 'full':
            ctor = 'noargs'                       # Kripke() and everything added afterwards
    n0 = n - k_new
    family = rng.choice(['str', 'tuple', 'negint', 'frozenset', 'mixed', 'mixed', 'int', 'int', 'object', 'objecth'])
    c = gen_case(rng, family=family, logic=logic, cls=cls, formula=f, mode='obj', n=n0, ctor=ctor,
                 Fkind=rng.choice(['none', 'none', 'empty', 'sets', 'sets']), extra=rng.choice(['none', 'fresh', 'fresh', 'all', 'fair']))
    if ctor.startswith('subclass'):
        feats.append('kripke_' + ctor)
    # the base labelling speaks of p and q: renamed like the formula
    for key, ls in c['labels'].items():
        c['labels'][key] = [enc(ren.get(dec(x), dec(x))) if type(dec(x)) is str else x for x in ls]
    if n0 == 0:
        c['S0'], c['relabel'] = [], False
    if grow:
        # k_new more states of the family, NEVER labelled by the caller: every one gets a successor (itself, an old or a new state),
        # some get predecessors; a few transitions between old states are added as well
        used = [dec(s) for s in c['states']]
        if family in ('object', 'objecth'):
            taken = set(s.i for s in used)
            fresh = [(Site if family == 'object' else SiteH)(j) for j in rng.sample([j for j in range(12) if j not in taken], k_new)]
        else:
            fresh = rng.sample([s for s in FAMILIES[family] if not any(s == u and type(s) is type(u) for u in used)], k_new)
        c['states'] += [enc(s) for s in fresh]
        new = list(range(n0, n))
        edges = []
        for v in new:
            for d in rng.sample(range(n), rng.randint(1, min(n, 2))):
                edges.append(['edge', v, d])
            for s in rng.sample(range(n), rng.randint(0, min(n, 2))):
                edges.append(['edge', s, v])
        for _ in range(rng.randint(0, 2) if n0 else 0):
            edges.append(['edge', rng.randrange(n0), rng.randrange(n0)])
        rng.shuffle(edges)
        ops, seen, have = [], set(), set((a, b) for a, b in c['R'])
        for e in edges:
            if (e[1], e[2]) in have:
                continue                                  # (add_edge refuses a transition that is already there)
            have.add((e[1], e[2]))
            for v in e[1:]:
                if v >= n0 and v not in seen:
                    seen.add(v)
                    if rng.random() < 0.4:
                        ops.append(['node', v])           # add_node first, the transitions later
            ops.append(e)
        c['grow'] = {'new': new, 'ops': ops}
        for v in new:
            c['labels'][str(v)] = []
        if c['F'] is not None:
            c['F'] = [sorted(set(P) | set(v for v in new if rng.random() < 0.5)) for P in c['F']]
        feats.append('grown_with_add_node_add_edge' + ('_from_Kripke()' if ctor == 'noargs' else ''))
    if n and rng.random() < 0.35:
        # a partial labelling dict: each state listed with probability 0.6 (so that some state is usually missing)
        listed = [v for v in range(n) if rng.random() < 0.6]
        pool = [enc(a) for a in (list(ren.values()) or ['p', 'q']) + ['r']]
        c['relabel_partial'] = {'L': {str(v): ([] if v >= n0 else list(c['labels'][str(v)])) + [a for a in pool if rng.random() < 0.3] for v in listed},
                                'ghost': rng.random() < 0.3}
        feats.append('partial_relabelling' + ('' if len(listed) < n else '_listing_all'))
    # the formula channel: quoted text where every atom can be written between quotes
    g = detuple(json.loads(json.dumps(c['formula'])))
    if all(is_quotable(a) for a in fatoms(g)) and rng.random() < 0.55:
        c['mode'] = 'qtext'
        c['quote_all'] = rng.random() < 0.4
        c['parser'] = 'shared' if rng.random() < 0.75 else 'default'
        feats.append('quoted_text')
    elif cls == 'exact' and all(is_good_atom(a) for a in fatoms(g)) and rng.random() < 0.3:
        c['mode'] = 'text'
    c['api'] = feats
    return c


def api_cases(rng, thorough):
    return [gen_api_case(rng, i) for i in range(2400 if thorough else 150)]


def corpus(rng):
    cs = []
    for fam in ('str', 'tuple', 'negint', 'frozenset', 'mixed', 'int'):
        for logic in LOGICS:
            cs.append(gen_case(rng, family=fam, logic=logic, cls='exact', extra='all', Fkind='none'))
            cs.append(gen_case(rng, family=fam, logic=logic, cls='exact', extra='fair', Fkind='sets'))
            cs.append(gen_case(rng, family=fam, logic=logic, cls='exact', extra='fresh', Fkind='none', mode='text'))
            cs.append(gen_case(rng, family=fam, logic=logic, cls='weak', extra='all'))
            # the degenerate queries: constants, a label, an atom no state carries, their negations
            for g in (('true',), ('false',), ('ap', 'p'), ('ap', 'r'), ('not', ('ap', 'q')), ('or', ('ap', 'p'), ('true',))):
                g = ('A', g) if logic == 'LTL' else g
                cs.append(gen_case(rng, family=fam, logic=logic, cls='exact', formula=g, mode=rng.choice(['obj', 'obj', 'text']),
                                   Fkind=rng.choice(['none', 'none', 'sets'])))
    return cs


def long_corridors(R):
    """structures with thousands of states (a corridor 0 -> 1 -> ... -> n-1 with a self loop at the end, the end labelled p, the
    rest q): "for every Kripke structure" includes LONG ones - an answer is still a set of K's states (here known in closed
    form: every state satisfies E F p, A F p, E G true, E(q U p), A F G p), not an internal error such as RecursionError from a
    helper that recurses along paths.  The model (unary numbers) is not run at this size."""
    import pyModelChecking.CTL as CTL, pyModelChecking.LTL as LTL, pyModelChecking.CTLS as CTLS
    from pyModelChecking.kripke import Kripke
    n_bad = 0
    for n, name in ((1500, lambda i: i), (2600, lambda i: 's%d' % i), (1200, lambda i: ('c', i))):
        R_ = [(name(i), name(i + 1)) for i in range(n - 1)] + [(name(n - 1), name(n - 1))]
        L_ = {name(i): {'q'} for i in range(n - 1)}
        L_[name(n - 1)] = {'p'}
        K = Kripke(R=R_, L=L_)
        everything = set(K.states())
        qs = [('CTL', CTL, 'E F p'), ('CTL', CTL, 'A F p'), ('CTL', CTL, 'E G true'), ('CTL', CTL, 'E (q U p)'),
              ('CTL', CTL, 'not A G q'), ('LTL', LTL, 'A F p'), ('CTLS', CTLS, 'A F G p')]
        if n > 2000:
            qs = qs[:5]
        for lg, M, text in qs:
            R.evaluations += 1
            r = call(lambda: M.modelcheck(K, text))
            if r[0] != 'ok' or not isinstance(r[1], set) or r[1] != everything:
                n_bad += 1
                R.violation('C19: on a corridor of %d states %s.modelcheck(K, %r) %s' %
                            (n, lg, text, ('raised ' + str(r[1])) if r[0] != 'ok' else 'is not the set of all states (%d elements)' % len(r[1])),
                            {'stream': 'long corridors', 'n_states': n, 'state_kind': repr(name(0)), 'logic': lg, 'formula_text': text,
                             'impl': r if r[0] != 'ok' else ['ok', len(r[1])]})
            else:
                R.nontriv(('corridor', n, lg, text))
    R.cov['long_corridors'] = {'sizes': [1500, 2600, 1200], 'differences': n_bad}


# ---------- long structures WITH fairness constraints ----------
NAMING = {'int': lambda i: i, 'str': lambda i: 's%d' % i, 'tuple': lambda i: ('c', i), 'negint': lambda i: -i - 1}


def _all(n):
    return set(range(n))


# shape -> (edges(n), labels(n), core(n): the states every fairness set must contain for EVERY path to be fair,
#           anchors(n): groups of states; a fairness set that meets every group keeps every state fair and the 'robust' answers valid,
#           queries: (logic, text, expected(n) as a set of indices, robust, cost class 0 / 1 / 2: 1 and 2 go through the LTL tableau))
# robust = the closed form is the answer under the plain semantics, under the textbook fair semantics and under the coded reduction
#          for every F whose sets meet all anchor groups (universal facts about all paths / existential facts with a fair witness);
# not robust = valid only when every path is fair (every fairness set contains the core), where all three semantics coincide.
# In every shape each non-trivial SCC has >= 2 states that all carry a self loop, so KF-C15-a does not apply; fairness sets are
# chosen so that KF-C15-b cannot show (see robust).
LONG_SHAPES = {
    # 0 -> 1 -> ... -> n-3 -> {n-2 <-> n-1, both with self loops}; q on the corridor, c on the clique, p at n-1
    'corridor+clique': dict(
        edges=lambda n: [(i, i + 1) for i in range(n - 1)] + [(n - 1, n - 1), (n - 1, n - 2), (n - 2, n - 2)],
        labels=lambda n: dict([(i, ['q']) for i in range(n - 2)] + [(n - 2, ['c']), (n - 1, ['p', 'c'])]),
        core=lambda n: [n - 2, n - 1], anchors=lambda n: [[n - 2, n - 1]],
        queries=[('CTL', 'E F p', _all, True, 0), ('CTL', 'A F p', lambda n: {n - 1}, False, 0),
                 ('CTL', 'A F c', _all, True, 0), ('CTL', 'A (q U c)', _all, True, 0),
                 ('CTL', 'E G q', lambda n: set(), True, 0), ('CTL', 'E X p', lambda n: {n - 2, n - 1}, True, 0),
                 ('CTL', 'A X c', lambda n: {n - 3, n - 2, n - 1}, True, 0), ('CTL', 'E G c', lambda n: {n - 2, n - 1}, True, 0),
                 ('CTL', 'not E (q U p)', lambda n: _all(n) - {n - 1}, True, 0), ('CTL', 'A G (q or c)', _all, True, 0),
                 ('LTL', 'A (q U c)', _all, True, 0), ('LTL', 'A X c', lambda n: {n - 3, n - 2, n - 1}, True, 0),
                 ('LTL', 'A F G c', _all, True, 2), ('LTL', 'A G F p', lambda n: set(), False, 2),
                 ('CTLS', 'A G (q or c)', _all, True, 0), ('CTLS', 'E X p', lambda n: {n - 2, n - 1}, True, 0),
                 ('CTLS', 'A F G c', _all, True, 1), ('CTLS', 'E F G p', _all, True, 1),
                 ('CTLS', 'E (F p and X q)', lambda n: set(range(n - 3)), True, 1),
                 ('CTLS', 'A (F G c and E X c)', lambda n: {n - 3, n - 2, n - 1}, True, 2)]),
    # a ring i -> i+1 (mod n) in which every state also has a self loop; p at 0, q elsewhere
    'ring+loops': dict(
        edges=lambda n: [(i, (i + 1) % n) for i in range(n)] + [(i, i) for i in range(n)],
        labels=lambda n: dict([(0, ['p'])] + [(i, ['q']) for i in range(1, n)]),
        core=lambda n: list(range(n)), anchors=lambda n: [list(range(n))],
        queries=[('CTL', 'E F p', _all, True, 0), ('CTL', 'A F p', lambda n: {0}, False, 0),
                 ('CTL', 'A X q', lambda n: _all(n) - {0, n - 1}, True, 0), ('CTL', 'E X p', lambda n: {0, n - 1}, True, 0),
                 ('CTL', 'E G q', lambda n: _all(n) - {0}, False, 0), ('CTL', 'A G (E F p)', _all, True, 0),
                 ('CTL', 'E (q U p)', _all, True, 0), ('CTL', 'A G q', lambda n: set(), True, 0),
                 ('LTL', 'A X q', lambda n: _all(n) - {0, n - 1}, True, 0), ('LTL', 'A F p', lambda n: {0}, False, 0),
                 ('CTLS', 'E F p', _all, True, 0), ('CTLS', 'A X q', lambda n: _all(n) - {0, n - 1}, True, 0),
                 ('CTLS', 'E G F p', _all, True, 2), ('CTLS', 'E (X p and F q)', lambda n: {0, n - 1}, True, 1)]),
    # {0 <-> 1, self loops} -> 2 -> ... -> n-3 -> {n-2 <-> n-1, self loops}; a on the first clique, q on the corridor, c on the last, p at n-1
    'two cliques': dict(
        edges=lambda n: [(0, 0), (0, 1), (1, 0), (1, 1)] + [(i, i + 1) for i in range(1, n - 1)] + [(n - 2, n - 2), (n - 1, n - 1), (n - 1, n - 2)],
        labels=lambda n: dict([(0, ['a']), (1, ['a'])] + [(i, ['q']) for i in range(2, n - 2)] + [(n - 2, ['c']), (n - 1, ['c', 'p'])]),
        core=lambda n: [0, 1, n - 2, n - 1], anchors=lambda n: [[0, 1], [n - 2, n - 1]],
        queries=[('CTL', 'E F p', _all, True, 0), ('CTL', 'E G a', lambda n: {0, 1}, True, 0),
                 ('CTL', 'A F c', lambda n: set(range(2, n)), False, 0), ('CTL', 'E (a U q)', lambda n: set(range(n - 2)), True, 0),
                 ('CTL', 'A X (q or c)', lambda n: set(range(2, n)), True, 0), ('CTL', 'E X a', lambda n: {0, 1}, True, 0),
                 ('LTL', 'A (q U c)', lambda n: set(range(2, n)), True, 0), ('LTL', 'A G (a or q or c)', _all, True, 0),
                 ('CTLS', 'E G a', lambda n: {0, 1}, True, 0), ('CTLS', 'A X (q or c)', lambda n: set(range(2, n)), True, 0),
                 ('CTLS', 'E F G p', _all, True, 1), ('CTLS', 'A F G (a or c)', _all, True, 2)]),
}


def long_F(rng, shape, n, kind):
    """fairness constraints (lists of state indices) of one of the two kinds (see LONG_SHAPES)"""
    sh = LONG_SHAPES[shape]
    if kind == 'allfair':
        core = sh['core'](n)
        return [sorted(set(core) | set(rng.sample(range(n), rng.choice([0, 1, 5])))) for _ in range(rng.choice([0, 1, 1, 2, 3]))]
    out = []
    for _ in range(rng.randint(1, 3)):
        P = set(rng.sample(range(n), rng.choice([0, 0, 2])))
        for grp in sh['anchors'](n):
            P |= set(rng.sample(grp, rng.randint(1, min(2, len(grp)))))
        out.append(sorted(P))
    return out


def long_fair_query(shape, n, naming, F, logic, text, mode, K=None):
    """-> (ok / complaint, K): one query on a long structure; the answer is mapped back to indices"""
    from pyModelChecking.kripke import Kripke
    sh, nm = LONG_SHAPES[shape], NAMING[naming]
    if K is None:
        K = Kripke(R=[(nm(a), nm(b)) for a, b in sh['edges'](n)], L={nm(i): set(ls) for i, ls in sh['labels'](n).items()})
    M = lang_module(logic)
    want = [w for lg, t, w, _, _ in sh['queries'] if (lg, t) == (logic, text)][0](n)
    arg = text if mode == 'text' else to_py_iter(tree_of(shared_parser(logic)(text)), M)
    Fv = [set(nm(i) for i in P) for P in F]
    if mode == 'text+tupleF':
        arg, Fv = text, tuple(frozenset(P) for P in Fv)
    r = call(lambda: M.modelcheck(K, arg, F=Fv))
    if r[0] != 'ok':
        return 'raised %s' % r[1], K
    v = r[1]
    if type(v) is not set:
        return 'returned a %s, not a set' % type(v).__name__, K
    index = {nm(i): i for i in range(n)}
    if not all(x in index for x in v):
        return 'returned non-states, e.g. %r' % [x for x in v if x not in index][:3], K
    got = set(index[x] for x in v)
    if got != want:
        d = sorted(got ^ want)
        return 'returned %d states, the closed form has %d (differs at indices %s%s)' % (len(got), len(want), d[:6], '...' if len(d) > 6 else ''), K
    return None, K


def long_fair(R):
    """long structures (a thousand states and more) queried WITH fairness constraints: see LONG_SHAPES.  The closed forms are first
    validated against the extracted model (faithful fairness model) on the same shape with 6-9 states and the same kind of F."""
    rng = random.Random(R.seed + 1919)
    n_bad, n_q = 0, 0
    # -- the closed forms, against the model and the library, at small size
    small, cmds = [], []
    for shape, sh in LONG_SHAPES.items():
        for n in (6, 9):
            for kind in ('allfair', 'robust'):
                F = long_F(rng, shape, n, kind)
                K = kd_py({'S': list(range(n)), 'S0': [], 'R': sh['edges'](n), 'L': sh['labels'](n)})
                kc = K.clone()
                ks = ksx(kc, {i: i for i in range(n)}) if set(kc.states()) == set(range(n)) else ksx(K, {i: i for i in range(n)})
                for logic, text, want, robust, heavy in sh['queries']:
                    if kind == 'robust' and not robust:
                        continue
                    f = tree_of(shared_parser(logic)(text))
                    small.append((shape, n, kind, F, logic, text, sorted(want(n))))
                    cmds.append(mcmd(logic, ks, f, F))
    for (shape, n, kind, F, logic, text, want), o in zip(small, model_batch(cmds)):
        e = exp_of(o)
        if e != ['ok', want]:
            raise RuntimeError('closed form of %s on %s(%d), F=%s (%s): table says %s, the model %s' % (text, shape, n, F, kind, want, e))
        if n != 9 or [q[4] for q in LONG_SHAPES[shape]['queries'] if (q[0], q[1]) == (logic, text)][0]:
            continue
        R.evaluations += 1
        bad, _ = long_fair_query(shape, n, 'int', F, logic, text, 'obj')
        if bad:
            n_bad += 1
            R.violation('C19: on the %s structure of %d states %s.modelcheck(K, %r, F=%s) %s' % (shape, n, logic, text, F, bad),
                        {'stream': 'long fair', 'shape': shape, 'n_states': n, 'naming': 'int', 'F': F, 'F_kind': kind, 'logic': logic,
                         'formula_text': text, 'mode': 'obj', 'complaint': bad})
    # -- the long ones
    sizes = []
    quick_heavy = rng.choice(sorted(LONG_SHAPES))          # quick tier: one query through the LTL tableau with F on one long structure
    for shape, sh in LONG_SHAPES.items():
        for rep in range(2 if R.thorough else 1):
            n = rng.randint(1300, 2400) if R.thorough else rng.randint(1080, 1250)
            naming = rng.choice(sorted(NAMING))
            sizes.append((shape, n, naming))
            K = None
            Fs = {kind: long_F(rng, shape, n, kind) for kind in ('allfair', 'robust')}
            light = [q for q in sh['queries'] if not q[4]]
            heavy = [q for q in sh['queries'] if q[4]]
            todo = []
            for q in light:
                if q[0] == 'CTL' or R.thorough:
                    todo += [(q, kind) for kind in Fs if q[3] or kind == 'allfair']
            for lg in ('LTL', 'CTLS'):
                if not R.thorough:
                    todo.append((rng.choice([q for q in light if q[0] == lg]), rng.choice(['allfair', 'robust'])))
            if R.thorough:
                todo += [(q, rng.choice(['allfair', 'robust'])) for q in heavy]
            elif shape == quick_heavy:
                todo.append((rng.choice([q for q in heavy if q[4] == 1]), rng.choice(['allfair', 'robust'])))
            for (logic, text, want, robust, _), kind in todo:
                if n_bad >= 6:
                    break                     # (enough witnesses)
                if not robust:
                    kind = 'allfair'
                mode = rng.choice(['text', 'text', 'obj', 'text+tupleF'])
                R.evaluations += 1
                n_q += 1
                bad, K = long_fair_query(shape, n, naming, Fs[kind], logic, text, mode, K)
                if bad:
                    n_bad += 1
                    F = Fs[kind]
                    R.violation('C19: on the %s structure of %d states (%s names) %s.modelcheck(K, %r, F=%s) %s' %
                                (shape, n, naming, logic, text, (str(F)[:80] + '...') if len(str(F)) > 80 else F, bad),
                                {'stream': 'long fair', 'shape': shape, 'n_states': n, 'naming': naming, 'F': F, 'F_kind': kind, 'logic': logic,
                                 'formula_text': text, 'mode': mode, 'complaint': bad})
                else:
                    R.nontriv(('long fair', shape, n, naming, logic, text, kind))
    R.cov['long_structures_with_F'] = {'structures': ['%s n=%d %s' % x for x in sizes], 'queries': n_q,
                                       'closed_forms_validated_against_model_at_n_6_9': len(small), 'differences': n_bad}


def replay_long_fair(R, d):
    bad, K = long_fair_query(d['shape'], d['n_states'], d['naming'], d['F'], d['logic'], d['formula_text'], d['mode'])
    print('structure : %s with %d states, %s names' % (d['shape'], d['n_states'], d['naming']))
    print('query     : %s.modelcheck(K, %r, F=%s) [%s]' % (d['logic'], d['formula_text'], str(d['F'])[:200], d['mode']))
    print('outcome   :', bad or 'equals the closed form')
    if bad:
        R.violation('replayed: ' + bad, d)


# ---------- very wide connectives on a long ring ----------
def wide_ring_query(n, step, which, mode):
    """ring 0 -> 1 -> ... -> n-1 -> 0, state i labelled at<i>; S = the multiples of step; -> complaint or None"""
    import pyModelChecking.CTL as CTL, pyModelChecking.CTLS as CTLS
    from pyModelChecking.kripke import Kripke
    K = Kripke(R=[(i, (i + 1) % n) for i in range(n)], L={i: {'at%d' % i} for i in range(n)})
    S = list(range(0, n, step))
    names = ['at%d' % i for i in S]
    inS = set(S)
    M = CTLS if which.startswith('CTLS') else CTL
    lg = 'CTLS' if M is CTLS else 'CTL'
    kind = which.split(':')[1]
    if kind == 'EX-or':
        tree, want = ('E', ('X', ('or',) + tuple(('ap', a) for a in names))), {i for i in range(n) if (i + 1) % n in inS}
    elif kind == 'and-not':
        tree, want = ('and',) + tuple(('not', ('ap', a)) for a in names), set(range(n)) - inS
    elif kind == 'AF-or':
        tree, want = ('A', ('F', ('or',) + tuple(('ap', a) for a in names))), set(range(n))
    elif kind == 'AG-EX-or-or':
        w = ('or',) + tuple(('ap', a) for a in names)
        good = {i for i in range(n) if i in inS or (i + 1) % n in inS}          # the ring is strongly connected: all or nothing
        tree, want = ('A', ('G', ('or', w, ('E', ('X', w))))), (set(range(n)) if len(good) == n else set())
    else:
        # or over quantified operands: E X at_i for i in S  (operands in late positions are temporal)
        tree, want = ('or',) + tuple(('E', ('X', ('ap', a))) for a in names), {i for i in range(n) if (i + 1) % n in inS}
    arg = ftext(tree) if mode == 'text' else to_py_iter(tree, M)
    r = call(lambda: M.modelcheck(K, arg))
    if r[0] != 'ok':
        return 'raised %s' % r[1], len(names)
    v = r[1]
    if type(v) is not set or not v <= set(range(n)):
        return 'did not return a set of states of K', len(names)
    if v != want:
        return 'returned %d states, the closed form has %d' % (len(v), len(want)), len(names)
    return None, len(names)


def wide_ring(R):
    """Or / And are variadic: connectives with 600-760 (thorough: up to 1300) operands (built from a state list) as objects and as
    text, on a ring of a thousand states and more whose state i is labelled at<i>; the answers are known in closed form"""
    rng = random.Random(R.seed + 1923)
    n_bad, widths = 0, []
    for rep in range(3 if R.thorough else 1):
        step = rng.choice([2, 2, 3])
        n = step * (rng.randint(1050, 1300) if R.thorough and rep else rng.randint(600, 760)) + rng.randrange(step)
        qs = [('CTL:EX-or', 'obj'), ('CTL:EX-or', 'text'), ('CTL:and-not', rng.choice(['obj', 'text'])), ('CTL:AG-EX-or-or', rng.choice(['obj', 'text'])),
              ('CTLS:AF-or', 'obj'), ('CTLS:EX-or', 'text'), ('CTLS:and-not', rng.choice(['obj', 'text'])), ('CTL:or-EX', 'obj'), ('CTLS:or-EX', 'text')]
        if not R.thorough:
            # quick tier: an or and an and, an object and a text, CTL and CTL*
            a, b = rng.sample(['CTL', 'CTLS'], 2)
            m1, m2 = rng.sample(['obj', 'text'], 2)
            qs = [(a + ':' + rng.choice(['EX-or', 'AG-EX-or-or'] if a == 'CTL' else ['EX-or', 'AF-or']), m1), (b + ':and-not', m2),
                  (rng.choice(['CTL:or-EX', 'CTLS:or-EX']), rng.choice(['obj', 'text']))]
        for which, mode in qs:
            R.evaluations += 1
            bad, width = wide_ring_query(n, step, which, mode)
            widths.append(width)
            if bad:
                n_bad += 1
                R.violation('C19: %s.modelcheck on a ring of %d states with a connective of %d operands (%s, %s) %s' %
                            (which.split(':')[0], n, width, which.split(':')[1], mode, bad),
                            {'stream': 'wide ring', 'n_states': n, 'step': step, 'which': which, 'mode': mode, 'operands': width, 'complaint': bad})
            else:
                R.nontriv(('wide ring', n, step, which, mode))
    R.cov['wide_connectives_on_long_ring'] = {'operands_min': min(widths), 'operands_max': max(widths), 'queries': len(widths), 'differences': n_bad}


def replay_wide_ring(R, d):
    bad, width = wide_ring_query(d['n_states'], d['step'], d['which'], d['mode'])
    print('ring of %d states, state i labelled at<i>; %s as %s with %d operands (every %d-th state)' % (d['n_states'], d['which'], d['mode'], width, d['step']))
    print('outcome   :', bad or 'equals the closed form')
    if bad:
        R.violation('replayed: ' + bad, d)


# ---------- very wide connectives on small typed structures (through the main pipeline, against the model) ----------
def wide_formula(rng, logic, width, atoms, place='late'):
    """a formula of the logic around ONE or / and node with `width` operands: mostly NEUTRAL ones (atoms no state carries, w<i>, under
    or; their negations under and), plus two literals over atoms of K and one or two temporal operands - the operands that decide the
    answer - among the LAST 30 positions (place='late': an evaluation that walks the operands cannot stop early), among positions
    2..30 ('early') or anywhere; <= 3 temporal operators in all"""
    op = rng.choice(['or', 'and'])
    absent = [('ap', 'w%d' % i) for i in range(width)]
    ops = [(a if op == 'or' else ('not', a)) for a in absent]          # neutral operands: false under or, true under and
    real = [('ap', rng.choice(atoms)), ('not', ('ap', rng.choice(atoms)))]
    if logic == 'CTL':
        temporal = [(rng.choice('AE'), (rng.choice('XFG'), ('ap', rng.choice(atoms)))), ('E', ('U', ('ap', 'q'), ('ap', 'p')))]
    elif logic == 'LTL':
        temporal = [('X', ('ap', rng.choice(atoms)))]
    else:
        temporal = [('E', ('X', ('ap', rng.choice(atoms)))), rng.choice([('A', ('F', ('G', ('ap', rng.choice(atoms))))), ('X', ('ap', 'q'))])]
    for g in real + rng.sample(temporal, rng.randint(1, len(temporal))):
        ops[rng.randint(width - 30, width - 1) if place == 'late' else rng.randint(2, 30) if place == 'early' else rng.randint(2, width - 1)] = g
    w = (op,) + tuple(ops)
    if logic == 'CTL':
        f = rng.choice([w, ('not', w), ('E', ('X', w)), ('A', ('G', w)), ('E', ('U', ('ap', 'q'), w))])
    elif logic == 'LTL':
        f = ('A', rng.choice([w, ('not', w), ('X', w), ('G', w)]))
    else:
        f = (rng.choice('AE'), rng.choice([w, ('F', w), ('not', w), ('G', w)]))
    return f


# ---------- the same question asked of many short-lived structures ----------
def history_rounds(rng, logic, n, rounds):
    kds = [rand_kripke(rng, n) for _ in range(rounds)]
    fs = []
    while len(fs) < rng.choice([1, 1, 2]):
        # of a few candidates the formula whose answer (reference semantics) varies most from structure to structure: an answer
        # that belongs to ANOTHER structure is then most likely a wrong one
        best = None
        for _ in range(4):
            f = gen_formula(rng, logic, ['p', 'q'])
            if n_temporal(f) >= 1:
                k = len(set(frozenset(ref_check(kd, f)) for kd in kds[:7]))
                if best is None or k > best[0]:
                    best = (k, f)
        if best:
            fs.append(best[1])
    return {'logic': logic, 'n': n, 'formulas': fs, 'mode': rng.choice(['obj', 'obj-fresh', 'text']),
            'naming': rng.choice(['same', 'fresh', 'fresh-objects']), 'Fkind': rng.choice(['none', 'none', 'none', 'empty', 'sets']),
            'rounds': [{'kd': kd_json(kd), 'which': rng.randrange(2),
                        'F': [sorted(i for i in range(n) if rng.random() < 0.6) for _ in range(rng.randint(1, 2))]} for kd in kds]}


def run_history(h, upto=None):
    """a caller that builds a structure, asks, DROPS the structure and builds the next one of the same size (a new version of a
    design; the allocator hands out the same addresses again), asking the same one or two formulas all along.
    -> [(round, observation, complaints, model command)]; nothing of a structure survives its round"""
    logic, n = h['logic'], h['n']
    L = lang_module(logic)
    fs = [detuple(f) for f in h['formulas']]
    kept_objs = [to_py_iter(f, L) for f in fs]
    out = []
    K = None
    for rno, rd in enumerate(h['rounds'][:upto]):
        kd = kd_from_json(rd['kd'])
        if h['naming'] == 'same':
            nm = list(range(n))
        elif h['naming'] == 'fresh':
            nm = ['v%d_%d' % (rno, i) for i in range(n)]
        else:
            nm = [Site(i) for i in range(n)]
        K = mk_py_kripke(list(nm), [nm[i] for i in kd['S0']], [(nm[a], nm[b]) for a, b in kd['R']], {nm[i]: ls for i, ls in kd['L'].items()})
        num = {s: i for i, s in enumerate(K._next)}
        f = fs[rd['which'] % len(fs)]
        arg = ftext(f) if h['mode'] == 'text' else kept_objs[rd['which'] % len(fs)] if h['mode'] == 'obj' else to_py_iter(f, L)
        F = None if h['Fkind'] == 'none' else [] if h['Fkind'] == 'empty' else rd['F']
        ks = ksx(K, num)
        if F is not None:
            try:
                ks = ksx(K.clone(), num)
            except KeyError:
                pass
            Fv = [set(nm[i] for i in P) for P in F]
            kw = {'F': Fv}
        else:
            kw = {}
        if h['mode'] == 'text' and rno % 4:
            kw['parser'] = shared_parser(logic)      # (the default route builds a new parser per call: every 4th round only)
        r = guarded(lambda: L.modelcheck(K, arg, **kw))
        cmd = mcmd(logic, ks, f, None if F is None else [sorted(num[nm[i]] for i in P) for P in F])
        bad = []
        if r[0] != 'ok':
            obs = list(r)
        else:
            v = r[1]
            bad = contract(v, K, [])
            obs = ['ok', sorted(num[s] for s in v)] if not bad else ['ok', 'uncanonical: ' + repr(sorted(map(repr, v)))[:200]]
            v = None
        out.append((rno, obs, bad, cmd))
        r = arg = K = num = nm = kw = Fv = None           # the caller drops the structure (and a fresh formula object) before building the next
    return out


def judge_history(h, res, outs):
    """-> (round, complaint) of the first failing round or None"""
    for (rno, obs, bad, _), o in zip(res, outs):
        e = exp_of(o)
        if bad:
            return rno, '; '.join(bad)
        if obs != e and not (obs[0] == 'err' and obs[1] == 'TypeError' and e == ['err', 'TypeError']):
            return rno, ('raised %s' % obs[1] if obs[0] == 'err' else 'returned %s' % (obs[1],)) + ', the model gives %s' % (e,)
    return None


def rebuilt_histories(R):
    rng = random.Random(R.seed + 1931)
    n_h, rounds = (60, 60) if R.thorough else (12, 28)
    hs, allres, cmds = [], [], []
    for i in range(n_h):
        h = json.loads(json.dumps(history_rounds(rng, LOGICS[i % 3], rng.choice([1, 2, 2, 3, 3, 4]), rounds)))
        res = run_history(h)
        hs.append(h)
        allres.append((res, len(cmds)))
        cmds += [c for _, _, _, c in res]
    outs = model_batch_parallel(cmds)
    n_bad = 0
    for h, (res, off) in zip(hs, allres):
        R.evaluations += len(res)
        R.count('rebuilt_naming_' + h['naming'])
        R.count('rebuilt_mode_' + h['mode'])
        v = judge_history(h, res, outs[off:off + len(res)])
        if v:
            n_bad += 1
            rno, what = v
            hh = dict(h)
            hh['rounds'] = h['rounds'][:rno + 1]
            R.violation('C19: round %d of a build-ask-drop loop over structures of %d states (%s): %s.modelcheck %s' %
                        (rno, h['n'], h['naming'], h['logic'], what[:300]),
                        {'stream': 'rebuilt structures', 'history': hh, 'formulas_str': [fstr(detuple(f)) for f in h['formulas']],
                         'failing_round': rno, 'complaint': what})
        else:
            R.nontriv(('rebuilt', h))
    R.cov['rebuilt_structures'] = {'histories': n_h, 'rounds_each': rounds, 'differences': n_bad}


def replay_history(R, d):
    h = d['history']
    res = run_history(h)
    outs = model_batch([c for _, _, _, c in res])
    print('build-ask-drop loop: %s, %d states, naming=%s, formula channel=%s, F=%s, formulas=%s' %
          (h['logic'], h['n'], h['naming'], h['mode'], h['Fkind'], [fstr(detuple(f)) for f in h['formulas']]))
    for (rno, obs, bad, _), o in zip(res, outs):
        print('round %-3d impl=%s model=%s %s' % (rno, obs, exp_of(o), '; '.join(bad)))
    v = judge_history(h, res, outs)
    if v:
        print('complaint : round %d: %s' % v)
        R.violation('replayed: round %d: %s' % v, d)


def run(R):
    lo, hi = 30, 60
    R.rule = ('(typed structure, query, caller mutation): 1-5 states drawn from a value family (str incl. empty / operator-like / '
              'non-ASCII, tuple incl. () and nested, negative int, frozenset, mixed int/str/tuple/frozenset/float with 1 vs "1" vs (1,), plain int), '
              'labels {p,q} plus extras (non-string values, operator-like strings, the fresh names the CTL* elimination would pick for '
              'this very formula and their first fallbacks, fair/fair0/..); classes: exact (atoms are non-reserved identifiers, some absent '
              'from K; compared with the extracted model through a numbering of states, labels by name), weak (reserved / bracketed / '
              'printed-formula-like / empty atom names: set of states, no internal error, fresh object only), out-of-logic (TypeError); '
              'F in {None, [], 1-3 sets of typed states} (faithful fairness model); 15%% (thorough 8%%) of exact cases as text; a fixed corpus per family x logic incl. the degenerate queries true / false / p / absent atom; deep formulas of tree '
              'height %d-%d per logic; each case = call, type/subset/identity contract, caller mutates the result (add state / add foreign / '
              'clear / discard / update), same call again vs model, caller set untouched, optionally the negated formula after clobbering the '
              'second result; non-trivial = a state that is not an int and an answer neither empty nor all states; distinct by case. '
              'ADDED STREAMS: (a) long structures with F given - three shapes (corridor into a 2-clique, ring with self loops, two 2-cliques '
              'joined by a corridor) x 1080-1250 (thorough 1300-2400) states x int/str/tuple/negative-int names x F of two kinds (every set '
              'contains the recurrent core so that every path is fair | sets that only meet every recurrent clique, with queries whose answer '
              'has a fair witness) x CTL/LTL/CTL* queries with closed-form answers, F as list of sets or tuple of frozensets, text and object; '
              'closed forms validated against the model at 6 and 9 states; (b) the EMPTY structure (Kripke() and Kripke(S=[],...)) and '
              'one-state structures x 3 logics x F in {None, [], [set()], [{non-state}], sets} x text/object through the full pipeline; '
              '(c) states that are plain objects compared by identity (address-hashed and int-hashed), all logics, with and without F: every '
              'element of a result must be one of K\'s own state objects; (d) one or/and node with 520-1300 operands (atoms absent from K, '
              'a few atoms of K, temporal operands in late positions) under not / X / G / U / quantifiers, object and text, on 1-5 state '
              'typed structures (model) and as E X or / and-not / A F or / A G(or | E X or) / or of E X on a ring of 1200-2600 states labelled '
              'at<i> (closed form); (e) build-ask-drop loops: 12 (thorough 60) histories of 28 (60) structures of equal size (1-4 states, same '
              'names / fresh names / fresh identity objects), each dropped before the next is built, asked the same one or two formulas '
              '(chosen so that the answer varies between the structures; object kept / object rebuilt / text; F none, [] or sets), every '
              'round against the model; (f) the public-API channel, 150 (thorough 2400) cases through the main pipeline (model answer, contract, '
              'caller mutation, repeated call), features drawn independently: atoms named like format strings / escape sequences / printf '
              'directives ({busy}, {}, x in {1,2}, {0!r}, \\xi, \\nu, C:\\new\\x, %%s, %%(p)s, 100%%, ... ; 40 names, exact class: no bracket, '
              'quote or reserved word, also as labels of K together with the fresh names of this very formula) as objects and as QUOTED text '
              '("..." for every non-identifier atom, in 40%% for every atom; default parser per call or one shared parser); CTL* formulas in '
              'which the same quantified subformula occurs twice (7 patterns: the fallback fresh name); K an instance of a Kripke SUBCLASS '
              '(one positional spec / keyword-only parameters / an extra leading parameter kept as attribute); replace_labelling_function '
              'with a PARTIAL dict (each state listed with probability 0.6, ghost key in 30%%); structures GROWN after construction by '
              'add_node / add_edge (1-3 new states never labelled by the caller, node first or edge first, also from Kripke() and from '
              'subclasses, F extended to new states) - regression of fix F13; all three logics, F none / [] / sets'
              % (lo, hi))
    rng = R.rng
    depth_probe(R)
    long_corridors(R)
    long_fair(R)
    wide_ring(R)
    rebuilt_histories(R)
    cases = corpus(rng)
    n_rand, n_deep = (20000, 450) if R.thorough else (700, 36)
    for _ in range(n_rand):
        cases.append(gen_case(rng, p_text=0.08 if R.thorough else 0.15))
    for i in range(n_deep):
        logic = LOGICS[i % 3]
        cases.append(gen_case(rng, logic=logic, cls='exact', deep=rng.randint(lo, hi - 3),
                              mode='text' if i % 6 == 5 else 'obj', Fkind=rng.choice(['none', 'none', 'sets'])))
    cases += extra_cases(random.Random(R.seed + 1937), R.thorough)
    cases += api_cases(random.Random(R.seed + 1941), R.thorough)
    results, cmds = [], []
    for case in cases:
        case = json.loads(json.dumps(case))
        if TIMEOUTS[0] >= 3:
            R.cov['stopped_after_call_timeouts'] = TIMEOUTS[0]
            break
        obs, cs, K, num = run_case(case)
        results.append((case, obs, len(cmds), len(cs)))
        cmds += cs
    outs = model_batch_parallel(cmds)
    depths = {}
    for case, obs, off, k in results:
        exps = [exp_of(o) for o in outs[off:off + k]]
        R.evaluations += len(obs['calls'])
        f = detuple(case['formula'])
        R.count('family_' + case['family'])
        R.count('class_' + case['cls'])
        R.count('logic_' + case['logic'])
        R.count('mode_' + case['mode'])
        R.count('F_' + ('None' if case['F'] is None else 'empty' if not case['F'] else 'sets'))
        R.count('mutation_' + case['mut'])
        R.count('ctor_' + case.get('ctor', 'full'))
        for ft in case.get('api', []):
            R.count('api_' + ft)
        if 'api' in case:
            R.count('api_cases')
        if len(case['states']) <= 1:
            R.count('structures_with_%d_states' % len(case['states']))
        wmax = max(len(g) - 1 for g in subformulas(f))
        if wmax >= 100:
            R.count('cases_with_a_connective_of_500+_operands' if wmax >= 500 else 'cases_with_a_connective_of_100+_operands')
        if obs.get('clone_order_differs'):
            R.count('fair_cases_where_clone_iteration_order_differs_from_original')
        h = height_iter(f)
        if h >= lo:
            depths[h] = depths.get(h, 0) + 1
            R.count('deep_' + case['logic'])
        for name, res, _ in obs['calls']:
            R.count('outcome_' + (res[0] if res[0] == 'ok' else res[1]))
        if any(a not in ('p', 'q') and is_good_atom(a) for a in fatoms(f)):
            R.count('formula_has_atom_absent_from_K_or_fairlike')
        bad = judge(case, obs, exps)
        if bad:
            R.violation('C19: ' + '; '.join(bad)[:500],
                        {'case': case, 'formula_str': fstr(f), 'observations': obs['calls'], 'model': exps, 'complaints': bad})
            if len(R.violations) >= 25:
                break
            continue
        sz = obs.get('size')
        if sz and case['family'] != 'int' and 0 < sz[0] < sz[1] and any(type(dec(s)) is not int for s in case['states']):
            R.nontriv(case)
            if case['family'] in ('mixed', 'tuple', 'frozenset', 'str') and n_temporal(f) >= 2:
                R.sample({'states': [repr(dec(s)) for s in case['states']], 'labels': {k: [repr(dec(x)) for x in v] for k, v in case['labels'].items()},
                          'query': '%s.modelcheck(K, %s %s, F=%s)' % (case['logic'], case['mode'], fstr(f)[:200], case['F']),
                          'class': case['cls'], 'answers(numbered)': obs['calls'], 'caller_mutation': case['mut']}, limit=5)
    R.cov['public_api_channel'] = {'cases': sum(1 for c, _, _, _ in results if 'api' in c),
                                   'quoted_text_cases_with_a_backslash_atom': sum(1 for c, _, _, _ in results if c['mode'] == 'qtext' and '\\\\' in json.dumps(c['formula'])),
                                   'cases_with_a_brace_or_percent_atom': sum(1 for c, _, _, _ in results if 'api' in c and any(ch in json.dumps(c['formula']) for ch in '{}%')),
                                   'grown_states_total': sum(len(c['grow']['new']) for c, _, _, _ in results if c.get('grow')),
                                   'states_left_out_of_a_partial_labelling': sum(len(c['states']) - len(c['relabel_partial']['L']) for c, _, _, _ in results if c.get('relabel_partial'))}
    R.cov['deep_formula_heights_used'] = {'min': min(depths) if depths else None, 'max': max(depths) if depths else None,
                                          'count': sum(depths.values())}


def replay(R, data):
    if data['data'].get('stream') == 'long corridors':
        n0 = len(R.violations)
        long_corridors(R)
        print('long corridors re-run: %d violation(s)' % (len(R.violations) - n0))
        return
    st = data['data'].get('stream')
    if st == 'long fair':
        return replay_long_fair(R, data['data'])
    if st == 'wide ring':
        return replay_wide_ring(R, data['data'])
    if st == 'rebuilt structures':
        return replay_history(R, data['data'])
    case = data['data']['case']
    obs, cs, K, num = run_case(case)
    exps = [exp_of(o) for o in model_batch(cs)]
    print('structure :', K)
    print('numbering :', {repr(s): i for s, i in num.items()})
    print('query     : %s.modelcheck(K, %s %s, F=%s)  class=%s' % (case['logic'], case['mode'], fstr(detuple(case['formula'])), case['F'], case['cls']))
    for name, res, k in obs['calls']:
        print('%-15s impl=%s model=%s' % (name, res, exps[k]))
    bad = judge(case, obs, exps)
    for b in bad:
        print('complaint :', b)
    if bad:
        R.violation('replayed: ' + '; '.join(bad)[:300], data['data'])
