"""C16 - equal Boolean functions share one OBDD under every creation/GC history.

Theorems (Properties/C16.v): C16_inv, C16_canonical, C16_eq over coq/Model/BddHist.v.
Correspondence: histories of parse / lambda / & | ^ ~ / restrict / reparse / drop / gc over a pool of OBDD
references, executed on the real classes in a fresh interpreter per batch (the unique table - the weak parent
sets f_low/f_high hanging off the two terminal singletons - is process-global) and on the extracted model;
after EVERY step: status, truth table of every pool entry, the == matrix, the root-identity matrix,
variables(), and a scan of ALL live nodes (walked from the terminals through f_low/f_high, cross-checked with
BDDNode.nodes()) for two nodes with the same (var, low, high).
The observer asks `!=` as well as `==` (must be complementary); histories re-parse the TEXT of a live pool entry under
another ordering (the same text under two orderings alive together), put one OBDD object into two slots, use one object
as both operands, and spell some binary steps with augmented assignment; the variable names a, ab, b, bb contain one
another.
Second-audit streams (worker and generators in c16_streams.py, same history language, bddlib.compare_history + extra observers):
'crowd' histories (a 48-slot pool whose roots have a terminal child: the parent sets a lookup scans hold 20+ nodes), 'gc' histories
(dropped OBDDs parked in cycles, ONE forced gc.collect() INSIDE the next operation at a drawn line of library code, the automatic
collector on with small thresholds in a third of them), and in both: every entry against 0 / 1 / True / False / BDDNode(0/1), the
written slot against the root NODES of the others, hash()/set membership of equal OBDDs whenever the class is hashable."""
from common import *
import bddlib as B
import c16_streams as S
LEVEL = 'proof'

PSIZE = 6
LIVE_RULE = ('library caches are per call (apply: result_cache=dict() in OBDD.apply, restrict: dict() in BDDNode.restrict, '
             '__invert__: r_cache=None -> dict()); nothing process-global holds a strong reference to a non-terminal node '
             '(f_low/f_high are WeakSets, Tnodes holds the two terminals only) and the worker keeps only the pool, so: '
             'right after gc.collect() at a gc step the number of live non-terminal nodes (walk from the terminals through the '
             'weak parent sets) must EQUAL the model\'s count after full collection; at every other step library >= model '
             '(deferred drops park the OBDD in an unreachable reference cycle with the collector disabled, so its nodes stay in the '
             'unique table until the next gc step, exactly like garbage in the model\'s store); library < model at any step, or a '
             'pool node that is not in its children\'s parent sets, is a lost unique-table entry = violation; after the last step the '
             'pool is released and collected and the table must be empty')


def rand_ord(rng, vs=None):
    if vs is None:
        k = rng.choice([2, 3, 3, 4, 4, 4])
        vs = rng.sample(range(4), k)
    vs = list(vs)
    rng.shuffle(vs)
    return vs


def variant(rng, e):
    """an expression with the same meaning and a different spelling"""
    r = rng.randrange(6)
    if r == 0:
        return B.to_kw(e)
    if r == 1:
        return ('not', ('not', e, False), rng.random() < 0.5)
    if r == 2 and e[0] in ('and', 'or'):
        return (e[0], e[2], e[1])
    if r == 3 and e[0] in ('and', 'or'):          # De Morgan
        dual = 'or' if e[0] == 'and' else 'and'
        return ('not', (dual, ('not', e[1], False), ('not', e[2], False)), False)
    if r == 4:
        return ('and', e, ('c', True, rng.choice(['1', 'True'])))
    return ('or', e, e)


def gen_history(rng, maxlen, psize=PSIZE):
    ords = [rand_ord(rng)]
    if rng.random() < 0.6:
        ords.append(rand_ord(rng, ords[0]) if rng.random() < 0.6 else rand_ord(rng))
    n = rng.randint(max(3, maxlen // 3), maxlen)
    slot_ord = [None] * psize
    slot_expr = [None] * psize
    slot_text = [None] * psize       # the text a slot was parsed from (expression notation only)
    ops = []
    n_shadow = 0
    p_cycle = rng.choice([0.0, 0.5, 0.5, 1.0])
    while len(ops) < n:
        filled = [i for i in range(psize) if slot_ord[i] is not None]
        r = rng.random()
        k = rng.randrange(psize)
        if r < 0.24 or len(filled) < 2:
            O = ords[0] if rng.random() < 0.7 else rng.choice(ords)
            q = rng.random()
            vs = list(O)
            p_bad = 0.0
            if q < 0.05:
                out = [v for v in range(5) if v not in O]
                vs = vs + [rng.choice(out)]
            elif q < 0.09:
                p_bad = 0.25
            elif q < 0.11:
                O = O + [O[0]]                        # repeated variable in the ordering
            src = [i for i in filled if slot_expr[i] is not None and tuple(slot_ord[i]) == tuple(O)]
            # live entries parsed from a text under ANOTHER ordering: the very same text is parsed again under O while
            # the first diagram is alive (whatever the library remembers about a text must not outlive the ordering)
            shadow = [i for i in filled if slot_text[i] is not None and tuple(slot_ord[i]) != tuple(O)]
            if shadow and rng.random() < 0.35:
                i = rng.choice(shadow)
                e = slot_expr[i]
                op = B.mk_parse(k, O, e, text=slot_text[i])
                n_shadow += 1
            else:
                if src and rng.random() < 0.3:
                    e = variant(rng, slot_expr[rng.choice(src)])
                else:
                    e = B.rand_expr(rng, rng.randint(0, 3), vs, p_kw=0.3, p_const=0.08, p_bad=p_bad)
                op = B.mk_parse(k, O, e, lam=rng.random() < 0.3, full=rng.random() < 0.15)
            ok = B.expected_status(e, O) == 'ok'
            ops.append(op)
            if ok:
                slot_ord[k], slot_expr[k] = list(O), e
                slot_text[k] = op[4] if op[0] == 'parse' else None
        elif r < 0.50:
            i, j = rng.choice(filled), rng.choice(filled)
            if rng.random() < 0.12:
                j = i                                     # one object as both operands
            ops.append([rng.choice(['and', 'or', 'xor']), i, j, k] + (['aug'] if rng.random() < 0.2 else []))
            if tuple(slot_ord[i]) == tuple(slot_ord[j]):
                slot_ord[k], slot_expr[k], slot_text[k] = slot_ord[i], None, None
        elif r < 0.54:
            i = rng.choice(filled)                        # a second reference to the same OBDD object
            ops.append(['alias', i, k])
            slot_ord[k], slot_expr[k], slot_text[k] = slot_ord[i], slot_expr[i], slot_text[i]
        elif r < 0.62:
            i = rng.choice(filled)
            ops.append(['not', i, k])
            slot_ord[k], slot_expr[k], slot_text[k] = slot_ord[i], None, None
        elif r < 0.72:
            i = rng.choice(filled)
            v = rng.choice(slot_ord[i]) if rng.random() < 0.8 else rng.randrange(5)
            ops.append(['restrict', i, v, rng.choice([True, False, 0, 1]), k])
            slot_ord[k], slot_expr[k], slot_text[k] = slot_ord[i], None, None
        elif r < 0.79:
            i = rng.choice(filled)
            ops.append(['reparse', i, k, rng.choice(['root', 'lambda'])])
            slot_ord[k], slot_expr[k], slot_text[k] = slot_ord[i], None, None
        elif r < 0.92:
            i = rng.choice(filled)
            ops.append(['drop', i, 'cycle' if rng.random() < p_cycle else 'del'])
            slot_ord[i], slot_expr[i], slot_text[i] = None, None, None
        else:
            ops.append(['gc'])
    ops.append(['gc'])
    return {'psize': psize, 'ops': ops, 'n_shadow': n_shadow}


PAIR_BASIS = ['a', 'b', '~a', 'a & b', 'b & a', 'a | b', '~(~a & ~b)', 'a & ~b | ~a & b', '(a | b) & ~(a & b)',
              'a & b | c', '(a | c) & (b | c)', 'a & (b | c)', 'a & b | a & c', 'a & b & c & d', 'd & c & b & a',
              '~(~a | ~b | ~c | ~d)', 'a & b | c & d', '(a | c) & (a | d) & (b | c) & (b | d)', 'a | ~a', '1', 'b & ~b', '0',
              'a & (a | d)', '(a & ~d | ~a & d) & ~c | ~(a & ~d | ~a & d) & c', '~(a & ~c | ~a & c) & d | (a & ~c | ~a & c) & ~d',
              'c', 'c & (d | ~d)', 'not (a and not b or not a and b)', 'a & b | ~a & ~b', 'd | (a and b and c)']
PAIR_BASIS = [B.rn(t) for t in PAIR_BASIS]


def pairs_history(rng, O, basis):
    """every pair of the basis under one ordering: load everything, churn half of it, reload"""
    n = len(basis)
    # four members are first parsed under the REVERSED ordering and stay alive in extra slots while the very same texts are
    # parsed under O
    O2 = list(reversed(O))
    big = [i for i, e in enumerate(basis) if len(B.evars(e)) >= 3 and i % 3 != 2]
    extra = rng.sample(big, 4)
    ops = [B.mk_parse(n + t, O2, basis[i]) for t, i in enumerate(extra)]
    ops += [B.mk_parse(i, O, e, lam=(i % 3 == 2)) for i, e in enumerate(basis)]
    idx = list(range(n))
    rng.shuffle(idx)
    for i in idx[:n // 2]:
        ops.append(['drop', i, 'cycle' if rng.random() < 0.5 else 'del'])
    ops.append(['gc'])
    for i in idx[:n // 2]:
        ops.append(B.mk_parse(i, O, B.to_kw(basis[(i + 1) % n])))
    ops.append(['gc'])
    return {'psize': n + 4, 'ops': ops}


def batch(histories):
    stream = histories[0].get('stream')
    if stream == 'gc':
        # -> (violations, info, the history with its explicit collection points)
        return [(v, info, h) for h, v, info in S.run_batch_gc(histories)]
    if stream == 'crowd':
        return [(v, info, h) for (v, info, _), h in zip(S.run_batch(histories), histories)]
    return B.run_batch(histories)


def run(R):
    rng = R.rng
    R.rule = ('random histories (quick 3000 of length <= 30, thorough 8000 of length <= 200) over a pool of %d OBDD slots, variables '
              'a..d (+e as an outsider), 1-2 orderings per history (permutations of 2-4 variables; the second one often a different '
              'permutation of the same variables); operations parse / lambda / & | ^ / ~ / restrict / reparse(str(root) or str(obdd)) / '
              'drop (immediate del, or deferred: parked in an unreachable cycle until the next collection) / gc; ~10%% of the parse steps '
              'are meant to fail (variable outside the ordering, non-Boolean syntax, repeated variable); 30%% of parses re-spell an '
              'expression already in the pool (keywords, double negation, De Morgan, commuted operands), 35%% of the parses that can do so '
              're-parse the very TEXT of a live entry under another ordering (one text, two orderings, both diagrams alive); 4%% of the steps '
              'put one OBDD object into a second slot, 12%% of the binary steps use one slot as both operands, 20%% are spelled with augmented '
              'assignment (acc = p[i]; acc &= p[j]; p[k] = acc); `!=` is observed next to `==`; the names a, ab, b, bb contain one another '
              '(restrict(\'ab\') next to a and b); plus all-pairs histories: '
              'a %d-expression basis loaded into one pool under each ordering (quick 4, thorough all 24), half of it dropped, collected '
              'and reloaded in the other notation, while four of the texts are kept alive under the reversed ordering. Batches of 10 histories share one fresh interpreter (pool released and collected in '
              'between; the table must be empty again). A case = a history; non-trivial = it has a step after which two distinct pool '
              'slots hold the same non-constant function under the same ordering, or a drop/gc/overwrite step after which the number of '
              'live nodes in the unique table went down (nodes were really freed).  SECOND-AUDIT STREAMS (worker of c16_streams.py: the same '
              'observations plus constants / node operands / hash, see cov): crowd histories (quick 5, thorough 24): a 48-slot pool loaded with '
              'x & g, x | g, ~x & g, ~x | g (x mostly the top variable of the ordering, g random over the others; a fifth of the slots under a second '
              'ordering), so that the parent sets of the terminals - the sets find_isomorph scans - hold 20+ nodes, then 24 steps that parse single '
              'variables / small expressions, combine, restrict, drop, collect (the == / != / identity matrices of these big pools are refreshed for '
              'the touched slot at each step and in full at gc steps); gc histories (quick 120, thorough 600, 7 slots, <= 36 steps): ~45%% of the '
              'steps park an OBDD in an unreachable cycle and the next operation gets ONE forced gc.collect() inside it, at the k-th line executed by '
              'a function of the library (two thirds of the draws among the functions whose code touches f_low / f_high / Tnodes / .data, one third '
              'among all functions of the step; places found by a counting pass of the same history in the same interpreter), a third of them also '
              'with the automatic collector on (thresholds 1..211, 1..3, 1..3) while the operations run' % (PSIZE, len(PAIR_BASIS)))
    R.cov['live_count_rule'] = LIVE_RULE
    nh, maxlen = (8000, 200) if R.thorough else (3000, 30)
    hs = []
    for i in range(nh):
        # a spread of lengths: most histories short, some as long as allowed
        ml = maxlen if i % 4 == 0 else max(6, maxlen // (1 + i % 4))
        hs.append(gen_history(rng, ml))
    basis = []
    for t in PAIR_BASIS:
        basis.append(B.struct_of_text(t))
    perms = list(itertools.permutations(range(4)))
    if not R.thorough:
        perms = [perms[0], perms[23], perms[9], perms[14]]
    pair_hs = [pairs_history(rng, list(O), basis) for O in perms]
    n_crowd, n_gc = (24, 600) if R.thorough else (5, 120)
    crowd_hs = [S.gen_crowd(rng) for _ in range(n_crowd)]
    gc_hs = [S.gen_churn(rng, 36 if i % 3 else 20) for i in range(n_gc)]
    batches = [[h] for h in crowd_hs] + B.chunks(hs, 10) + [[h] for h in pair_hs] + B.chunks(gc_hs, 10)
    results = B.parallel(batch, batches)
    kinds, statuses, lens = {}, {}, {}
    xs = {k: {'histories': 0, 'steps': 0, 'max_parents_of_terminal_0_low': 0, 'max_parents_of_terminal_1_high': 0, 'max_parent_set': 0,
              'steps_where_the_class_was_hashable': 0, 'forced_collections_inside_function': {},
              'histories_with_the_automatic_collector_on': 0} for k in ('crowd', 'gc')}
    twin_steps = freed_steps = garbage_steps = steps = shadow_steps = 0
    max_live = 0
    for bt, res in zip(batches, results):
        for h, (viol, info, hx) in zip(bt, res):
            R.evaluations += 1
            for v in viol:
                if h.get('stream'):
                    S.report_violation(R, 'C16', hx, v)
                else:
                    B.report_violation(R, 'C16', h, v)
            if viol:
                continue
            if h.get('stream'):
                st = xs[h['stream']]
                st['histories'] += 1
                st['steps'] += len(info)
                st['max_parents_of_terminal_0_low'] = max([st['max_parents_of_terminal_0_low']] + [s['par0'] for s in info])
                st['max_parents_of_terminal_1_high'] = max([st['max_parents_of_terminal_1_high']] + [s['par1'] for s in info])
                st['max_parent_set'] = max([st['max_parent_set']] + [s['parmax'] for s in info])
                st['steps_where_the_class_was_hashable'] += sum(1 for s in info if s['hashable'])
                for a in (hx.get('gcmode') or {}).get('at') or []:
                    if a:
                        st['forced_collections_inside_function'][a[0]] = st['forced_collections_inside_function'].get(a[0], 0) + 1
                if (hx.get('gcmode') or {}).get('thr'):
                    st['histories_with_the_automatic_collector_on'] += 1
            shadow_steps += h.get('n_shadow', 0)
            nt = False
            for op, s in zip(h['ops'], info):
                steps += 1
                kinds[s['kind']] = kinds.get(s['kind'], 0) + 1
                if op[0] in ('and', 'or', 'xor'):
                    if len(op) > 4:
                        kinds['binary(augmented)'] = kinds.get('binary(augmented)', 0) + 1
                    if op[1] == op[2]:
                        kinds['binary(one slot twice)'] = kinds.get('binary(one slot twice)', 0) + 1
                if s['status'] != 'ok':
                    statuses[s['kind'] + ':' + s['status']] = statuses.get(s['kind'] + ':' + s['status'], 0) + 1
                twin_steps += s['twins']
                freed_steps += s['freed']
                garbage_steps += s['garbage'] > 0
                max_live = max(max_live, s['live'])
                nt = nt or s['twins'] or s['freed']
            b = min(len(h['ops']) // 25 * 25, 200)
            lens['%d-%d' % (b, b + 24)] = lens.get('%d-%d' % (b, b + 24), 0) + 1
            if nt:
                R.nontriv(tuple(B.op_text(o) for o in h['ops']))
                if h['psize'] == PSIZE and not h.get('stream'):
                    R.sample({'history': [B.op_text(o) for o in h['ops'][:12]], 'length': len(h['ops'])})
    R.cov['distribution'] = {
        'histories': len(hs), 'all_pairs_histories': len(pair_hs), 'steps': steps, 'op_kinds': kinds,
        'expected_errors': statuses, 'history_length': lens,
        'parses_of_a_live_text_under_another_ordering': shadow_steps, 'steps_with_twin_slots': twin_steps, 'steps_that_freed_nodes': freed_steps,
        'steps_with_uncollected_garbage_in_the_table': garbage_steps, 'max_live_nodes': max_live}
    R.cov['second_audit_streams'] = xs
    R.cov['constant_and_hash_observers'] = (
        'in the crowd and gc streams, after every step: p == c, p != c, c == p for c in 0, 1, True, False and p == BDDNode(0), '
        'p == BDDNode(1) for every entry p (expected from the model\'s truth table: equal exactly when p is that constant); the slot '
        'written by the step against the root node of every entry under the same ordering, both directions (expected: the model\'s == '
        'matrix); hash(p): the unchanged class defines __eq__ only and is unhashable (TypeError recorded, nothing compared, see '
        'steps_where_the_class_was_hashable); if it is hashable, entries that compare equal must hash equal and find one another in a '
        'set and as dict keys')
    R.exhaustive = False


def replay(R, data):
    if data['data'].get('stream'):
        S.replay_history(R, data)
    else:
        B.replay_history(R, data)
