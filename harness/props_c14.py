"""C14 - Kripke structures are always total, fully labelled, and copy faithfully.
Theorems (Properties/C14.v): C14_ctor, C14_shape, C14_nonstate, C14_state, C14_clone, C14_substructure,
C14_constructed_wf (model: Model/Kripke.v mk_kripke / labels_r / knext_r / kclone / substructure).

Correspondence: the real `Kripke(S, S0, R, L)` constructor, `clone()`, `get_substructure(V)`, `labels(s)` and
`next(s)` on live objects vs the extracted model on the same arguments.  The model side is a pure function of
the ARGUMENTS (round 1: `(kripke S S0 R L)`, round 2: operations on the model's own result), the implementation
side is read through the public API only (`states()`, `transitions()`, `S0`, `labels(s)`,
`labelling_function()`), compared as sets.  States are numbers in the model; the implementation is additionally
run with the states renamed by a bijection to strings / tuples / mixed values and compared through the bijection.
Runtime-only monitoring (the model is pure): no label set (nor successor set, nor S0) of a clone / substructure is
shared with the original - checked by identity and by mutating copy resp. original and re-taking snapshots.

Atomic propositions are the names p, q in the model; the implementation is run with p, q renamed by an injective
vocabulary to multi-character strings, strings made of other atoms' characters, non-string and mutually unorderable
values, iterable values and identity-hashed objects, and label sets are compared AS VALUES through the vocabulary
(an atom that is not a vocabulary value shows up as UNKNOWN:...).  L is passed as dict / OrderedDict /
defaultdict(set) / a dict subclass; V as set / frozenset / set subclass / dict keys view / states() of another
structure / a collections.abc.Set.  Sessions: a structure is edited through the public API (add_edge between
existing states, replace_labelling_function, label_fair_states, K = K.clone()) and clone()/get_substructure are
compared before the first and after every edit with the model's constructor applied to the edited ARGUMENTS.
Second audit: sessions also (a) GROW the structure (add_node / add_edge introducing new states; labels(s) of EVERY
state is read after each single call), (b) edit through the HANDLES the API hands out (labels(s).add/.discard,
labelling_function()[s] = set - also for a non-state -, S0.add/.discard, S0 = set) - a copy is taken after every
such edit -, (c) ask labels(s)/next(s) of every state and of non-states (the foreign key the edits install, states
not yet added) after every edit, and (d) take one clone and one substructure per step that nobody READS until the
original has been edited again (keys late:...): the late reading must be the copy of the moment it was taken."""
import itertools
import collections
import collections.abc
from common import *
LEVEL = 'proof'

FOREIGN = 99                     # never a state of any generated structure
APS = ('p', 'q')
LABSETS = [None, (), ('p',), ('q',), ('p', 'q')]      # None = no entry in L for that key
MAX_REPORT = 40


class AtomObj(object):
    """an atomic proposition that is a plain object (identity __eq__/__hash__, not orderable)"""
    def __init__(self, i):
        self.i = i

    def __repr__(self):
        return 'AtomObj(%d)' % self.i


_ATOMOBJ = [AtomObj(0), AtomObj(1)]
# vocabulary: the python values standing for the model's atoms p, q
VOCABS = [
    ('p', 'q'),
    ('done', 'ready'),                      # multi-character names
    ('pq', 'p'),                            # a name whose characters are (other) names
    (1, '1'),                               # equal under str()
    (('a', 1), 2),                          # tuple / int: hashable, mutually unorderable
    ('done', 7),                            # str / int: mutually unorderable
    (frozenset(['x', 'y']), 'xy'),          # an atom that is itself iterable
    (_ATOMOBJ[0], _ATOMOBJ[1]),             # identity-hashed objects
    ('', 'a b'),                            # empty name, name with a blank
]
VOCAB_DESC = ['p/q', 'done/ready', 'pq/p', '1/"1"', 'tuple/int', 'str/int', 'frozenset/str', 'objects', 'empty/blank']


def atom_maps(vocab):
    """model atom name -> python value, and python value -> canonical (model) name"""
    P, Qv = VOCABS[vocab]
    fwd = {'p': P, 'q': Qv}
    back = {P: 'p', Qv: 'q'}

    def g(a):
        return fwd[a] if a in fwd else a     # fair, fair0, ... stand for themselves

    def ginv(v):
        try:
            if v in back:
                return back[v]
        except TypeError:
            pass
        if isinstance(v, str) and v.startswith('fair') and (v == 'fair' or v[4:].isdigit()):
            return v
        return 'UNKNOWN:%s:%r' % (type(v).__name__, v)
    return g, ginv


class DictSub(dict):
    """a user subclass of dict"""
    pass


class SetSub(set):
    """a user subclass of set"""
    pass


class VSet(collections.abc.Set):
    """a set in the sense of collections.abc (has & | <= ..., but none of set's named methods)"""
    def __init__(self, it=()):
        self._d = list(dict.fromkeys(it))

    def __contains__(self, x):
        return x in self._d

    def __iter__(self):
        return iter(self._d)

    def __len__(self):
        return len(self._d)


L_KINDS = ['dict', 'OrderedDict', 'defaultdict(set)', 'dict subclass']
V_KINDS = ['set', 'set', 'frozenset', 'dict keys view', 'states() of another Kripke', 'collections.abc.Set', 'set subclass']


def mk_L(items, lk):
    if lk == 1:
        return collections.OrderedDict(items)
    if lk == 2:
        d = collections.defaultdict(set)
        d.update(items)
        return d
    if lk == 3:
        return DictSub(items)
    return dict(items)


def mk_V(vals, kind):
    vals = list(vals)
    if kind == 2:
        return frozenset(vals)
    if kind == 3:
        return dict.fromkeys(vals).keys()
    if kind == 4:
        from pyModelChecking.kripke import Kripke
        try:
            return Kripke(R=[(v, v) for v in vals]).states()
        except Exception:       # the helper structure cannot be built (the constructor cases report that): another view type
            return dict.fromkeys(vals).keys()
    if kind == 5:
        return VSet(vals)
    if kind == 6:
        return SetSub(vals)
    return set(vals)


# ----------------------------------------------------------------------------------------
# cases: JSON-able descriptions of constructor arguments
#   S, S0: list of ints | None;  R: list of [a, b] | None;  L: list of [key, [atoms]] | None
#   kinds: container kinds of the four arguments;  ren: renaming of the states
#   Vs: list of subsets for get_substructure;  Q: states to query with labels()/next()
# ----------------------------------------------------------------------------------------
class Site(object):
    """a state that is a plain object: default identity __eq__/__hash__ (a copy of it is a DIFFERENT state)"""
    def __init__(self, i):
        self.i = i

    def __repr__(self):
        return 'Site(%d)' % self.i


_SITES = [Site(i) for i in range(128)]


def renaming(ren):
    """bijection int -> python state value, and its inverse"""
    if ren == 4:
        f = lambda i: _SITES[i]
    elif ren == 0:
        f = lambda i: i
    elif ren == 1:
        f = lambda i: 's%d' % i
    elif ren == 2:
        f = lambda i: ('s', i)
    else:   # mixed value types in one structure
        f = lambda i: (i if i % 3 == 0 else ('n%d' % i if i % 3 == 1 else (i, frozenset([i]))))
    invd = {f(i): i for i in range(0, 128)}
    return f, (lambda s: invd[s])


def mk_seq(xs, kind):
    if kind == 0:
        return list(xs)
    if kind == 1:
        return tuple(xs)
    if kind == 2:
        return set(xs)
    if kind == 3:
        return list(xs) + list(xs)[:2]          # duplicates
    if kind == 4:
        return list(reversed(list(xs)))
    if kind == 5:
        return frozenset(xs)
    return iter(list(xs))                        # a one-shot iterator


def mk_labval(atoms, kind, vocab=0):
    k = kind % 7
    if k == 4:
        if vocab == 0:
            return ''.join(atoms)                # atoms are single characters: 'pq' iterates to p, q
        return dict.fromkeys(atoms)              # a dict iterates to its keys
    return mk_seq(atoms, k)


def build_args(case, f, g=None):
    g = g or (lambda a: a)
    vocab = case.get('vocab', 0)
    k = case['kinds']
    S = None if case['S'] is None else mk_seq([f(s) for s in case['S']], k[0])
    S0 = None if case['S0'] is None else mk_seq([f(s) for s in case['S0']], k[1])
    if case['R'] is None:
        R = None
    else:
        pair = list if k[2] == 4 else tuple      # kind 4: edges given as 2-element lists
        R = mk_seq([pair((f(a), f(b))) for a, b in case['R']], 0 if k[2] == 4 else k[2])
    if case['L'] is None:
        L = None
    else:
        L = mk_L([(f(s), mk_labval([g(a) for a in at], k[3] + i, vocab)) for i, (s, at) in enumerate(case['L'])],
                 case.get('Lk', 0))
    return S, S0, R, L


def model_ctor_cmd(case):
    """the model's constructor on (S, S0, R, L) of `case` (any dict with these four keys)"""
    L = case['L'] or []
    return sx_str(['kripke', case['S'] or [], case['S0'] or [], [list(e) for e in (case['R'] or [])],
                   [[s, [Q(a) for a in at]] for s, at in L]])


def case_states(case):
    return sorted(set(case['S'] or []) | {x for e in (case['R'] or []) for x in e})


def subsets(xs):
    xs = list(xs)
    return [list(c) for r in range(len(xs) + 1) for c in itertools.combinations(xs, r)]


def is_total(case):
    st = case_states(case)
    return bool(st) and not (set(st) - {a for a, _ in (case['R'] or [])})


def fair_name(L):
    """the name label_fair_states picks: fair, fair0, fair1, ... - the first one that labels nothing"""
    used = {a for _, at in L for a in at}
    name, i = 'fair', 0
    while name in used:
        name, i = 'fair%d' % i, i + 1
    return name


NEW = [50, 51]                   # states that only edit sessions add (add_node / add_edge); non-states until then


def gen_session(case, rng):
    """edits that keep the structure total and fully labelled, and the V to ask after each.  Through the public
    METHODS: edge (add_edge between existing states), grow (add_node / add_edge introducing NEW states, then repaired
    to total), relabel, fair, clone; through the HANDLES the API hands out: hlabel (labels(s) / labelling_function()[s]
    .add/.discard), hlf (labelling_function()[s] = set, s a state or a non-state), hS0 (S0.add / .discard / S0 = set)."""
    st = list(case_states(case))
    edges = {(a, b) for a, b in case['R']}
    edits = []
    for _ in range(rng.randint(2, 4)):
        free = [(a, b) for a in st for b in st if (a, b) not in edges]
        kind = rng.choice(['edge', 'edge', 'edge', 'relabel', 'relabel', 'fair', 'fair', 'clone', 'clone',
                           'grow', 'grow', 'hlabel', 'hlabel', 'hS0', 'hlf'])
        unused = [v for v in NEW if v not in st]
        if kind == 'edge' and free:
            e = rng.choice(free)
            edges.add(e)
            edits.append(['edge', e[0], e[1]])
        elif kind == 'grow' and unused:
            prims = []
            fresh = unused[:rng.randint(1, len(unused))]
            for v in fresh:
                shape = rng.randrange(4)
                if shape == 0:
                    prims.append(['node', v])
                elif shape == 1:
                    prims.append(['edge', v, v])
                elif shape == 2:
                    prims.append(['edge', rng.choice(st), v])
                else:
                    prims.append(['edge', v, rng.choice(st)])
                st.append(v)
            for p in prims:
                if p[0] == 'edge':
                    edges.add((p[1], p[2]))
            for v in fresh:                      # repair: every new state gets a successor
                if not any(a == v for a, _ in edges):
                    e = (v, rng.choice(st))
                    edges.add(e)
                    prims.append(['edge', e[0], e[1]])
            edits.append(['grow', prims])
        elif kind == 'relabel':
            edits.append(['relabel', [[s, [a for a in APS if rng.random() < 0.5]]
                                      for s in st + [FOREIGN] if rng.random() < 0.7]])
        elif kind == 'fair':
            edits.append(['fair', [[s for s in st if rng.random() < 0.5] for _ in range(rng.randint(0, 2))]])
        elif kind == 'hlabel':
            edits.append(['hlabel', rng.choice(st), rng.choice(APS), rng.choice(['add', 'add', 'discard']),
                          rng.choice(['labels', 'labels', 'lf'])])
        elif kind == 'hS0':
            edits.append(['hS0', rng.choice(['add', 'add', 'discard', 'assign']), [s for s in st if rng.random() < 0.5]])
        elif kind == 'hlf':
            edits.append(['hlf', rng.choice(st + [FOREIGN]), [a for a in APS if rng.random() < 0.5]])
        else:
            edits.append(['clone'])
    Vs = [list(st)] + [[x for x in st + [FOREIGN] if rng.random() < 0.6] for _ in range(2)]
    return {'edits': edits, 'Vs': Vs}


def session_states(case):
    """the states before the first and after every edit of the session"""
    cur = list(case_states(case))
    out = [sorted(cur)]
    for e in case['session']['edits']:
        if e[0] == 'grow':
            for p in e[1]:
                for v in p[1:]:
                    if v not in cur:
                        cur.append(v)
        out.append(sorted(cur))
    return out


def session_queries(states):
    """labels(s)/next(s) asked after every edit: every state, the foreign key the edits install, not-yet-added states"""
    return sorted(set(states) | {FOREIGN} | set(NEW))


def finish_case(case, rng, nV=None, session=0.0):
    """add container kinds, the atom vocabulary, the V subsets, the query states and (sometimes) an edit session"""
    st = case_states(case)
    case['kinds'] = [rng.randrange(7), rng.randrange(7), rng.randrange(7), rng.randrange(7)]
    case['vocab'] = 0 if rng.random() < 0.4 else rng.randrange(1, len(VOCABS))
    case['Lk'] = 0 if rng.random() < 0.5 else rng.randrange(1, len(L_KINDS))
    case['vk'] = rng.randrange(len(V_KINDS))
    if session and is_total(case) and rng.random() < session:
        case['session'] = gen_session(case, rng)
    for key in ('S', 'S0', 'R', 'L'):            # an empty argument is passed as None half of the time
        if case[key] is not None and len(case[key]) == 0 and rng.random() < 0.5:
            case[key] = None
    nonst = [x for x in range(0, len(st) + 1) if x not in st][:1] + [FOREIGN]
    case['Q'] = st + nonst
    pool = st + [nonst[0]]                       # every subset of states + one foreign state
    if nV is None or (1 << len(pool)) <= nV:
        case['Vs'] = subsets(pool)
    else:
        Vs = [[], list(st), list(pool)] + [[s] for s in st]
        while len(Vs) < nV:
            Vs.append([x for x in pool if rng.random() < 0.5])
        case['Vs'] = Vs
    return case


def space(n):
    """every (S, S0, R, L) over universe 0..n-1 and one foreign state n (in S0 and as key of L)"""
    U = list(range(n))
    pairs = [(a, b) for a in U for b in U]
    for S in subsets(U):
        for mask in range(1 << len(pairs)):
            R = [list(pairs[k]) for k in range(len(pairs)) if (mask >> k) & 1]
            for S0 in subsets(U + [n]):
                for labs in itertools.product(LABSETS, repeat=n + 1):
                    yield {'S': list(S), 'S0': list(S0), 'R': [list(e) for e in R],
                           'L': [[k, list(a)] for k, a in zip(U + [n], labs) if a is not None], 'ren': 0}


def sr_space(n):
    U = list(range(n))
    pairs = [(a, b) for a in U for b in U]
    for S in subsets(U):
        for mask in range(1 << len(pairs)):
            yield list(S), [list(pairs[k]) for k in range(len(pairs)) if (mask >> k) & 1]


def rand_case(rng, n):
    U = list(range(n))
    S = [s for s in U if rng.random() < 0.7]
    rng.shuffle(S)
    p = rng.choice([0.12, 0.25, 0.4, 0.6])
    R = [[a, b] for a in U for b in U if rng.random() < p]
    if rng.random() < 0.65:                     # repair totality (otherwise most cases are RuntimeErrors)
        nodes = sorted(set(S) | {x for e in R for x in e})
        for v in nodes:
            if not any(e[0] == v for e in R):
                R.append([v, rng.choice(nodes)])
    rng.shuffle(R)
    S0 = [s for s in U + [n] if rng.random() < 0.35]
    L = [[s, [a for a in APS if rng.random() < 0.5]] for s in U + [n] if rng.random() < 0.7]
    rng.shuffle(L)
    return {'S': S, 'S0': S0, 'R': R, 'L': L, 'ren': 0}


# ----------------------------------------------------------------------------------------
# implementation side
# ----------------------------------------------------------------------------------------
def qcall(fn):
    """common.call without the stdout capture (kripke.py prints nothing; ~100 calls per structure)"""
    try:
        return ('ok', fn())
    except RecursionError:
        return ('err', 'other:RecursionError')
    except Exception as e:  # noqa
        return ('err', exc_name(e))


def observe(K, inv, ginv=str):
    """API-level view of a live structure, canonical (sorted), in model numbering and model atom names"""
    st = sorted(inv(s) for s in K.states())
    lab = []
    for s in K.states():
        ls = K.labels(s)
        if not isinstance(ls, (set, frozenset)):
            raise TypeError('labels() is not a set')
        lab.append([inv(s), sorted(ginv(a) for a in ls)])
    return {'states': st,
            'edges': sorted([inv(a), inv(b)] for a, b in K.transitions()),
            'S0': sorted(inv(s) for s in K.S0),
            'labels': sorted(lab),
            'lf_keys': sorted(inv(s) for s in K.labelling_function().keys())}


def invariants(o):
    """the implementation-only reading of the property on one observed structure"""
    bad = []
    st = set(o['states'])
    if set(o['lf_keys']) != st or [s for s, _ in o['labels']] != o['states']:
        bad.append('a state without label set / label set of a non-state')
    if not set(o['S0']) <= st:
        bad.append('S0 not within states')
    if st - {a for a, _ in o['edges']}:
        bad.append('not total')
    if any(a not in st or b not in st for a, b in o['edges']):
        bad.append('edge endpoint not a state')
    return bad


def obs_of(r, inv, ginv=str):
    if r[0] != 'ok':
        return ['err', r[1]]
    o = qcall(lambda: observe(r[1], inv, ginv))
    return ['ok', o[1]] if o[0] == 'ok' else ['err', 'observe:' + str(o[1])]


def label_ids(K):
    return {id(K.labels(s)) for s in K.states()}


def next_ids(K):
    return {id(K.next(s)) for s in K.states()}


def mutate(K, tag):
    """write to everything the API hands out: label sets, successor sets, S0, labelling dict, new edge"""
    fresh = ('fresh', tag)
    sts = list(K.states())
    for s in sts:
        for fn in (lambda: K.labels(s).add(tag), lambda: K.next(s).add(fresh)):
            try:
                fn()
            except Exception:
                pass
    for fn in (lambda: K.S0.add(fresh), lambda: K.labelling_function().__setitem__(fresh, {tag}),
               lambda: K.add_edge(('fresh2', tag), ('fresh2', tag))):
        try:
            fn()
        except Exception:
            pass


def share_findings(K, K2, key, alias):
    """identity monitors: nothing the result hands out IS an object of the structure it was made from"""
    sh = qcall(lambda: (bool(label_ids(K) & label_ids(K2)) or K.labelling_function() is K2.labelling_function(),
                       bool(next_ids(K) & next_ids(K2)), K.S0 is K2.S0))
    if sh[0] == 'ok':
        if sh[1][0]:
            alias.append([key, 'a label set object of the result IS a label set of the original'])
        if sh[1][1]:
            alias.append([key, 'a successor set object of the result IS one of the original'])
        if sh[1][2]:
            alias.append([key, 'S0 object shared'])


def label_view(K, inv, ginv):
    """labels(s) of EVERY current state (an exception is part of the view)"""
    v = []
    for s in list(K.states()):
        q = qcall(lambda: sorted(ginv(a) for a in K.labels(s)))
        v.append([inv(s), q[1] if q[0] == 'ok' else 'err:' + str(q[1])])
    return sorted(v, key=lambda x: x[0])


def query_state(K, s, fs, inv, ginv, out, prefix=''):
    """labels(s) / next(s) of one (non-)state, canonical"""
    q = qcall(lambda: K.labels(fs))
    if q[0] == 'ok':
        q = qcall(lambda: sorted(ginv(a) for a in q[1]))
    out['%slabels:%d' % (prefix, s)] = [q[0], q[1]]
    q = qcall(lambda: K.next(fs))
    if q[0] == 'ok':
        q = qcall(lambda: sorted(inv(d) for d in q[1]))
    out['%snext:%d' % (prefix, s)] = [q[0], q[1]]


def handle_edit(K, e, f, g):
    """an edit through an object the API handed out (label set, labelling dict, S0)"""
    if e[0] == 'hlabel':
        ls = K.labels(f(e[1])) if e[4] == 'labels' else K.labelling_function()[f(e[1])]
        if e[3] == 'add':
            ls.add(g(e[2]))
        else:
            ls.discard(g(e[2]))
    elif e[0] == 'hlf':
        K.labelling_function()[f(e[1])] = set(g(a) for a in e[2])
    elif e[1] == 'add':
        for s in e[2]:
            K.S0.add(f(s))
    elif e[1] == 'discard':
        for s in e[2]:
            K.S0.discard(f(s))
    else:
        K.S0 = set(f(s) for s in e[2])


def run_session(case, out, alias):
    """a fresh structure edited through the public API; clone()/get_substructure before the first and after every
    edit (keys s<i>:...), labels(s)/next(s) of every state and of non-states after every edit, and one clone / one
    substructure per step that is taken, left UNREAD, and observed only after the next edit (keys s<i>:late:...).
    Returns {step: fair states found by the implementation} for the model's prediction."""
    from pyModelChecking.kripke import Kripke
    f, inv = renaming(case['ren'])
    g, ginv = atom_maps(case.get('vocab', 0))
    sess = case['session']
    S, S0, R, L = build_args(case, f, g)
    r = qcall(lambda: Kripke(S=S, S0=S0, R=R, L=L))
    if r[0] != 'ok':
        out['s0:ctor'] = ['err', r[1]]
        return {}
    K = r[1]
    fair = {}
    vk = case.get('vk', 0)
    sstates = session_states(case)
    pending = []

    def read_pending():
        for key, r0 in pending:
            out[key] = obs_of(r0, inv, ginv)
        del pending[:]

    for i in range(len(sess['edits']) + 1):
        if i > 0:
            e = sess['edits'][i - 1]
            key = 's%d:edit' % i
            res = None
            if e[0] == 'edge':
                r = qcall(lambda: K.add_edge(f(e[1]), f(e[2])))
            elif e[0] == 'grow':
                res = []
                for p in e[1]:
                    if p[0] == 'node':
                        r = qcall(lambda: K.add_node(f(p[1])))
                    else:
                        r = qcall(lambda: K.add_edge(f(p[1]), f(p[2])))
                    if r[0] != 'ok':
                        break
                    res.append(label_view(K, inv, ginv))       # possibly not total here: no copy, only labels(s)
            elif e[0] == 'relabel':
                L2 = {f(s): set(g(a) for a in at) for s, at in e[1]}
                r = qcall(lambda: K.replace_labelling_function(L2))
            elif e[0] == 'fair':
                F = [set(f(s) for s in P) for P in e[1]]
                r = qcall(lambda: sorted(inv(s) for s in K.get_fair_states(F)))
                if r[0] == 'ok':
                    fair[i] = r[1]
                    r = qcall(lambda: K.label_fair_states(F))
                    res = r[1] if r[0] == 'ok' else None
            elif e[0] in ('hlabel', 'hlf', 'hS0'):
                r = qcall(lambda: handle_edit(K, e, f, g))
            else:
                r = qcall(lambda: K.clone())
                if r[0] == 'ok':
                    K = r[1]
            out[key] = ['ok', res] if r[0] == 'ok' else ['err', r[1]]
            if r[0] != 'ok':
                break
            read_pending()                       # copies taken before this edit, first read now
            for s in session_queries(sstates[i]):
                query_state(K, s, f(s), inv, ginv, out, 's%d:' % i)
        snap = qcall(lambda: kripke_snapshot(K))
        ops = [('clone', None)] + [('sub:' + ','.join(map(str, V)), V) for V in sess['Vs']]
        for j, (k2, V) in enumerate(ops):
            key = 's%d:%s' % (i, k2)
            if V is None:
                r2 = qcall(lambda: K.clone())
            else:
                Vset = mk_V([f(v) for v in V], (vk + i + j) % len(V_KINDS))
                r2 = qcall(lambda: K.get_substructure(Vset))
            out[key] = obs_of(r2, inv, ginv)
            if r2[0] == 'ok' and out[key][0] == 'ok':
                share_findings(K, r2[1], key, alias)
            if qcall(lambda: kripke_snapshot(K)) != snap:
                alias.append([key, 'the structure changed by copying it'])
                snap = qcall(lambda: kripke_snapshot(K))
        # copies nobody looks at until the original has been edited again
        pending.append(('s%d:late:clone' % i, qcall(lambda: K.clone())))
        V0 = sess['Vs'][(i + len(sess['edits'])) % len(sess['Vs'])]
        Vset0 = mk_V([f(v) for v in V0], (vk + i) % len(V_KINDS))
        pending.append(('s%d:late:sub:%s' % (i, ','.join(map(str, V0))), qcall(lambda: K.get_substructure(Vset0))))
    mutate(K, 'ww')
    read_pending()
    return fair


def run_impl(case):
    """constructor + all operations on the live object; returns dict key -> observation, aliasing findings"""
    from pyModelChecking.kripke import Kripke
    f, inv = renaming(case['ren'])
    g, ginv = atom_maps(case.get('vocab', 0))
    S, S0, R, L = build_args(case, f, g)
    r = qcall(lambda: Kripke(S=S, S0=S0, R=R, L=L))
    out = {'ctor': obs_of(r, inv, ginv)}
    alias = []
    if r[0] != 'ok':
        return out, alias, {}
    K = r[1]
    snap0 = qcall(lambda: kripke_snapshot(K))
    # queries first (on the untouched object)
    for s in case['Q']:
        q = qcall(lambda: K.labels(f(s)))
        out['labels:%d' % s] = ['ok', sorted(ginv(a) for a in q[1])] if q[0] == 'ok' else ['err', q[1]]
        q = qcall(lambda: K.next(f(s)))
        if q[0] == 'ok':
            q = qcall(lambda: sorted(inv(d) for d in q[1]))
        out['next:%d' % s] = [q[0], q[1]]
    kept = []
    vk = case.get('vk', 0)
    ops = [('clone', None)] + [('sub:' + ','.join(map(str, V)), V) for V in case['Vs']]
    for i, (key, V) in enumerate(ops):
        if V is None:
            do = lambda: K.clone()
        else:
            Vset = mk_V([f(v) for v in V], (vk + i) % len(V_KINDS))
            do = lambda: K.get_substructure(Vset)
        r2 = qcall(do)
        out[key] = obs_of(r2, inv, ginv)
        if r2[0] == 'ok' and out[key][0] == 'ok':
            K2 = r2[1]
            share_findings(K, K2, key, alias)
            kept.append((key, K2, qcall(lambda: kripke_snapshot(K2))))
            r3 = qcall(do)                       # a second, throw-away copy that gets mutated
            if r3[0] == 'ok':
                mutate(r3[1], 'zz')
        if qcall(lambda: kripke_snapshot(K)) != snap0:
            alias.append([key, 'the original changed (by the operation or by mutating its result)'])
            snap0 = qcall(lambda: kripke_snapshot(K))
    # copies that are taken now, left UNREAD while the original is mutated, and observed only afterwards
    late = []
    full = sorted(case_states(case))
    pick = {0}
    for i, (_k, V) in enumerate(ops):
        if V is not None and sorted(V) == full:
            pick.add(i)
            break
    if len(ops) > 1:
        pick.add(1 + (len(case['R'] or []) + 3 * len(case['L'] or []) + vk) % (len(ops) - 1))
    pick = sorted(pick)
    for i in pick:
        key, V = ops[i]
        if V is None:
            late.append(('late:' + key, qcall(lambda: K.clone())))
        else:
            Vset = mk_V([f(v) for v in V], (vk + i + 1) % len(V_KINDS))
            late.append(('late:' + key, qcall(lambda: K.get_substructure(Vset))))
    # and vice versa: mutate the original, the copies made earlier must not move
    mutate(K, 'yy')
    for key, K2, snap2 in kept:
        if qcall(lambda: kripke_snapshot(K2)) != snap2:
            alias.append([key, 'the result changed when the original was mutated afterwards'])
    for key, r0 in late:
        out[key] = obs_of(r0, inv, ginv)
    fair = run_session(case, out, alias) if case.get('session') else {}
    return out, alias, fair


def ctor_alias_probe(case):
    """informational: does the constructor keep references to the caller's containers?"""
    from pyModelChecking.kripke import Kripke
    c = dict(case)
    c['kinds'] = [0, 2, 0, 2]                   # list, set, list of tuples, dict of sets
    S, S0, R, L = build_args(c, lambda i: i)
    K = Kripke(S, S0, R, L)
    snap = kripke_snapshot(K)
    for fn in (lambda: S.append(1000), lambda: S0.add(1000), lambda: R.append((1000, 1000)),
               lambda: [v.add('zz') for v in L.values() if isinstance(v, set)], lambda: L.__setitem__(1000, {'zz'})):
        try:
            fn()
        except Exception:
            pass
    return kripke_snapshot(K) != snap


# ----------------------------------------------------------------------------------------
# model side
# ----------------------------------------------------------------------------------------
_CACHE = {}


def model_many(strs):
    """answers for pre-rendered command strings; deduplicated and cached (per process)"""
    todo = []
    seen = set()
    for s in strs:
        if s not in _CACHE and s not in seen:
            seen.add(s)
            todo.append(s)
    if todo:
        for s, o in zip(todo, model_batch(todo, 900)):
            _CACHE[s] = o
    res = [_CACHE[s] for s in strs]
    if len(_CACHE) > 120000:
        _CACHE.clear()
    return res, len(todo)


def mk_obs(k):
    g, init, lab = k
    return {'states': sorted(int(x) for x, _ in g),
            'edges': sorted([int(x), int(d)] for x, ds in g for d in ds),
            'S0': sorted(ints(init)),
            'labels': sorted([int(s), sorted(str(a) for a in ls)] for s, ls in lab),
            'lf_keys': sorted(int(s) for s, _ in lab)}


def m_kripke(o):
    return ['ok', mk_obs(o[1])] if o[0] == 'ok' else ['err', str(o[1])]


def model_ops(case, Ksx):
    """(key, command string) for every operation of the case on the model's structure"""
    ks = sx_str(Ksx)
    cmds = [('clone', '(kclone %s)' % ks)]
    for V in case['Vs']:
        cmds.append(('sub:' + ','.join(map(str, V)), '(substr %s %s)' % (ks, sx_str(V))))
    for s in case['Q']:
        cmds.append(('labels:%d' % s, '(labels %s %d)' % (ks, s)))
        cmds.append(('next:%d' % s, '(knext %s %d)' % (ks, s)))
    return cmds


def session_steps(case, ctor_obs, fair):
    """the constructor arguments the structure is predicted to be equivalent to, before the first and after every
    edit (model numbering, model atom names), and the expected result of every edit"""
    cur = {'S': list(ctor_obs['states']), 'S0': list(ctor_obs['S0']), 'R': [list(e) for e in ctor_obs['edges']],
           'L': [[s, list(at)] for s, at in ctor_obs['labels']]}
    steps = [json.loads(json.dumps(cur))]
    results = {}
    for i, e in enumerate(case['session']['edits'], 1):
        results['s%d:edit' % i] = ['ok', None]
        if e[0] == 'edge':
            cur['R'].append([e[1], e[2]])
        elif e[0] == 'grow':
            views = []
            for p in e[1]:
                for v in p[1:]:
                    if v not in cur['S']:
                        cur['S'].append(v)
                if p[0] == 'edge':
                    cur['R'].append([p[1], p[2]])
                lm = {s: at for s, at in cur['L']}
                views.append([[s, sorted(lm.get(s, []))] for s in sorted(cur['S'])])
            results['s%d:edit' % i] = ['ok', views]
        elif e[0] == 'hlabel':
            lm = {s: list(at) for s, at in cur['L']}
            at = [a for a in lm.get(e[1], []) if a != e[2]] + ([e[2]] if e[3] == 'add' else [])
            lm[e[1]] = at
            cur['L'] = [[s, at] for s, at in lm.items()]
        elif e[0] == 'hlf':
            lm = {s: list(at) for s, at in cur['L']}
            lm[e[1]] = list(e[2])
            cur['L'] = [[s, at] for s, at in lm.items()]
        elif e[0] == 'hS0':
            if e[1] == 'add':
                cur['S0'] = sorted(set(cur['S0']) | set(e[2]))
            elif e[1] == 'discard':
                cur['S0'] = sorted(set(cur['S0']) - set(e[2]))
            else:
                cur['S0'] = sorted(e[2])
        elif e[0] == 'relabel':
            cur['L'] = [[s, list(at)] for s, at in e[1]]
        elif e[0] == 'fair':
            name = fair_name(cur['L'])
            results['s%d:edit' % i] = ['ok', name]
            if i not in fair:                    # the implementation failed there: nothing to predict from
                break
            have = {s for s, _ in cur['L']}
            cur['L'] = [[s, list(at) + ([name] if s in fair[i] else [])] for s, at in cur['L']] \
                + [[s, [name]] for s in fair[i] if s not in have]
        steps.append(json.loads(json.dumps(cur)))
    return steps, results


def session_ops(case, i, Ksx, states=None):
    ks = sx_str(Ksx)
    cmds = [('s%d:clone' % i, '(kclone %s)' % ks)]
    for V in case['session']['Vs']:
        cmds.append(('s%d:sub:%s' % (i, ','.join(map(str, V))), '(substr %s %s)' % (ks, sx_str(V))))
    if i > 0 and states is not None:
        for s in session_queries(states):
            cmds.append(('s%d:labels:%d' % (i, s), '(labels %s %d)' % (ks, s)))
            cmds.append(('s%d:next:%d' % (i, s), '(knext %s %d)' % (ks, s)))
    return cmds


def m_answer(key, o):
    if key[0] == 's' and key[1].isdigit():
        key = key.split(':', 1)[1]
    if key == 'clone' or key.startswith('sub:'):
        return m_kripke(o)
    if o[0] != 'ok':
        return ['err', str(o[1])]
    if key.startswith('labels:'):
        return ['ok', sorted(str(a) for a in o[1])]
    return ['ok', sorted(ints(o[1]))]


# ----------------------------------------------------------------------------------------
# one chunk of cases through both sides
# ----------------------------------------------------------------------------------------
def process(R, cases, st, verbose=False):
    impl = [run_impl(c) for c in cases]
    r1, n1 = model_many([model_ctor_cmd(c) for c in cases])
    st['model_cmds'] += n1
    plan = []
    for c, o in zip(cases, r1):
        plan.append(model_ops(c, o[1]) if o[0] == 'ok' else [])
    # sessions: the model's constructor on the edited arguments, then the operations on ITS result
    sess = {}
    for idx, (c, (_o, _a, fair), o) in enumerate(zip(cases, impl, r1)):
        if c.get('session') and o[0] == 'ok':
            steps, results = session_steps(c, mk_obs(o[1]), fair)
            sess[idx] = (steps, results, [model_ctor_cmd(a) for a in steps])
    r1b, n1b = model_many([s for idx in sorted(sess) for s in sess[idx][2]])
    st['model_cmds'] += n1b
    pos = 0
    for idx in sorted(sess):
        for i in range(len(sess[idx][0])):
            if r1b[pos][0] == 'ok':
                plan[idx] = plan[idx] + session_ops(cases[idx], i, r1b[pos][1], session_states(cases[idx])[i])
            pos += 1
    flat = [s for p in plan for _, s in p]
    r2, n2 = model_many(flat)
    st['model_cmds'] += n2
    pos = 0
    for idx, (c, (out, alias, _), o, p) in enumerate(zip(cases, impl, r1, plan)):
        R.evaluations += 1
        model = {'ctor': m_kripke(o)}
        if idx in sess:
            model.update(sess[idx][1])
        for key, _s in p:
            model[key] = m_answer(key, r2[pos])
            pos += 1
        for key in out:                          # a copy read late is the copy of the moment it was taken
            if 'late:' in key and key.replace('late:', '', 1) in model:
                model[key] = model[key.replace('late:', '', 1)]
        if verbose:
            print('case :', json.dumps(c))
            for k in sorted(set(out) | set(model)):
                print('  %-14s impl : %s' % (k, json.dumps(out.get(k))))
                print('  %-14s model: %s' % ('', json.dumps(model.get(k))))
            print('  aliasing findings:', alias)
        differs = [k for k in sorted(set(out) | set(model)) if out.get(k) != model.get(k)]
        invbad = []
        for k, v in out.items():
            if (k == 'ctor' or k.endswith('clone') or 'sub:' in k) and v[0] == 'ok':
                invbad += [[k, b] for b in invariants(v[1])]
        kind = 'ren%d' % c['ren']
        st['ctor'][model['ctor'][0] if model['ctor'][0] == 'ok' else model['ctor'][1]] += 1
        st['ren'][kind] = st['ren'].get(kind, 0) + 1
        nst = len(case_states(c))
        st['n_states'][nst] = st['n_states'].get(nst, 0) + 1
        if model['ctor'][0] == 'ok' and model['ctor'][1]['labels']:
            for hk, hv in (('vocab', VOCAB_DESC[c.get('vocab', 0)]), ('Lk', L_KINDS[c.get('Lk', 0)])):
                st[hk][hv] = st[hk].get(hv, 0) + 1
        if differs or alias or invbad:
            what = []
            if differs:
                what.append('implementation differs from the proved model at ' + ','.join(differs[:6]))
            if invbad:
                what.append('structure invariant broken: ' + '; '.join('%s: %s' % (k, b) for k, b in invbad[:3]))
            if alias:
                what.append('aliasing: ' + '; '.join('%s: %s' % (k, b) for k, b in alias[:3]))
            st['violations'] += 1
            if st['violations'] <= MAX_REPORT:
                R.violation('Kripke %s' % ' | '.join(what),
                            {'case': c, 'differs': differs, 'invariants': invbad, 'aliasing': alias,
                             'impl': {k: out.get(k) for k in differs[:12]},
                             'model': {k: model.get(k) for k in differs[:12]}})
            continue
        if model['ctor'][0] != 'ok':
            continue
        for k, v in out.items():
            if 'late:' in k:
                hk = ('session ' if k[0] == 's' and k[1].isdigit() else 'plain ') + ('clone' if k.endswith('clone') else 'substructure') \
                    + (' (RuntimeError)' if v[0] != 'ok' else '')
                st['late'][hk] = st['late'].get(hk, 0) + 1
            elif k[0] == 's' and k[1].isdigit() and (':labels:' in k or ':next:' in k):
                hk = k.split(':')[1] + (' of a state' if v[0] == 'ok' else ' of a non-state: ' + str(v[1]))
                st['session_queries'][hk] = st['session_queries'].get(hk, 0) + 1
        if idx in sess:
            st['sessions'] += 1
            for i, e in enumerate(c['session']['edits'], 1):
                st['session_edits'][e[0]] = st['session_edits'].get(e[0], 0) + 1
                R.nontriv(('session', c['S'], c['S0'], c['R'], c['L'], c['ren'], json.dumps(c['session']['edits'][:i])))
        states = set(model['ctor'][1]['states'])
        for V in c['Vs']:
            key = 'sub:' + ','.join(map(str, V))
            st['sub'][model[key][0] if model[key][0] == 'ok' else model[key][1]] += 1
            inter = set(V) & states
            if len(states) >= 2 and inter and inter != states:
                R.nontriv((c['S'], c['S0'], c['R'], c['L'], c['ren'], tuple(V)))
                st['nontriv_sub'][model[key][0]] = st['nontriv_sub'].get(model[key][0], 0) + 1
                if model[key][0] == 'ok' and len(states) >= 3 and model['ctor'][1]['labels'] and (idx % 97 == 0):
                    R.sample({'S': c['S'], 'S0': c['S0'], 'R': c['R'], 'L': c['L'], 'states_as': kind, 'V': V,
                              'substructure': model[key][1]})
        if idx % 5 == 0:
            try:
                st['ctor_alias'][str(ctor_alias_probe(c))] += 1
            except Exception as e:  # informational only
                st['ctor_alias']['probe failed'] = st['ctor_alias'].get('probe failed', 0) + 1


# ----------------------------------------------------------------------------------------
# malformed argument stream (implementation-only, informational except for the invariants)
# ----------------------------------------------------------------------------------------
def malformed(R, st):
    from pyModelChecking.kripke import Kripke
    tot = [(0, 1), (1, 0)]
    items = [
        ('L is a list of pairs', lambda: Kripke([0, 1], [0], tot, [(0, ['p'])])),
        ('L is a tuple', lambda: Kripke([0, 1], [0], tot, ())),
        ('L is a string', lambda: Kripke([0, 1], [0], tot, 'p')),
        ('L is a set', lambda: Kripke([0, 1], [0], tot, {0})),
        ('L is an int', lambda: Kripke([0, 1], [0], tot, 3)),
        ('label value int', lambda: Kripke([0, 1], [0], tot, {0: 5})),
        ('label value None', lambda: Kripke([0, 1], [0], tot, {1: None})),
        ('label value float', lambda: Kripke([0, 1], [0], tot, {0: ['p'], 1: 2.5})),
        ('label value int for a non-state', lambda: Kripke([0, 1], [0], tot, {7: 5, 0: ['p']})),
        ('triples in R', lambda: Kripke([0, 1], [0], [(0, 1, 0), (1, 0, 1)], {})),
        ('a triple among pairs', lambda: Kripke([0, 1], [0], tot + [(0, 0, 0)], {})),
        ('an int in R', lambda: Kripke([0, 1], [0], tot + [3], {})),
        ('R is an int', lambda: Kripke([0, 1], [0], 5, {})),
        ('singleton edges', lambda: Kripke([0], [0], [(0,)], {})),
        ('unhashable state in S', lambda: Kripke([[0]], [], [], {})),
        ('unhashable state in R', lambda: Kripke([], [], [([0], [0])], {})),
        ('S0 is an int', lambda: Kripke([0, 1], 0, tot, {})),
        ('S is an int', lambda: Kripke(3, [], tot, {})),
        ('L not a dict and R not total', lambda: Kripke([0, 1], [0], [(0, 1)], [(0, ['p'])])),
        ('triples and not total', lambda: Kripke([0, 1, 2], [0], [(0, 1, 0)], {})),
        ('L is a UserDict', lambda: Kripke([0, 1], [0], tot, collections.UserDict({0: ['p']}))),
        ('L is a mappingproxy', lambda: Kripke([0, 1], [0], tot, __import__('types').MappingProxyType({0: ['p']}))),
    ]
    # containers for V that `V & set(...)` does not accept: recorded only
    vitems = [
        ('get_substructure: V is a list', lambda: Kripke([0, 1], [0], tot, {0: ['p']}).get_substructure([0, 1])),
        ('get_substructure: V is a tuple', lambda: Kripke([0, 1], [0], tot, {0: ['p']}).get_substructure((0, 1))),
        ('get_substructure: V is a generator', lambda: Kripke([0, 1], [0], tot, {0: ['p']}).get_substructure(iter([0, 1]))),
        ('get_substructure: V is a dict', lambda: Kripke([0, 1], [0], tot, {0: ['p']}).get_substructure({0: 1, 1: 1})),
    ]
    hist = {}
    for name, fn in items:
        R.evaluations += 1
        r = call(fn)
        if r[0] == 'ok':
            o = obs_of(r, lambda s: s)
            hist[name] = 'constructed'
            bad = invariants(o[1]) if o[0] == 'ok' else ['result cannot be observed: %s' % o[1]]
            if bad:
                R.violation('Kripke constructor accepted malformed arguments and returned a structure that is ' + '; '.join(bad),
                            {'malformed': name, 'observed': o})
        else:
            hist[name] = r[1]
    # the one thing the property itself says about this stream: a non-total relation is a RuntimeError
    for name in ('L not a dict and R not total',):
        if hist[name] != 'RuntimeError':
            R.violation('non-total relation not rejected with RuntimeError (%s)' % name, {'malformed': name, 'observed': hist[name]})
    for name, fn in vitems:
        R.evaluations += 1
        r = call(fn)
        if r[0] == 'ok':
            o = obs_of(r, lambda s: s)
            hist[name] = 'returned a structure'
            bad = invariants(o[1]) if o[0] == 'ok' else ['result cannot be observed: %s' % o[1]]
            if bad:
                R.violation('get_substructure accepted a malformed V and returned a structure that is ' + '; '.join(bad),
                            {'malformed': name, 'observed': o})
        else:
            hist[name] = r[1]
    st['malformed'] = hist


# ----------------------------------------------------------------------------------------
def new_stats():
    return {'ctor': {'ok': 0, 'RuntimeError': 0}, 'sub': {'ok': 0, 'RuntimeError': 0}, 'nontriv_sub': {}, 'ren': {},
            'n_states': {}, 'violations': 0, 'model_cmds': 0, 'ctor_alias': {'True': 0, 'False': 0},
            'vocab': {}, 'Lk': {}, 'sessions': 0, 'session_edits': {}, 'late': {}, 'session_queries': {}}


class Collector:
    """what process() needs of a Run, inside a worker process"""
    def __init__(self):
        self.evaluations = 0
        self.nontrivial = set()
        self.samples = []
        self.violations = []

    nontriv = Run.nontriv
    sample = Run.sample

    def violation(self, what, data, no_input=False):
        self.violations.append((what, data))


def work(cases):
    C = Collector()
    st = new_stats()
    process(C, cases, st)
    return C.evaluations, C.nontrivial, C.samples, C.violations, st


def merge_stats(a, b):
    for k, v in b.items():
        if isinstance(v, dict):
            merge_stats(a.setdefault(k, {}), v)
        else:
            a[k] = a.get(k, 0) + v


def process_parallel(R, cases, st, jobs=14, chunk=1500):
    """process() over chunks in worker processes; merged in chunk order (deterministic)"""
    if len(cases) < 600:
        return process(R, cases, st)
    import multiprocessing
    chunks = [cases[i:i + chunk] for i in range(0, len(cases), chunk)]
    with multiprocessing.get_context('fork').Pool(jobs) as pool:
        for ev, nt, samples, viols, st2 in pool.imap(work, chunks):
            R.evaluations += ev
            R.nontrivial |= nt
            for x in samples:
                R.sample(x)
            before = st['violations']
            merge_stats(st, st2)
            for i, (what, data) in enumerate(viols):
                if before + i < MAX_REPORT:
                    R.violation(what, data)


def with_renamings(cases, rng, every):
    """a renamed twin (string / tuple / mixed states) for every `every`-th case"""
    out = []
    for i, c in enumerate(cases):
        out.append(c)
        if i % every == 0:
            d = json.loads(json.dumps(c))
            d['ren'] = 1 + rng.randrange(4)       # strings / tuples / mixed / identity-hashed objects
            out.append(d)
    return out


def gen_cases(R):
    rng = R.rng
    parts = {}
    # 1. every argument combination with at most 2 states
    small = []
    for n in (0, 1, 2):
        small += [finish_case(c, rng, session=0.04) for c in space(n)]
    parts['all <=2 states'] = small
    # 2. three states: every (S, R); (S0, L) combinations dealt round-robin from a shuffled deck
    U3 = [0, 1, 2, 3]
    deck = [(S0, [[k, list(a)] for k, a in zip(U3, labs) if a is not None])
            for S0 in subsets(U3) for labs in itertools.product(LABSETS, repeat=4)]
    rng.shuffle(deck)
    three = []
    di = 0
    if R.thorough:
        s0s = subsets(U3)
        for S, Rl in sr_space(3):
            for S0 in s0s:
                for _ in range(5):
                    L = deck[di % len(deck)][1]
                    di += 1
                    three.append(finish_case({'S': list(S), 'S0': list(S0), 'R': [list(e) for e in Rl],
                                              'L': json.loads(json.dumps(L)), 'ren': 0}, rng, session=0.15))
    else:
        for S, Rl in sr_space(3):
            for _ in range(3):
                S0, L = deck[di % len(deck)]
                di += 1
                three.append(finish_case({'S': list(S), 'S0': list(S0), 'R': [list(e) for e in Rl],
                                          'L': json.loads(json.dumps(L)), 'ren': 0}, rng, session=0.15))
    parts['3 states'] = three
    # 3. four states (thorough: sampled systematically over S x R masks), random up to 5 (6 in thorough)
    four = []
    if R.thorough:
        pairs = [(a, b) for a in range(4) for b in range(4)]
        for mask in range(0, 1 << 16, 3):
            Rl = [list(pairs[k]) for k in range(16) if (mask >> k) & 1]
            S = [s for s in range(4) if rng.random() < 0.5]
            S0 = [s for s in range(5) if rng.random() < 0.4]
            L = [[s, list(rng.choice(LABSETS[1:]))] for s in range(5) if rng.random() < 0.7]
            four.append(finish_case({'S': S, 'S0': S0, 'R': Rl, 'L': L, 'ren': 0}, rng, nV=16, session=0.3))
        parts['4 states sampled'] = four
    rnd = []
    for _ in range(20000 if R.thorough else 1500):
        n = rng.randint(2, 6 if R.thorough else 5)
        rnd.append(finish_case(rand_case(rng, n), rng, nV=16, session=0.7))
    parts['random'] = rnd
    return parts


def run(R):
    R.rule = ('constructor arguments (S, S0, R, L): EVERY combination over <= 2 states (S subset of U, S0 subset of U+foreign, R subset of UxU, '
              'L: U+foreign -> {absent, {}, {p}, {q}, {p,q}}); 3 states: every (S, R) [4096] x '
              + ('every S0 [16] x 5 labellings taken in turn from a shuffled deck of the 625 labellings' if R.thorough else
                 '3 (S0, L) combinations dealt round-robin from a shuffled deck of all 16x625')
              + (', every 3rd 4-state relation (of 65536) with random S, S0, L' if R.thorough else '')
              + ', random <= %d states (65%% repaired to total); ' % (6 if R.thorough else 5)
              + 'argument containers vary (None for empty, list/tuple/set/frozenset/iterator, duplicates, edges as lists, label values as '
              'list/tuple/set/str/dict keys); a renamed twin with str/tuple/mixed/identity-hashed states for every 6th case; the atoms p, q are '
              'renamed (60%% of the cases) by one of %d injective vocabularies (multi-character names, a name spelt with the other name\'s '
              'characters, 1 next to "1", tuple/int and str/int (unorderable), a frozenset atom, identity-hashed objects, empty name / name with a '
              'blank) and labels are compared as VALUES through the vocabulary; L is a dict, OrderedDict, defaultdict(set) or a dict subclass; '
              'for every constructed K: clone(), get_substructure(V) for every V subset of states+one foreign state (16 sampled V for > 3 states) with V '
              'given in turn as set / frozenset / dict keys view / states() of another Kripke / collections.abc.Set / set subclass (what the library\'s '
              '`V & set` accepts; list/tuple/generator are TypeErrors there and only recorded), labels(s)/next(s) for every state and two '
              'non-states, identity + mutation aliasing monitors in both directions; EDIT SESSIONS on a share of the total cases (4%% / 15%% / 70%% of the '
              '<=2-state / 3-state / random stream): 1-3 edits through the public API that keep the structure total and fully labelled (add_edge between '
              'existing states, replace_labelling_function with a dict of sets incl. a non-state key, label_fair_states(F), K = K.clone()), and clone() + '
              'get_substructure(all states / 2 random V) BEFORE the first and AFTER every edit, compared with the model\'s operations on the model\'s '
              'constructor applied to the edited arguments (the fair states are taken from the implementation\'s get_fair_states, the label name from the '
              'documented fair, fair0, ... scheme); all compared with the model as sets; non-trivial = K constructed '
              'SECOND AUDIT additions - sessions now have 2-4 edits drawn from: edge, relabel, fair, clone (as before), GROW (add_node(v) / add_edge with 1-2 '
              'new states 50, 51 as source, target or self-loop, repaired to total by further add_edge; after EVERY single call labels(s) of every '
              'state is compared with the edited arguments: new states have the empty set), HANDLE edits: labels(s).add/.discard or '
              'labelling_function()[s].add/.discard, labelling_function()[s] = set (s a state or the foreign non-state), S0.add/.discard of states, '
              'S0 = set of states - clone()/get_substructure follow every such edit; after every edit labels(s)/next(s) of every state, of the '
              'foreign key and of the not-yet-added states vs the model (RuntimeError for non-states); UNREAD COPIES: in every constructed case '
              'clone() + get_substructure(all states) + one more V are taken, not touched while the original is mutated through every handle and '
              'add_edge, and observed only then (late:...), and in sessions one clone + one substructure per step is first read after the NEXT edit '
              '(s<i>:late:...; after a final handle mutation for the last step): both must equal the model\'s copy at the moment of taking; '
              'with >= 2 states and a substructure query whose V meets the states in a proper non-empty subset, distinct by (arguments, renaming, V); '
              'or an edit-session prefix, distinct by (arguments, renaming, edits)' % (len(VOCABS) - 1))
    st = new_stats()
    parts = gen_cases(R)
    sizes = {}
    for name, cs in parts.items():
        cs = with_renamings(cs, R.rng, 6)
        sizes[name] = len(cs)
        process_parallel(R, cs, st)
    malformed(R, st)
    # structures grown step by step with add_node / add_edge, nothing labelled by the caller, against the extracted kapply / label_entry
    # (Model/KripkeOps.v) and the three checkers after every step: the regression stream of fix 8bf41ed
    import c14_grown
    c14_grown.grown_structures(R)
    R.cov['distribution'] = {
        'cases_per_generator': sizes,
        'constructor_outcome': st['ctor'],
        'get_substructure_outcome': st['sub'],
        'nontrivial_substructure_queries_by_outcome': st['nontriv_sub'],
        'states_hist': {str(k): v for k, v in sorted(st['n_states'].items())},
        'state_value_kinds': st['ren'],
        'distinct_model_commands': st['model_cmds'],
    }
    R.cov['distribution']['atom_vocabulary (constructed, labelled structures)'] = st['vocab']
    R.cov['distribution']['L_container (constructed, labelled structures)'] = st['Lk']
    R.cov['distribution']['V_container_kinds (cycled over the queries of each structure)'] = sorted(set(V_KINDS))
    R.cov['distribution']['edit_sessions'] = st['sessions']
    R.cov['distribution']['session_edits_by_kind'] = st['session_edits']
    R.cov['distribution']['late_read_copies (taken, left unread while the original is edited, then compared)'] = st['late']
    R.cov['distribution']['session_queries_after_edits (labels/next of states and non-states)'] = st['session_queries']
    R.cov['malformed_arguments_outcome (informational)'] = st['malformed']
    R.cov['constructor_keeps_reference_to_callers_containers (informational)'] = st['ctor_alias']
    R.cov['exhaustive_subspace'] = 'all argument combinations over <= 2 states (64410 cases) x all V; 3-state space sampled over (S0, L) only'
    if st['violations'] > MAX_REPORT:
        R.cov['violations_not_written'] = st['violations'] - MAX_REPORT
    R.exhaustive = False


def replay(R, data):
    d = data['data']
    if d.get('stream') == 'grown structures':
        import c14_grown
        return c14_grown.replay_grown(R, d)
    if 'malformed' in d:
        st = new_stats()
        malformed(R, st)
        print('malformed stream outcome:', json.dumps(st['malformed'], indent=1))
        return
    c = d['case']
    c['R'] = None if c['R'] is None else [list(e) for e in c['R']]
    st = new_stats()
    process(R, [c], st, verbose=True)
