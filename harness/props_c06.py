"""C06 - answers are independent of presentation order, naming and hash seed.
Theorems (Properties/C06.v): C06_presentation, C06_rename_states, C06_rename_atoms, C06_unreachable (corollaries of
exactness: the characterisation `s in result <-> K,s |= f` mentions no order) and C06_scc_order / C06_reach_order.

Correspondence: each sampled (K, f_CTL, f_LTL, f_CTL*) is presented to the real library in many ways -
(a) permuted S / R / L argument orders (and S omitted), (b) states renamed by random bijections to other ints
(negative, hash-colliding), strings and tuples, (c) atomic propositions renamed consistently in K and f,
(d) extra states that are unreachable from the old ones (with and without edges from the new states into the old),
(e) FRESH INTERPRETERS under different PYTHONHASHSEEDs with string / tuple states, multi-character atoms and the
collections handed over as Python sets, (f) states renamed to DISTINCT values that print alike (1 and '1', (1,) and '(1,)'),
(g) states renamed to plain objects hashed by identity (every answer must be made of the caller's own objects), (h) atoms
renamed to the bracketed names that the CTL* checker generates for its fresh labels (only atoms that label a state of K;
the case of a bracketed formula atom that labels no state is the known finding KF-C03-a of C03).  A state is never named
None: Kripke.labels(state=None) documents None as "no state given".  All variants must give the same answer up to the correspondence (checked on the
implementation alone), and every variant is also compared with the proved model run on exactly that presentation
(the iteration orders are read back from the live object; states go through a numbering).  compute_SCCs and
get_reachable_set_from are compared in the same way as sets of sets."""
from common import *
import re
from mccheck import *
import c06_worker as W
from props_c04 import pmap_chunks, n_jobs, tcount
LEVEL = 'proof'

WORKER = os.path.join(os.path.dirname(os.path.abspath(__file__)), 'c06_worker.py')
NAME_HEADS = 'bcdhijklmpqsvwyzBCDHJKLMNPQSVWYZ'      # no reserved word of the grammars starts like this... (objects only anyway)
NAME_TAIL = 'abcdefghijklmnopqrstuvwxyz0123456789_'
M61 = (1 << 61) - 1


# ----------------------------------------------------------------------------------------
# presentations
# ----------------------------------------------------------------------------------------
def fresh_names(rng, k, avoid=()):
    out = []
    while len(out) < k:
        nm = rng.choice(NAME_HEADS) + ''.join(rng.choice(NAME_TAIL) for _ in range(rng.randint(1, 7)))
        if nm not in out and nm not in avoid:
            out.append(nm)
    return out


GLUE = ['EX', 'AX', 'EF', 'AF', 'EG', 'AG', 'X', 'F', 'G', 'A', 'E', 'not', 'Not', 'EU', 'AR']


def glued_names(rng, k):
    """atom names that are an operator spelling glued to ANOTHER atom name of the same renaming (EXIT next to IT, Ap next
    to p, notq next to q): legal identifiers; an answer may not depend on such a choice of names (a printer that drops a
    blank, or a lexer that splits them, would make it)"""
    base = rng.choice(['IT', 'p', 'q0', 'it', 'x_1'])
    out = [base]
    while len(out) < k:
        b = rng.choice(out)
        nm = rng.choice([rng.choice(GLUE) + b, b + 'U' + base, b + 'orb', b + 'R' + base, 'A' + b + 'U' + base])
        if nm not in out:
            out.append(nm)
    rng.shuffle(out)
    return out


def rename_formula(f, sigma):
    if f[0] == 'ap':
        return ('ap', sigma[f[1]])
    if f[0] in ('true', 'false'):
        return f
    return (f[0],) + tuple(rename_formula(g, sigma) for g in f[1:])


def state_names(rng, n, kind):
    """n distinct state names of the given kind"""
    if kind == 'int':
        pool = list(range(-4, 40)) + [8 * i for i in range(5, 20)] + [M61 + i for i in range(0, 6)] + [-(1 << 40), 1 << 70]
        return rng.sample(pool, n)            # includes -1/-2 and j / 2^61-1+j: distinct ints with equal hashes
    if kind == 'str':
        style = rng.randint(0, 2)
        if style == 0:
            return ['s%d' % i for i in rng.sample(range(100), n)]
        return fresh_names(rng, n)
    if kind == 'tuple':
        style = rng.randint(0, 2)
        names = fresh_names(rng, n)
        if style == 0:
            return [(nm, i) for i, nm in enumerate(names)]
        if style == 1:
            return [(nm[0], nm) for nm in names]
        return [((nm,), rng.randint(0, 3), nm[::-1]) for nm in names]
    if kind == 'mixed':
        # state names of DIFFERENT, mutually unorderable types in one structure (ints next to strings next to tuples with fields of
        # different types): nothing in a model checker may need to order its states
        out = []
        for i in range(n):
            k = (i + rng.randint(0, 2)) % 4
            out.append([i - 2, 's%d' % i, ('t', i), (i, None if i % 2 else 'x')][k])
        if len(set(map(repr, out))) == len(out) and len(set(out)) == len(out):
            return out
        return [i if i % 2 else 's%d' % i for i in range(n)]
    if kind == 'strclash':
        # DISTINCT hashables with the SAME printed form in one structure: 1 next to '1', (1,) next to '(1,)', 's3' next to "'s3'"
        # (str of the one = repr of the other), chains 1 / '1' / "'1'": a state is its value, never its str() / repr()
        mk = [lambda i: i, lambda i: -i - 1, lambda i: (i,), lambda i: ('a', i), lambda i: 's%d' % i, lambda i: M61 + i,
              lambda i: (i, ('b', None)), lambda i: 'q%d' % i, lambda i: ()]
        out, i = [], 0
        while len(out) < n:
            v = rng.choice(mk)(i)
            i += 1
            if v in out:
                continue
            chain = [v]
            for _ in range(2 if rng.random() < 0.2 else 1):
                chain.append(repr(chain[-1]))        # for ints and tuples repr == str; for a str s, repr(s) prints like s quoted
            out += chain
        out = out[:n]
        rng.shuffle(out)
        assert len(set(out)) == n
        return out
    if kind == 'obj':
        # plain objects hashed / compared by identity (no value, not orderable; with style 'same' all print alike), alone, inside
        # tuples and next to ordinary states: an answer must consist of the caller's own state objects
        style = rng.choice(['id', 'same', 'mixed', 'mixed'])
        out = []
        for i in range(n):
            st = style if style != 'mixed' else rng.choice(['id', 'same', 'in-tuple', 'plain'])
            o = W.ObjName('o%d' % i, 'same' if st == 'same' else 'id')
            out.append(('w', o) if st == 'in-tuple' else (i if i % 2 else 's%d' % i) if st == 'plain' else o)
        return out
    raise ValueError(kind)


def bracketed_sigma(rng, kd, aps, queries):
    """atom renaming to BRACKETED names: one atom b that labels a state of K gets the very name the CTL* checker would pick as the
    fresh label of a quantified subformula g of the query ('[' + str(g) + ']', printed by the library after the renaming of the other
    atoms; for E g also the name of its dual A(not g)); a further labelling atom may get the checker's second choice
    '[[...](0)]'.  Only atoms that label some state of K are renamed like this (a bracketed FORMULA atom that labels no state
    is the known finding KF-C03-a, not looked for here).  -> (sigma, kind) or None"""
    L = lang_module('CTLS')
    labelled = [a for a in aps if any(a in labs for labs in kd['L'].values())]
    if not labelled:
        return None
    fs = [f for lg, f in queries if lg == 'CTLS'][0]
    quants = [g for g in subformulas(fs) if g[0] in ('A', 'E')]
    pairs = [(b, g) for g in quants for b in labelled if b not in fatoms(g)]
    sigma = {}
    fresh = fresh_names(rng, len(aps), avoid=aps)
    keep = rng.random() < 0.5
    if pairs:
        b, g = rng.choice(pairs)
        kind = 'name-of-a-quantified-subformula'
    else:
        b, g = rng.choice(labelled), (rng.choice(quants) if quants else ('A', ('X', ('ap', aps[0]))))
        kind = 'bracketed-but-unrelated'
    for a, nm in zip(aps, fresh):
        if a != b:
            sigma[a] = a if keep else nm
    tmp = dict(sigma)
    tmp[b] = fresh[aps.index(b)]               # only used when g mentions b itself (then the name is no fresh name of the run)
    g2 = rename_formula(g, tmp)
    if g2[0] == 'E' and rng.random() < 0.4:
        g2 = ('A', ('not', g2[1]))
        kind += '-dual'
    sigma[b] = '[%s]' % str(to_py(g2, L))
    others = [c for c in labelled if c != b and c not in fatoms(g)]
    if others and rng.random() < 0.5:
        sigma[rng.choice(others)] = '[%s(0)]' % sigma[b]
        kind += '+second-choice'
    if len(set(sigma.values())) != len(aps):
        return None
    return sigma, kind


def presentation(kd, rng, names=None, permute=False, omit_S=False, containers='list', sigma=None, extra=None, sparse_L=False):
    """kd: base structure over states 0..n-1.  names: bijection base state -> new name; permute: shuffle all argument orders;
    sigma: atom renaming; extra: (new_states, new_edges, new_labels) appended (new states numbered n, n+1, ...)"""
    S = list(kd['S'])
    Rl = [tuple(e) for e in kd['R']]
    L = [(s, list(kd['L'].get(s, []))) for s in S]
    S0 = list(kd['S0'])
    if extra is not None:
        S = S + list(extra[0])
        Rl = Rl + [tuple(e) for e in extra[1]]
        L = L + [(s, list(extra[2].get(s, []))) for s in extra[0]]
    if names is None:
        names = {s: s for s in S}
    if sigma is not None:
        L = [(s, [sigma[a] for a in labs]) for s, labs in L]
    if permute:
        rng.shuffle(S)
        rng.shuffle(Rl)
        rng.shuffle(L)
        L = [(s, rng.sample(labs, len(labs))) for s, labs in L]
        if rng.random() < 0.3:
            L = [(s, labs) for s, labs in L if labs]      # unlabelled states may be left out of L altogether
    if sparse_L:
        L = [(s, labs) for s, labs in L if labs]
    e = W.enc
    return {'S': None if omit_S else [e(names[s]) for s in S], 'S0': [e(names[s]) for s in S0],
            'R': [[e(names[a]), e(names[b])] for a, b in Rl], 'L': [[e(names[s]), labs] for s, labs in L],
            'back': [[e(names[s]), s] for s in sorted(names)], 'containers': containers}


def unreachable_extension(kd, rng, aps, into_old):
    """a total extra component on new states n.. ; edges from new states into old ones only if into_old; never old -> new"""
    n = len(kd['S'])
    k = rng.randint(1, 3)
    new = list(range(n, n + k))
    edges = []
    for s in new:
        targets = list(new) + (list(kd['S']) if into_old else [])
        ds = rng.sample(targets, rng.randint(1, min(3, len(targets))))
        edges += [(s, d) for d in ds]
    if into_old and not any(d < n for _, d in edges):
        edges.append((new[0], rng.choice(kd['S'])))
    labels = {s: [a for a in aps if rng.random() < 0.5] for s in new}
    return (new, edges, labels)


# ----------------------------------------------------------------------------------------
# cases
# ----------------------------------------------------------------------------------------
def gen_formulas(rng, aps):
    fc = rand_ctl(rng, rng.randint(1, 3), aps)
    while not has_temporal(fc):
        fc = rand_ctl(rng, rng.randint(1, 3), aps)
    if rng.random() < 0.12:         # a heavier tableau: 4 temporal operators (more X-formulas to split the atoms on)
        g = rand_path(rng, 3, aps)
        while tcount(g) != 4:
            g = rand_path(rng, 3, aps)
    else:
        g = rand_path(rng, 2, aps)
        while not has_temporal(g) or tcount(g) > 3:
            g = rand_path(rng, 2, aps)
    fs = rand_ctls_state(rng, rng.randint(1, 3), aps)
    while not has_temporal(fs) or tcount(fs) > 4:
        fs = rand_ctls_state(rng, rng.randint(1, 3), aps)
    return [('CTL', fc), ('LTL', ('A', g)), ('CTLS', fs)]


def gen_base(R, count):
    rng = R.rng
    small = list(all_kripkes(2))
    out = []
    for i in range(count):
        aps = ('p', 'q') if rng.random() < 0.6 else ('p', 'q', 'r')
        if i % 5 == 0 and aps == ('p', 'q'):
            kd = dict(rng.choice(small))
            kd['S0'] = [s for s in kd['S'] if rng.random() < 0.4]
        else:
            kd = rand_kripke(rng, rng.randint(2, 6), aps)
        out.append((kd, aps, gen_formulas(rng, aps)))
    return out


def variants_inprocess(kd, aps, queries, rng, index=0):
    """-> list of (tag, presentation, queries, restrict) ; index 0 is the base presentation"""
    n = len(kd['S'])
    vs = [('base', presentation(kd, rng), queries, None)]
    vs.append(('perm', presentation(kd, rng, permute=True), queries, None))
    vs.append(('perm', presentation(kd, rng, permute=True), queries, None))
    vs.append(('perm-S-omitted', presentation(kd, rng, permute=True, omit_S=True), queries, None))
    vs.append(('perm-as-sets', presentation(kd, rng, permute=True, containers='set'), queries, None))
    for kind in ('int', 'str', 'tuple', 'mixed'):
        nm = dict(zip(kd['S'], state_names(rng, n, kind)))
        vs.append(('rename-' + kind, presentation(kd, rng, names=nm, permute=rng.random() < 0.5,
                                                  containers='set' if rng.random() < 0.3 else 'list'), queries, None))
    sigma = dict(zip(aps, fresh_names(rng, len(aps), avoid=aps)))
    vs.append(('rename-atoms', presentation(kd, rng, sigma=sigma, permute=rng.random() < 0.5),
               [(lg, rename_formula(f, sigma)) for lg, f in queries], None))
    sigma = dict(zip(aps, glued_names(rng, len(aps))))
    # formula-directed: one atom gets the name a QUANTIFIED SUBFORMULA OVER ANOTHER ATOM would have if printed without blanks
    # (EX p  ~  atom 'EXp' when p keeps its name): the most likely confusion of a printed-form memo / lexer
    cands = [(g[0] + g[1][0], g[1][1][1]) for lg, f in queries for g in subformulas(f)
             if g[0] in ('A', 'E') and len(g) == 2 and g[1][0] in ('X', 'F', 'G') and g[1][1][0] == 'ap']
    if cands and len(aps) >= 2:
        pre, a = rng.choice(cands)
        b = rng.choice([x for x in aps if x != a])
        base = rng.choice(['IT', 'p', 'q0'])
        sigma = {x: 'z%d' % i for i, x in enumerate(aps)}
        sigma[a] = base
        sigma[b] = pre + base
    vs.append(('rename-atoms-glued', presentation(kd, rng, sigma=sigma, permute=rng.random() < 0.5),
               [(lg, rename_formula(f, sigma)) for lg, f in queries], None))
    for into_old in (False, True):
        ex = unreachable_extension(kd, rng, aps, into_old)
        nm = {s: s for s in list(kd['S']) + ex[0]}
        vs.append(('unreachable-added' + ('-with-edges-into-old' if into_old else ''),
                   presentation(kd, rng, names=nm, extra=ex, permute=rng.random() < 0.5), queries, list(kd['S'])))
    # appended last (the evidence sample reads variant 5): states whose printed forms coincide, plain-object states, bracketed atoms
    nm = dict(zip(kd['S'], state_names(rng, n, 'strclash')))
    vs.append(('rename-strclash', presentation(kd, rng, names=nm, permute=rng.random() < 0.5, sparse_L=rng.random() < 0.75,
                                               containers='set' if rng.random() < 0.2 else 'list'), queries, None))
    if index % 2 == 0:                         # every second case (time budget of the quick tier; any copy of a state shows at once)
        nm = dict(zip(kd['S'], state_names(rng, n, 'obj')))
        vs.append(('rename-obj', presentation(kd, rng, names=nm, permute=rng.random() < 0.5, sparse_L=rng.random() < 0.3,
                                              containers='set' if rng.random() < 0.3 else 'list'), queries, None))
    bs = bracketed_sigma(rng, kd, aps, queries)
    if bs is not None:
        vs.append(('rename-atoms-bracketed:' + bs[1], presentation(kd, rng, sigma=bs[0], permute=rng.random() < 0.5),
                   [(lg, rename_formula(f, bs[0])) for lg, f in queries], None))
    return vs


def variants_hashseed(kd, aps, queries, rng):
    """presentations for the fresh interpreters: str / tuple / int state names, multi-character atoms, set containers"""
    n = len(kd['S'])
    sigma = dict(zip(aps, fresh_names(rng, len(aps), avoid=aps)))
    qs = [(lg, rename_formula(f, sigma)) for lg, f in queries]
    vs = []
    for kind in ('str', 'tuple', 'int', 'mixed'):
        nm = dict(zip(kd['S'], state_names(rng, n, kind)))
        vs.append(('hashseed-' + kind, presentation(kd, rng, names=nm, sigma=sigma, containers='set'), qs, None))
    return vs


# ----------------------------------------------------------------------------------------
# running
# ----------------------------------------------------------------------------------------
def job_case(v, X):
    tag, pres, qs, restrict = v
    names = {b: s for s, b in pres['back']}
    return {'pres': pres, 'queries': [[lg, f] for lg, f in qs], 'X': [names[x] for x in X]}


def obs_chunk(chunk):
    return W.observe_job({'cases': chunk, 'internals': True})


def run_fresh_interpreter(seed, job):
    env = dict(os.environ)
    env['PYTHONHASHSEED'] = str(seed)
    env['PMC_REPO'] = REPO
    env['PYTHONPATH'] = REPO
    env['PYTHONDONTWRITEBYTECODE'] = '1'
    p = subprocess.run([sys.executable, WORKER], input=json.dumps(job), capture_output=True, text=True, env=env, timeout=1500)
    if p.returncode != 0:
        raise RuntimeError('c06 worker failed under PYTHONHASHSEED=%s: %s' % (seed, p.stderr[-500:]))
    return json.loads(p.stdout)


def model_cmds_for(o, qs, X):
    """model commands for one observed presentation: the three checkers, scc, reach"""
    g = [[s, list(ds)] for s, ds in o['succ_order']]
    lab = [[s, [Q(a) for a in sorted(labs)]] for s, labs in o['label_order']]
    ks = [g, list(o['init']), lab]
    cmds = []
    for lg, f in qs:
        f = detuple(f)
        cmds.append(['ctl', ks, fsx(f)] if lg == 'CTL' else ['ltl', ks, fsx(f)] if lg == 'LTL' else ['ctls', 'CTLS', ks, fsx(f)])
    cmds.append(['scc', g])
    cmds.append(['reach', g, list(X)])
    return cmds


def restrict_ans(a, restrict):
    if restrict is None or a[0] != 'ok':
        return tuple(a)
    rs = set(restrict)
    return ('ok', [s for s in a[1] if s in rs])


def restrict_scc(a, restrict):
    if restrict is None or a[0] != 'ok':
        return (a[0], a[1])
    rs = set(restrict)
    return ('ok', sorted(c for c in a[1] if set(c) <= rs))


def order_sig(o):
    return json.dumps([o.get('states_order'), o.get('succ_order'), o.get('label_order')])


def fair_atom_renaming(R):
    """atom renaming WITH fairness constraints: the same structure (int states, same insertion order - so the known
    order-sensitivity of the coded fair set, KF-C15-a, cannot interfere) is presented with its atoms consistently
    renamed, in K and in f, in particular to names that look like the checkers' fresh fair labels (fair, fair0, ...);
    modelcheck(K, f, F=F) must return the same set.  Both answers are also compared with the faithful fair model."""
    import mccheck
    rng = random.Random(R.seed + 6)
    cases = []
    for i in range(900 if R.thorough else 110):
        aps = ('p', 'q')
        kd = rand_kripke(rng, rng.randint(2, 5), aps)
        if i % 3 == 0:          # make fair components likely: self loops everywhere
            kd['R'] = sorted(set(kd['R']) | {(s, s) for s in kd['S']})
        F = [sorted(rng.sample(kd['S'], rng.randint(1, len(kd['S'])))) for _ in range(rng.randint(0, 2))]
        pool = ['fair', 'fair0', 'fair1', 'x_fair', 'Fair'] + fresh_names(rng, 2, avoid=aps)
        tgt = rng.sample(pool, 2)
        if rng.random() < 0.7 and 'fair' not in tgt:
            tgt[rng.randrange(2)] = 'fair'
        sigma = dict(zip(aps, tgt))
        kd2 = dict(kd)
        kd2['L'] = {s: [sigma[a] for a in ls] for s, ls in kd['L'].items()}
        cases.append((kd, kd2, F, sigma, gen_formulas(rng, aps)))
    cmds, meta = [], []
    for kd, kd2, F, sigma, queries in cases:
        for logic, f in queries:
            f2 = rename_formula(f, sigma)
            K1, K2 = kd_py(kd), kd_py(kd2)
            a1 = mccheck.impl_mc(logic, K1, f, F=[set(P) for P in F])
            a2 = mccheck.impl_mc(logic, K2, f2, F=[set(P) for P in F])
            cmds.append(mccheck.model_cmd(logic, kd_py(kd), f, F))
            cmds.append(mccheck.model_cmd(logic, kd_py(kd2), f2, F))
            meta.append((kd, kd2, F, sigma, logic, f, f2, tuple(a1), tuple(a2)))
    outs = model_batch_parallel(cmds)
    nbad = 0
    kf = 0
    kf_example = None
    for i, (kd, kd2, F, sigma, logic, f, f2, a1, a2) in enumerate(meta):
        R.evaluations += 1
        m1, m2 = mccheck.model_obs(outs[2 * i]), mccheck.model_obs(outs[2 * i + 1])
        if a1 != a2 and a1 == m1 and a2 == m2:
            # known finding KF-fair-capture: the fair label is chosen fresh w.r.t. K.labels() only, so a FORMULA atom spelled
            # fair / fair0 / ... that labels no state of K is captured by it; the faithful model predicts exactly this answer
            used = {a for a in (g[1] for g in subformulas(f2) if g[0] == 'ap')}
            present = {a for ls in kd2['L'].values() for a in ls}
            if any(re.match(r'^fair[0-9]*$', a) and a not in present for a in used):
                kf += 1
                if kf_example is None:
                    kf_example = (logic, kd_json(kd2), F, fstr(f2), a1, a2)
                continue
        if a1 != a2 or a1 != m1 or a2 != m2:
            nbad += 1
            if nbad <= 12:
                R.violation('%s.modelcheck(K, f, F=F): consistently renaming the atomic propositions (%s) changes the answer%s'
                            % (logic, sigma, '' if a1 != a2 else ' relative to the faithful fair model'),
                            {'stream': 'atom renaming with fairness', 'logic': logic, 'kripke': kd_json(kd), 'F': F, 'sigma': sigma, 'formula': f,
                             'formula_str': fstr(f), 'renamed_formula_str': fstr(f2), 'impl_original': a1, 'impl_renamed': a2,
                             'model_original': m1, 'model_renamed': m2})
        elif a1[0] == 'ok' and 0 < len(a1[1]) < len(kd['S']):
            R.nontriv(('fair-rename', json.dumps(kd_json(kd), sort_keys=True), json.dumps(F), logic, f))
    if kf:
        R.known_hits['KF-fair-capture'] = kf
        known_finding_line('C06', 'KF-fair-capture', 'with F given, a formula atom spelled like the fresh fair label (fair, fair0, ...) that labels no state of K is captured by '
                           'that label: %d explored renamings change the answer exactly as the faithful model predicts (e.g. %s.modelcheck on %s, F=%s, %s: %s before / %s after renaming)'
                           % ((kf,) + tuple(json.dumps(x) if not isinstance(x, str) else x for x in kf_example)))
    R.cov['atom_renaming_with_fairness'] = {'queries': len(meta), 'differences': nbad, 'known_finding_cases': kf}


def inplace_renaming(R):
    """atoms renamed IN PLACE: the same Kripke object is asked, relabelled through replace_labelling_function with its atoms renamed
    (a swap p <-> q, or fresh names), asked the consistently renamed formula, renamed back and asked the original again - all three answers
    must be the same set (the theorem C06_rename_atoms speaks about the value of K; nothing remembered about the OBJECT from an earlier
    call may enter).  Model-free."""
    rng = random.Random(R.seed + 606)
    nb = 0
    for _ in range(900 if R.thorough else 90):
        aps = ('p', 'q')
        kd = rand_kripke(rng, rng.randint(1, 4), aps)
        K = kd_py(kd)
        sigma = {'p': 'q', 'q': 'p'} if rng.random() < 0.5 else dict(zip(aps, fresh_names(rng, 2, avoid=aps)))
        back = {v: k for k, v in sigma.items()}
        for lg, f in gen_formulas(rng, aps):
            R.evaluations += 1
            a1 = impl_mc(lg, K, f)
            K.replace_labelling_function({s_: set(sigma[a] for a in K.labels(s_)) for s_ in K.states()})
            a2 = impl_mc(lg, K, rename_formula(f, sigma))
            K.replace_labelling_function({s_: set(back[a] for a in K.labels(s_)) for s_ in K.states()})
            a3 = impl_mc(lg, K, f)
            if not (a1 == a2 == a3):
                nb += 1
                if nb <= 5:
                    R.violation('%s.modelcheck: the answer changes when the atoms of the SAME structure object are renamed in place (and back)' % lg,
                                {'stream': 'in-place renaming', 'logic': lg, 'kripke': kd_json(kd), 'formula': f, 'formula_str': fstr(f), 'sigma': sigma,
                                 'answer_before': a1, 'answer_after_renaming': a2, 'answer_after_renaming_back': a3})
            elif a1[0] == 'ok' and 0 < len(a1[1]) < len(kd['S']):
                R.nontriv(('inplace', json.dumps(kd_json(kd), sort_keys=True), lg, f))
    R.cov['inplace_renaming'] = {'differences': nb}


QUOTED_NAMES = [(' x', 'x '), ('x', ' x'), ('x ', 'x'), (' x y ', 'x y'), ('\tx', 'x'), ('x\t', ' x'), ('x-1', 'x-2'), ('x.y', 'x,y'), ('#x', 'x?'),
                ('\u00e9', 'e'), ('1x', '2x'), ('  ', ' '), ('x  y', 'x y'), ('x:=1', 'x:= 1'), ('x_\u03b1', 'x_\u03b2')]


def text_with_names(f, logic, rng, sigma):
    """hand-written concrete syntax of f with every atom a spelled as sigma[a] between double quotes"""
    ph = {a: 'zz%dzz' % i for i, a in enumerate(sorted(sigma))}
    t = hand_text(rename_atoms(f, ph), logic, rng)
    for a, h in ph.items():
        t = re.sub(r'"?\b%s\b"?' % h, lambda m, a=a: '"%s"' % sigma[a], t)
    return t


def text_renaming(R):
    """atoms renamed consistently in K and in a formula given as TEXT: names that are not identifiers (leading / trailing / inner blanks,
    tabs, punctuation, digits first, non-ASCII letters; two atoms whose names differ only in blanks) are written between double quotes.
    The answers for (K, f) as object, (K, text of f), (K renamed, f renamed as object) and (K renamed, text of f renamed) must all be the
    same set.  Model-free (the theorem C06_rename_atoms is about any injective renaming)."""
    rng = random.Random(R.seed + 616)
    nb = 0
    hist = {}
    for _ in range(1200 if R.thorough else 120):
        aps = ('p', 'q')
        kd = rand_kripke(rng, rng.randint(1, 4), aps)
        names = rng.choice(QUOTED_NAMES)
        sigma = dict(zip(aps, names if rng.random() < 0.5 else names[::-1]))
        kd2 = rename_atoms_kd(kd, sigma)
        for lg, f in gen_formulas(rng, aps):
            f = flat1(f)
            try:
                t1 = hand_text(f, lg, rng)
                t2 = text_with_names(f, lg, rng, sigma)
            except ValueError:
                continue
            R.evaluations += 1
            ans = [impl_mc(lg, kd_py(kd), f), impl_mc(lg, kd_py(kd), t1, as_text=True),
                   impl_mc(lg, kd_py(kd2), rename_formula(f, sigma)), impl_mc(lg, kd_py(kd2), t2, as_text=True)]
            hist[ans[0][0]] = hist.get(ans[0][0], 0) + 1
            if any(tuple(a) != tuple(ans[0]) for a in ans):
                nb += 1
                if nb <= 5:
                    R.violation('%s.modelcheck: the answer changes when the atoms are renamed consistently in K and in the formula text (%r)' % (lg, t2),
                                {'stream': 'text renaming', 'logic': lg, 'kripke': kd_json(kd), 'formula': f, 'formula_str': fstr(f), 'sigma': sigma,
                                 'text': t1, 'text_renamed': t2, 'answers[object, text, renamed object, renamed text]': ans})
            elif ans[0][0] == 'ok' and 0 < len(ans[0][1]) < len(kd['S']):
                R.nontriv(('text-renaming', json.dumps(kd_json(kd), sort_keys=True), lg, f, json.dumps(sigma)))
    R.cov['text_renaming'] = {'differences': nb, 'answers': hist}


def run(R):
    R.rule = ('(K, f) with K random (2..6 states, atoms {p,q} or {p,q,r}) or a 2-state structure and one formula per logic (CTL state formula depth <= 3, '
              'A g with g of depth 2-3 and <= 4 temporal operators, CTL* state formula depth <= 3 with nested quantifiers), each with a temporal operator. '
              'Variants per case: 4 argument-order permutations (one with S omitted, one with set containers), 3 state renamings (ints incl. negative / '
              'hash-colliding, strings, tuples), 1 atom renaming, 2 unreachable extensions (one with edges into the old states); 1 renaming to DISTINCT states '
              'that print alike (1 / \'1\', (1,) / \'(1,)\', s / repr(s), chains; usually with the unlabelled states left out of L), 1 renaming (every second case) to plain '
              'objects hashed by identity (alone, inside tuples, next to ordinary states; the answer must consist of the caller\'s own objects - also '
              'checked for compute_SCCs / reachable sets), 1 atom renaming to the bracketed names the CTL* checker itself generates (\'[\' + str(g) + \']\' '
              'for a quantified subformula g of the query, its dual, the second choice \'[[...](0)]\'; only for atoms that label a state of K: a '
              'bracketed formula atom labelling NO state is the known finding KF-C03-a and is not generated); a sub-sample additionally in '
              'fresh interpreters under k PYTHONHASHSEEDs (3 quick / 16 thorough) with str/tuple/int states, multi-character atoms, set containers. '
              'Compared: every variant = base answer under the correspondence (implementation alone), every variant = proved model on that very '
              'presentation, compute_SCCs / reachable sets as sets of sets. non-trivial = answer neither empty nor all states and at least one variant '
              'whose observed iteration orders (states, successor sets, label sets) differ from the base; distinct by (K, logic, f) TEXT RENAMING (model-free): atoms renamed to names that need double quotes in the concrete syntax (leading / trailing / inner blanks, tabs, punctuation, digit first, non-ASCII; pairs that differ only in blanks) consistently in K and in the formula TEXT: object, text, renamed object and renamed text must give one answer.')
    fair_atom_renaming(R)
    inplace_renaming(R)
    text_renaming(R)
    rng = R.rng
    th = R.thorough
    base = gen_base(R, 5000 if th else 500)
    n_hash = 1200 if th else 200
    seeds = ([1, 2, 3] if not th else list(range(1, 13)) + rng.sample(range(1000, 2 ** 32 - 1), 4))
    R.cov['hash_seeds'] = seeds
    R.cov['parent_hashseed'] = os.environ.get('PYTHONHASHSEED', '(random)')

    # ---------------- build all variants
    plan = []          # per case: dict(kd, aps, queries, X, variants=[(tag, pres, qs, restrict)], hvariants=[...])
    for i, (kd, aps, queries) in enumerate(base):
        X = rng.sample(kd['S'], rng.randint(1, max(1, len(kd['S']) // 2)))
        c = {'kd': kd, 'aps': aps, 'queries': queries, 'X': X, 'variants': variants_inprocess(kd, aps, queries, rng, i)}
        c['hvariants'] = variants_hashseed(kd, aps, queries, rng) if i < n_hash else []
        plan.append(c)

    # ---------------- in-process observations (fork pool; hash seed of this interpreter)
    t0 = time.time()
    flat = [job_case(v, c['X']) for c in plan for v in c['variants']]
    obs = pmap_chunks(obs_chunk, flat, n_jobs(), per=20)
    it = iter(obs)
    for c in plan:
        c['obs'] = [next(it) for _ in c['variants']]
    t1 = time.time()

    # ---------------- fresh interpreters, one per hash seed, all hash cases batched into one launch each
    hflat = [job_case(v, c['X']) for c in plan for v in c['hvariants']]
    hjob = {'cases': hflat, 'internals': True}
    from concurrent.futures import ThreadPoolExecutor
    with ThreadPoolExecutor(max_workers=min(len(seeds), n_jobs())) as ex:
        hres = list(ex.map(lambda s: run_fresh_interpreter(s, hjob), seeds))
    R.cov['hash_of_"p"_per_interpreter'] = {str(s): r['hash_of_p'] for s, r in zip(seeds, hres)}
    if len({r['hash_of_p'] for r in hres}) < len(seeds):
        raise RuntimeError('hash randomisation did not take effect in the fresh interpreters')
    for c in plan:
        c['hobs'] = []                         # [variant][seed] -> observation
    pos = 0
    for c in plan:
        for _ in c['hvariants']:
            c['hobs'].append([r['observations'][pos] for r in hres])
            pos += 1
    t2 = time.time()

    # ---------------- model on every observed presentation
    cmds, slots = [], []
    for ci, c in enumerate(plan):
        for vi, (v, o) in enumerate(zip(c['variants'], c['obs'])):
            if o['build'][0] == 'ok':
                cm = model_cmds_for(o, v[2], c['X'])
                slots.append((ci, 'v', vi, 0, len(cmds), len(cm)))
                cmds += cm
        for vi, (v, os_) in enumerate(zip(c['hvariants'], c['hobs'])):
            seen = {}
            for si, o in enumerate(os_):
                if o['build'][0] != 'ok':
                    continue
                sig = order_sig(o)
                if sig not in seen:             # the model depends on the presentation only: one run per distinct observed order
                    cm = model_cmds_for(o, v[2], c['X'])
                    seen[sig] = (len(cmds), len(cm))
                    cmds += cm
                slots.append((ci, 'h', vi, si, seen[sig][0], seen[sig][1]))
    outs = model_batch_parallel(cmds)
    t3 = time.time()
    R.cov['timing_s'] = {'in-process variants (pool of %d)' % n_jobs(): round(t1 - t0, 1),
                         'fresh interpreters (%d seeds x %d presentations)' % (len(seeds), len(hflat)): round(t2 - t1, 1),
                         'model (%d commands)' % len(cmds): round(t3 - t2, 1)}

    def model_view(start, k):
        o = outs[start:start + k]
        ans = [model_obs(x) for x in o[:k - 2]]
        scc = ('ok', sorted(sorted(ints(cc)) for cc in o[k - 2]))
        reach = ('ok', sorted(ints(o[k - 1][1]))) if o[k - 1][0] == 'ok' else ('err', o[k - 1][1])
        return ans, scc, reach

    # ---------------- compare
    bad = []
    tags = {}
    order_hist = {'states': {}, 'successor_sets': {}, 'label_sets': {}, 'ltl_closure': {}}
    differs_count = {}

    def viol(kind, c, tag, pres, qs, detail):
        n = len(c['kd']['S'])
        bad.append({'kind': kind, 'variant': tag, 'kripke': kd_json(c['kd']), 'presentation': pres, 'queries': [[lg, f, fstr(detuple(f))] for lg, f in qs],
                    'base_queries': [[lg, f, fstr(f)] for lg, f in c['queries']], 'X': c['X'], 'detail': detail, 'size': (n, sum(fsize(f) for _, f in c['queries']))})

    for (ci, kind, vi, si, start, k) in slots:
        c = plan[ci]
        if kind == 'v':
            tag, pres, qs, restrict = c['variants'][vi]
            o = c['obs'][vi]
        else:
            tag, pres, qs, restrict = c['hvariants'][vi]
            o = c['hobs'][vi][si]
            tag = '%s(seed %s)' % (tag, seeds[si])
        m_ans, m_scc, m_reach = model_view(start, k)
        b = c['obs'][0]
        if b['build'][0] != 'ok':
            viol('build', c, 'base', c['variants'][0][1], c['queries'], {'impl_build': b['build']})
            continue
        R.evaluations += len(qs) + 2
        tags[tag.split('(')[0]] = tags.get(tag.split('(')[0], 0) + 1
        for qi, (lg, f) in enumerate(qs):
            a = tuple(o['answers'][qi])
            a = (a[0], a[1])
            if a != m_ans[qi]:
                viol('answer-vs-model', c, tag, pres, qs, {'logic': lg, 'formula': fstr(detuple(f)), 'impl': a, 'model': m_ans[qi],
                                                        'observed_orders': {'states': o['states_order'], 'succ': o['succ_order'], 'labels': o['label_order']}})
            ba = (b['answers'][qi][0], b['answers'][qi][1])
            if restrict_ans(a, restrict) != ba:
                viol('answer-depends-on-presentation', c, tag, pres, qs,
                     {'logic': lg, 'formula': fstr(detuple(f)), 'this_presentation': a, 'base_presentation': ba, 'restricted_to': restrict,
                      'observed_orders': {'states': o['states_order'], 'succ': o['succ_order'], 'labels': o['label_order']},
                      'base_orders': {'states': b['states_order'], 'succ': b['succ_order'], 'labels': b['label_order']}})
        scc = (o['scc'][0], o['scc'][1])
        reach = (o['reach'][0], o['reach'][1])
        if scc != m_scc or reach != m_reach:
            viol('graph-vs-model', c, tag, pres, qs, {'impl_scc': scc, 'model_scc': m_scc, 'impl_reach': reach, 'model_reach': m_reach})
        if restrict_scc(scc, restrict) != (b['scc'][0], b['scc'][1]) or restrict_ans(reach, restrict) != (b['reach'][0], b['reach'][1]):
            viol('graph-depends-on-presentation', c, tag, pres, qs, {'this_scc': scc, 'base_scc': b['scc'], 'this_reach': reach, 'base_reach': b['reach']})
        if order_sig(o) != order_sig(b):
            differs_count[ci] = differs_count.get(ci, 0) + 1

    # build failures of variants are violations too (the base built)
    for c in plan:
        for v, o in list(zip(c['variants'], c['obs'])) + [(v, o) for v, os_ in zip(c['hvariants'], c['hobs']) for o in os_]:
            if o['build'][0] != 'ok':
                viol('build', c, v[0], v[1], v[2], {'impl_build': o['build']})

    # ---------------- evidence: were the orders really different?
    def bump(h, k):
        h[str(k)] = h.get(str(k), 0) + 1
    for c in plan:
        for os_ in c['hobs']:
            good = [o for o in os_ if o['build'][0] == 'ok']
            bump(order_hist['states'], len({json.dumps(o['states_order']) for o in good}))
            bump(order_hist['successor_sets'], len({json.dumps(o['succ_order']) for o in good}))
            bump(order_hist['label_sets'], len({json.dumps(o['label_order']) for o in good}))
            bump(order_hist['ltl_closure'], len({json.dumps(o.get('closure_order')) for o in good}))
    R.cov['distinct_iteration_orders_across_hash_seeds'] = {
        'explanation': 'per presentation run under %d hash seeds: how many distinct orders of K.states() / successor sets / label sets / LTL closure were observed (histogram: #orders -> #presentations)' % len(seeds),
        **{k: {n: h[n] for n in sorted(h, key=int)} for k, h in order_hist.items()}}
    R.cov['presentations_with_more_than_one_states_order'] = sum(v for k, v in order_hist['states'].items() if int(k) > 1)
    R.cov['variant_runs'] = tags
    nt_logic = {}
    for ci, c in enumerate(plan):
        b = c['obs'][0]
        if b['build'][0] != 'ok' or not differs_count.get(ci):
            continue
        n = len(c['kd']['S'])
        for qi, (lg, f) in enumerate(c['queries']):
            a = b['answers'][qi]
            if a[0] == 'ok' and 0 < len(a[1]) < n:
                R.nontriv((json.dumps(kd_json(c['kd']), sort_keys=True), lg, f))
                nt_logic[lg] = nt_logic.get(lg, 0) + 1
                if nt_logic[lg] <= 2:
                    R.sample({'kripke': kd_json(c['kd']), 'logic': lg, 'formula': fstr(f), 'answer': a[1],
                              'variants_with_different_observed_order': differs_count[ci],
                              'example_variant': {'tag': c['variants'][5][0], 'S': c['variants'][5][1]['S'], 'states_order_seen': c['obs'][5].get('states_order')}})
    R.cov['nontrivial_by_logic'] = nt_logic
    # the naming streams: did they produce what they are for?
    clash = {'presentations': 0, 'with_two_states_printing_alike': 0, 'of_which_one_left_out_of_L_and_the_other_labelled': 0}
    objs = {'presentations': 0, 'with_identity_hashed_object_states': 0, 'with_objects_inside_tuples': 0, 'all_objects_printing_alike': 0}
    brk = {}
    for c in plan:
        for tag, pres, qs, restrict in c['variants']:
            if tag == 'rename-strclash':
                clash['presentations'] += 1
                nms = [W.dec(x) for x, _ in pres['back']]
                inL = {json.dumps(x): bool(labs) for x, labs in pres['L']}
                pairs = [(x, y) for x in nms for y in nms if x is not y and isinstance(y, str) and repr(x) == y]
                clash['with_two_states_printing_alike'] += bool(pairs)
                clash['of_which_one_left_out_of_L_and_the_other_labelled'] += any(
                    {json.dumps(W.enc(x)) in inL, json.dumps(W.enc(y)) in inL} == {True, False} for x, y in pairs)
            elif tag == 'rename-obj':
                objs['presentations'] += 1
                txt = json.dumps([x for x, _ in pres['back']])
                objs['with_identity_hashed_object_states'] += '"o"' in txt
                objs['with_objects_inside_tuples'] += '{"t": ["w", {"o"' in txt
                objs['all_objects_printing_alike'] += '"same"' in txt and '"id"' not in txt
            elif tag.startswith('rename-atoms-bracketed'):
                for nm in sorted({a for lg, f in qs for a in fatoms(detuple(f)) if a.startswith('[')}):
                    k = re.sub(r'[A-Za-z][A-Za-z0-9_]*', lambda m: m.group(0) if m.group(0) in ('not', 'or', 'and', 'A', 'E', 'X', 'F', 'G', 'U', 'R') else 'x', nm)
                    brk[k] = brk.get(k, 0) + 1
    R.cov['states_with_equal_printed_forms'] = clash
    R.cov['plain_object_states'] = objs
    R.cov['bracketed_atom_name_shapes_in_queries'] = dict(sorted(brk.items(), key=lambda kv: -kv[1])[:25])
    tms = os.times()
    R.cov['cpu_s'] = round(tms.user + tms.system + tms.children_user + tms.children_system, 1)
    R.cov['cases'] = {'base_cases': len(plan), 'cases_also_run_under_hash_seeds': sum(1 for c in plan if c['hvariants'])}

    bad.sort(key=lambda d: (d['size'], json.dumps(d, sort_keys=True, default=str)))
    for d in bad[:20]:
        what = {'answer-vs-model': 'modelcheck differs from the proved model on one presentation',
                'answer-depends-on-presentation': 'modelcheck answer changes with the presentation',
                'graph-vs-model': 'compute_SCCs / get_reachable_set_from differ from the proved model on one presentation',
                'graph-depends-on-presentation': 'compute_SCCs / get_reachable_set_from change with the presentation',
                'build': 'Kripke(...) fails on one presentation of a structure that builds in the base presentation'}[d['kind']]
        R.violation('%s [%s] %s' % (what, d['variant'], json.dumps(d['detail'], default=str)[:300]), d)
    if len(bad) > 20:
        R.cov['further_failing_instances_not_written'] = len(bad) - 20
    R.exhaustive = False


def replay(R, data):
    if data['data'].get('stream') == 'in-place renaming':
        import mccheck
        d = data['data']
        kd = kd_from_json(d['kripke'])
        f = mccheck.detuple(d['formula'])
        sigma = d['sigma']
        back = {v: k for k, v in sigma.items()}
        K = kd_py(kd)
        a1 = impl_mc(d['logic'], K, f)
        K.replace_labelling_function({s_: set(sigma[a] for a in K.labels(s_)) for s_ in K.states()})
        a2 = impl_mc(d['logic'], K, rename_formula(f, sigma))
        K.replace_labelling_function({s_: set(back[a] for a in K.labels(s_)) for s_ in K.states()})
        a3 = impl_mc(d['logic'], K, f)
        print('before:', a1, ' renamed in place:', a2, ' renamed back:', a3)
        if not (a1 == a2 == a3):
            R.violation('replayed: the answer changes under an in-place renaming of the atoms', d)
        return
    if data['data'].get('stream') == 'text renaming':
        d = data['data']
        kd = kd_from_json(d['kripke'])
        f = detuple(d['formula'])
        sigma = d['sigma']
        kd2 = rename_atoms_kd(kd, sigma)
        lg = d['logic']
        ans = [impl_mc(lg, kd_py(kd), f), impl_mc(lg, kd_py(kd), d['text'], as_text=True),
               impl_mc(lg, kd_py(kd2), rename_formula(f, sigma)), impl_mc(lg, kd_py(kd2), d['text_renamed'], as_text=True)]
        for w, a in zip(['object', 'text %r' % d['text'], 'renamed object', 'renamed text %r' % d['text_renamed']], ans):
            print('%-40s %s' % (w, a))
        if any(tuple(a) != tuple(ans[0]) for a in ans):
            R.violation('replayed: the answer changes under a consistent renaming of the atoms (text channel)', d)
        return
    if data['data'].get('stream') == 'atom renaming with fairness':
        import mccheck
        d = data['data']
        kd = kd_from_json(d['kripke'])
        f = mccheck.detuple(d['formula'])
        f2 = rename_formula(f, d['sigma'])
        kd2 = dict(kd)
        kd2['L'] = {s: [d['sigma'][a] for a in ls] for s, ls in kd['L'].items()}
        F = [set(P) for P in d['F']]
        a1 = mccheck.impl_mc(d['logic'], kd_py(kd), f, F=F)
        a2 = mccheck.impl_mc(d['logic'], kd_py(kd2), f2, F=F)
        print('original:', a1)
        print('renamed :', a2)
        if tuple(a1) != tuple(a2):
            R.violation('replayed', d)
        return
    d = data['data']
    kd = kd_from_json(d['kripke'])
    rng = random.Random(0)
    basep = presentation(kd, rng)
    bq = [(lg, detuple(f)) for lg, f, _ in d['base_queries']]
    qs = [(lg, detuple(f)) for lg, f, _ in d['queries']]
    X = d['X']
    m = re.search(r'seed (\d+)', d['variant'])
    names = {b: s for s, b in d['presentation']['back']}
    job = {'cases': [{'pres': d['presentation'], 'queries': [[lg, f] for lg, f in qs], 'X': [names[x] for x in X]}], 'internals': False}
    if m:
        o = run_fresh_interpreter(int(m.group(1)), job)['observations'][0]
    else:
        o = W.observe_job(job)[0]
    b = W.observe(basep, bq, X)
    print('variant  :', d['variant'])
    print('observed orders:', o.get('states_order'), o.get('succ_order'), o.get('label_order'))
    if o['build'][0] != 'ok':
        print('build    :', o['build'])
        R.violation('replayed: Kripke(...) fails on this presentation', d)
        return
    outs = model_batch(model_cmds_for(o, qs, X))
    failed = failed_base = False
    restrict = list(kd['S']) if d['variant'].startswith('unreachable-added') else None
    for qi, (lg, f) in enumerate(qs):
        mo = model_obs(outs[qi])
        a = (o['answers'][qi][0], o['answers'][qi][1])
        print('%-5s %s' % (lg, fstr(f)))
        print('    this presentation :', a)
        print('    base presentation :', tuple(b['answers'][qi]))
        print('    model (this pres.):', mo)
        if a != mo:
            failed = True
        if restrict_ans(a, restrict) != (b['answers'][qi][0], b['answers'][qi][1]):
            failed_base = True
    print('scc      :', o['scc'], ' model:', sorted(sorted(ints(cc)) for cc in outs[-2]), ' base:', b['scc'])
    print('reach    :', o['reach'], ' model:', outs[-1], ' base:', b['reach'])
    if (o['scc'][0], o['scc'][1]) != ('ok', sorted(sorted(ints(cc)) for cc in outs[-2])):
        failed = True
    if restrict_scc((o['scc'][0], o['scc'][1]), restrict) != (b['scc'][0], b['scc'][1]) or restrict_ans(o['reach'], restrict) != (b['reach'][0], b['reach'][1]):
        failed_base = True
    if failed:
        R.violation('replayed: implementation differs from the proved model on this presentation', d)
    elif failed_base:
        R.violation('replayed: the answer on this presentation differs from the answer on the base presentation', d)
