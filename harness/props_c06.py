"""C06 - answers are independent of presentation order, naming and hash seed.
Theorems (Properties/C06.v): C06_presentation, C06_rename_states, C06_rename_atoms, C06_unreachable (corollaries of
exactness: the characterisation `s in result <-> K,s |= f` mentions no order) and C06_scc_order / C06_reach_order.

Correspondence: each sampled (K, f_CTL, f_LTL, f_CTL*) is presented to the real library in many ways -
(a) permuted S / R / L argument orders (and S omitted), (b) states renamed by random bijections to other ints
(negative, hash-colliding), strings and tuples, (c) atomic propositions renamed consistently in K and f,
(d) extra states that are unreachable from the old ones (with and without edges from the new states into the old),
(e) FRESH INTERPRETERS under different PYTHONHASHSEEDs with string / tuple states, multi-character atoms and the
collections handed over as Python sets, (f) states renamed to DISTINCT values that print alike (1 and '1', (1,) and '(1,)'),
(g) states renamed to plain objects hashed by identity (every answer must be made of the caller's own objects), (h) atoms
renamed to the bracketed names that the CTL* checker generates for its fresh labels (only atoms that label a state of K;
the case of a bracketed formula atom that labels no state is the known finding KF-C03-a of C03).  A state is never named
None: Kripke.labels(state=None) documents None as "no state given".  All variants must give the same answer up to the correspondence (checked on the
implementation alone), and every variant is also compared with the proved model run on exactly that presentation
(the iteration orders are read back from the live object; states go through a numbering).  compute_SCCs and
get_reachable_set_from are compared in the same way as sets of sets.
Second audit round: (i) the S / S0 / R / label collections are also handed over in OTHER container types (tuple, frozenset, dict keys
view, one-shot iterator, generator, deque; edges as lists; L an OrderedDict / defaultdict) - variant perm-varied-containers and a third
of the renaming variants - and the worker checks that the live object stores exactly the given states / transitions / label sets;
(j) text renaming also to bare IDENTIFIER names with a reserved spelling glued in (notq, orb, trueish, Ap, pUq, Not ...), through the parser;
(k) fair_plan: modelcheck(K, f, F=F) under permutations, containers, state renamings (mixed unorderable types, plain objects ...),
unreachable extensions and hash seeds, on structures with a self loop on every state (KF-C15-a cannot interfere); (l) big_plan: unreachable
extensions of 1300-2000 states (chains, a ring, a fan), longer than the recursion limit.  (k) and (l) are variant = base comparisons."""
from common import *
import re
from mccheck import *
import c06_worker as W
from props_c04 import pmap_chunks, n_jobs, tcount
LEVEL = 'proof'

WORKER = os.path.join(os.path.dirname(os.path.abspath(__file__)), 'c06_worker.py')
NAME_HEADS = 'bcdhijklmpqsvwyzBCDHJKLMNPQSVWYZ'      # no reserved word of the grammars starts like this... (objects only anyway)
NAME_TAIL = 'abcdefghijklmnopqrstuvwxyz0123456789_'
M61 = (1 << 61) - 1


# ----------------------------------------------------------------------------------------
# presentations
# ----------------------------------------------------------------------------------------
def fresh_names(rng, k, avoid=()):
    out = []
    while len(out) < k:
        nm = rng.choice(NAME_HEADS) + ''.join(rng.choice(NAME_TAIL) for _ in range(rng.randint(1, 7)))
        if nm not in out and nm not in avoid:
            out.append(nm)
    return out


GLUE = ['EX', 'AX', 'EF', 'AF', 'EG', 'AG', 'X', 'F', 'G', 'A', 'E', 'not', 'Not', 'EU', 'AR']


def glued_names(rng, k):
    """atom names that are an operator spelling glued to ANOTHER atom name of the same renaming (EXIT next to IT, Ap next
    to p, notq next to q): legal identifiers; an answer may not depend on such a choice of names (a printer that drops a
    blank, or a lexer that splits them, would make it)"""
    base = rng.choice(['IT', 'p', 'q0', 'it', 'x_1'])
    out = [base]
    while len(out) < k:
        b = rng.choice(out)
        nm = rng.choice([rng.choice(GLUE) + b, b + 'U' + base, b + 'orb', b + 'R' + base, 'A' + b + 'U' + base])
        if nm not in out:
            out.append(nm)
    rng.shuffle(out)
    return out


def rename_formula(f, sigma):
    if f[0] == 'ap':
        return ('ap', sigma[f[1]])
    if f[0] in ('true', 'false'):
        return f
    return (f[0],) + tuple(rename_formula(g, sigma) for g in f[1:])


def state_names(rng, n, kind):
    """n distinct state names of the given kind"""
    if kind == 'int':
        pool = list(range(-4, 40)) + [8 * i for i in range(5, 20)] + [M61 + i for i in range(0, 6)] + [-(1 << 40), 1 << 70]
        return rng.sample(pool, n)            # includes -1/-2 and j / 2^61-1+j: distinct ints with equal hashes
    if kind == 'str':
        style = rng.randint(0, 2)
        if style == 0:
            return ['s%d' % i for i in rng.sample(range(100), n)]
        return fresh_names(rng, n)
    if kind == 'tuple':
        style = rng.randint(0, 2)
        names = fresh_names(rng, n)
        if style == 0:
            return [(nm, i) for i, nm in enumerate(names)]
        if style == 1:
            return [(nm[0], nm) for nm in names]
        return [((nm,), rng.randint(0, 3), nm[::-1]) for nm in names]
    if kind == 'mixed':
        # state names of DIFFERENT, mutually unorderable types in one structure (ints next to strings next to tuples with fields of
        # different types): nothing in a model checker may need to order its states
        out = []
        for i in range(n):
            k = (i + rng.randint(0, 2)) % 4
            out.append([i - 2, 's%d' % i, ('t', i), (i, None if i % 2 else 'x')][k])
        if len(set(map(repr, out))) == len(out) and len(set(out)) == len(out):
            return out
        return [i if i % 2 else 's%d' % i for i in range(n)]
    if kind == 'strclash':
        # DISTINCT hashables with the SAME printed form in one structure: 1 next to '1', (1,) next to '(1,)', 's3' next to "'s3'"
        # (str of the one = repr of the other), chains 1 / '1' / "'1'": a state is its value, never its str() / repr()
        mk = [lambda i: i, lambda i: -i - 1, lambda i: (i,), lambda i: ('a', i), lambda i: 's%d' % i, lambda i: M61 + i,
              lambda i: (i, ('b', None)), lambda i: 'q%d' % i, lambda i: ()]
        out, i = [], 0
        while len(out) < n:
            v = rng.choice(mk)(i)
            i += 1
            if v in out:
                continue
            chain = [v]
            for _ in range(2 if rng.random() < 0.2 else 1):
                chain.append(repr(chain[-1]))        # for ints and tuples repr == str; for a str s, repr(s) prints like s quoted
            out += chain
        out = out[:n]
        rng.shuffle(out)
        assert len(set(out)) == n
        return out
    if kind == 'obj':
        # plain objects hashed / compared by identity (no value, not orderable; with style 'same' all print alike), alone, inside
        # tuples and next to ordinary states: an answer must consist of the caller's own state objects
        style = rng.choice(['id', 'same', 'mixed', 'mixed'])
        out = []
        for i in range(n):
            st = style if style != 'mixed' else rng.choice(['id', 'same', 'in-tuple', 'plain'])
            o = W.ObjName('o%d' % i, 'same' if st == 'same' else 'id')
            out.append(('w', o) if st == 'in-tuple' else (i if i % 2 else 's%d' % i) if st == 'plain' else o)
        return out
    raise ValueError(kind)


def bracketed_sigma(rng, kd, aps, queries):
    """atom renaming to BRACKETED names: one atom b that labels a state of K gets the very name the CTL* checker would pick as the
    fresh label of a quantified subformula g of the query ('[' + str(g) + ']', printed by the library after the renaming of the other
    atoms; for E g also the name of its dual A(not g)); a further labelling atom may get the checker's second choice
    '[[...](0)]'.  Only atoms that label some state of K are renamed like this (a bracketed FORMULA atom that labels no state
    is the known finding KF-C03-a, not looked for here).  -> (sigma, kind) or None"""
    L = lang_module('CTLS')
    labelled = [a for a in aps if any(a in labs for labs in kd['L'].values())]
    if not labelled:
        return None
    fs = [f for lg, f in queries if lg == 'CTLS'][0]
    quants = [g for g in subformulas(fs) if g[0] in ('A', 'E')]
    pairs = [(b, g) for g in quants for b in labelled if b not in fatoms(g)]
    sigma = {}
    fresh = fresh_names(rng, len(aps), avoid=aps)
    keep = rng.random() < 0.5
    if pairs:
        b, g = rng.choice(pairs)
        kind = 'name-of-a-quantified-subformula'
    else:
        b, g = rng.choice(labelled), (rng.choice(quants) if quants else ('A', ('X', ('ap', aps[0]))))
        kind = 'bracketed-but-unrelated'
    for a, nm in zip(aps, fresh):
        if a != b:
            sigma[a] = a if keep else nm
    tmp = dict(sigma)
    tmp[b] = fresh[aps.index(b)]               # only used when g mentions b itself (then the name is no fresh name of the run)
    g2 = rename_formula(g, tmp)
    if g2[0] == 'E' and rng.random() < 0.4:
        g2 = ('A', ('not', g2[1]))
        kind += '-dual'
    sigma[b] = '[%s]' % str(to_py(g2, L))
    others = [c for c in labelled if c != b and c not in fatoms(g)]
    if others and rng.random() < 0.5:
        sigma[rng.choice(others)] = '[%s(0)]' % sigma[b]
        kind += '+second-choice'
    if len(set(sigma.values())) != len(aps):
        return None
    return sigma, kind


def presentation(kd, rng, names=None, permute=False, omit_S=False, containers='list', sigma=None, extra=None, sparse_L=False):
    """kd: base structure over states 0..n-1.  names: bijection base state -> new name; permute: shuffle all argument orders;
    sigma: atom renaming; extra: (new_states, new_edges, new_labels) appended (new states numbered n, n+1, ...)"""
    S = list(kd['S'])
    Rl = [tuple(e) for e in kd['R']]
    L = [(s, list(kd['L'].get(s, []))) for s in S]
    S0 = list(kd['S0'])
    if extra is not None:
        S = S + list(extra[0])
        Rl = Rl + [tuple(e) for e in extra[1]]
        L = L + [(s, list(extra[2].get(s, []))) for s in extra[0]]
    if names is None:
        names = {s: s for s in S}
    if sigma is not None:
        L = [(s, [sigma[a] for a in labs]) for s, labs in L]
    if permute:
        rng.shuffle(S)
        rng.shuffle(Rl)
        rng.shuffle(L)
        L = [(s, rng.sample(labs, len(labs))) for s, labs in L]
        if rng.random() < 0.3:
            L = [(s, labs) for s, labs in L if labs]      # unlabelled states may be left out of L altogether
    if sparse_L:
        L = [(s, labs) for s, labs in L if labs]
    e = W.enc
    return {'S': None if omit_S else [e(names[s]) for s in S], 'S0': [e(names[s]) for s in S0],
            'R': [[e(names[a]), e(names[b])] for a, b in Rl], 'L': [[e(names[s]), labs] for s, labs in L],
            'back': [[e(names[s]), s] for s in sorted(names)], 'containers': containers}


def varied_containers(rng):
    """every collection handed to Kripke in a container type of its own (list, set, tuple, frozenset, dict keys view, one-shot
    iterator, generator, deque; edges as tuples or lists; L a dict, an OrderedDict or a defaultdict; the label collections
    cycle through a few types): 'the state, transition and label collections passed to Kripke' are collections, not lists"""
    ks = W.CONTAINER_KINDS
    return {'S': rng.choice(ks), 'S0': rng.choice(ks), 'R': rng.choice(ks), 'edge': rng.choice(['tuple', 'list']),
            'L': rng.choice(['dict', 'dict', 'ordered', 'default']), 'labels': [rng.choice(ks) for _ in range(rng.randint(1, 4))]}


def pick_containers(rng, p_set=0.3):
    x = rng.random()
    return 'set' if x < p_set else varied_containers(rng) if x < p_set + 0.35 else 'list'


def unreachable_extension(kd, rng, aps, into_old):
    """a total extra component on new states n.. ; edges from new states into old ones only if into_old; never old -> new"""
    n = len(kd['S'])
    k = rng.randint(1, 3)
    new = list(range(n, n + k))
    edges = []
    for s in new:
        targets = list(new) + (list(kd['S']) if into_old else [])
        ds = rng.sample(targets, rng.randint(1, min(3, len(targets))))
        edges += [(s, d) for d in ds]
    if into_old and not any(d < n for _, d in edges):
        edges.append((new[0], rng.choice(kd['S'])))
    labels = {s: [a for a in aps if rng.random() < 0.5] for s in new}
    return (new, edges, labels)


# ----------------------------------------------------------------------------------------
# cases
# ----------------------------------------------------------------------------------------
def gen_formulas(rng, aps):
    fc = rand_ctl(rng, rng.randint(1, 3), aps)
    while not has_temporal(fc):
        fc = rand_ctl(rng, rng.randint(1, 3), aps)
    if rng.random() < 0.12:         # a heavier tableau: 4 temporal operators (more X-formulas to split the atoms on)
        g = rand_path(rng, 3, aps)
        while tcount(g) != 4:
            g = rand_path(rng, 3, aps)
    else:
        g = rand_path(rng, 2, aps)
        while not has_temporal(g) or tcount(g) > 3:
            g = rand_path(rng, 2, aps)
    fs = rand_ctls_state(rng, rng.randint(1, 3), aps)
    while not has_temporal(fs) or tcount(fs) > 4:
        fs = rand_ctls_state(rng, rng.randint(1, 3), aps)
    return [('CTL', fc), ('LTL', ('A', g)), ('CTLS', fs)]


def gen_base(R, count):
    rng = R.rng
    small = list(all_kripkes(2))
    out = []
    for i in range(count):
        aps = ('p', 'q') if rng.random() < 0.6 else ('p', 'q', 'r')
        if i % 5 == 0 and aps == ('p', 'q'):
            kd = dict(rng.choice(small))
            kd['S0'] = [s for s in kd['S'] if rng.random() < 0.4]
        else:
            kd = rand_kripke(rng, rng.randint(2, 6), aps)
        out.append((kd, aps, gen_formulas(rng, aps)))
    return out


def variants_inprocess(kd, aps, queries, rng, index=0):
    """-> list of (tag, presentation, queries, restrict) ; index 0 is the base presentation"""
    n = len(kd['S'])
    vs = [('base', presentation(kd, rng), queries, None)]
    vs.append(('perm', presentation(kd, rng, permute=True), queries, None))
    vs.append(('perm', presentation(kd, rng, permute=True), queries, None))
    vs.append(('perm-S-omitted', presentation(kd, rng, permute=True, omit_S=True), queries, None))
    vs.append(('perm-as-sets', presentation(kd, rng, permute=True, containers='set'), queries, None))
    vs.append(('perm-varied-containers', presentation(kd, rng, permute=True, omit_S=rng.random() < 0.2, containers=varied_containers(rng)), queries, None))
    for kind in ('int', 'str', 'tuple', 'mixed'):
        nm = dict(zip(kd['S'], state_names(rng, n, kind)))
        vs.append(('rename-' + kind, presentation(kd, rng, names=nm, permute=rng.random() < 0.5, containers=pick_containers(rng)), queries, None))
    sigma = dict(zip(aps, fresh_names(rng, len(aps), avoid=aps)))
    vs.append(('rename-atoms', presentation(kd, rng, sigma=sigma, permute=rng.random() < 0.5),
               [(lg, rename_formula(f, sigma)) for lg, f in queries], None))
    sigma = dict(zip(aps, glued_names(rng, len(aps))))
    # formula-directed: one atom gets the name a QUANTIFIED SUBFORMULA OVER ANOTHER ATOM would have if printed without blanks
    # (EX p  ~  atom 'EXp' when p keeps its name): the most likely confusion of a printed-form memo / lexer
    cands = [(g[0] + g[1][0], g[1][1][1]) for lg, f in queries for g in subformulas(f)
             if g[0] in ('A', 'E') and len(g) == 2 and g[1][0] in ('X', 'F', 'G') and g[1][1][0] == 'ap']
    if cands and len(aps) >= 2:
        pre, a = rng.choice(cands)
        b = rng.choice([x for x in aps if x != a])
        base = rng.choice(['IT', 'p', 'q0'])
        sigma = {x: 'z%d' % i for i, x in enumerate(aps)}
        sigma[a] = base
        sigma[b] = pre + base
    vs.append(('rename-atoms-glued', presentation(kd, rng, sigma=sigma, permute=rng.random() < 0.5),
               [(lg, rename_formula(f, sigma)) for lg, f in queries], None))
    for into_old in (False, True):
        ex = unreachable_extension(kd, rng, aps, into_old)
        nm = {s: s for s in list(kd['S']) + ex[0]}
        vs.append(('unreachable-added' + ('-with-edges-into-old' if into_old else ''),
                   presentation(kd, rng, names=nm, extra=ex, permute=rng.random() < 0.5), queries, list(kd['S'])))
    # appended last (the evidence sample reads variant 5): states whose printed forms coincide, plain-object states, bracketed atoms
    nm = dict(zip(kd['S'], state_names(rng, n, 'strclash')))
    vs.append(('rename-strclash', presentation(kd, rng, names=nm, permute=rng.random() < 0.5, sparse_L=rng.random() < 0.75,
                                               containers=pick_containers(rng, 0.2)), queries, None))
    if index % 2 == 0:                         # every second case (time budget of the quick tier; any copy of a state shows at once)
        nm = dict(zip(kd['S'], state_names(rng, n, 'obj')))
        vs.append(('rename-obj', presentation(kd, rng, names=nm, permute=rng.random() < 0.5, sparse_L=rng.random() < 0.3,
                                              containers=pick_containers(rng)), queries, None))
    bs = bracketed_sigma(rng, kd, aps, queries)
    if bs is not None:
        vs.append(('rename-atoms-bracketed:' + bs[1], presentation(kd, rng, sigma=bs[0], permute=rng.random() < 0.5),
                   [(lg, rename_formula(f, bs[0])) for lg, f in queries], None))
    return vs


def variants_hashseed(kd, aps, queries, rng):
    """presentations for the fresh interpreters: str / tuple / int state names, multi-character atoms, set containers"""
    n = len(kd['S'])
    sigma = dict(zip(aps, fresh_names(rng, len(aps), avoid=aps)))
    qs = [(lg, rename_formula(f, sigma)) for lg, f in queries]
    vs = []
    for kind in ('str', 'tuple', 'int', 'mixed'):
        nm = dict(zip(kd['S'], state_names(rng, n, kind)))
        vs.append(('hashseed-' + kind, presentation(kd, rng, names=nm, sigma=sigma, containers='set'), qs, None))
    return vs


# ----------------------------------------------------------------------------------------
# running
# ----------------------------------------------------------------------------------------
def job_case(v, X):
    tag, pres, qs, restrict = v
    names = {b: s for s, b in pres['back']}
    return {'pres': pres, 'queries': [[lg, f] for lg, f in qs], 'X': [names[x] for x in X]}


def obs_chunk(chunk):
    return W.observe_job({'cases': chunk, 'internals': True})


def obs_chunk_plain(chunk):
    return W.observe_job({'cases': chunk, 'internals': False})


def run_fresh_interpreter(seed, job):
    env = dict(os.environ)
    env['PYTHONHASHSEED'] = str(seed)
    env['PMC_REPO'] = REPO
    env['PYTHONPATH'] = REPO
    env['PYTHONDONTWRITEBYTECODE'] = '1'
    p = subprocess.run([sys.executable, WORKER], input=json.dumps(job), capture_output=True, text=True, env=env, timeout=1500)
    if p.returncode != 0:
        raise RuntimeError('c06 worker failed under PYTHONHASHSEED=%s: %s' % (seed, p.stderr[-500:]))
    return json.loads(p.stdout)


def model_cmds_for(o, qs, X):
    """model commands for one observed presentation: the three checkers, scc, reach"""
    g = [[s, list(ds)] for s, ds in o['succ_order']]
    lab = [[s, [Q(a) for a in sorted(labs)]] for s, labs in o['label_order']]
    ks = [g, list(o['init']), lab]
    cmds = []
    for lg, f in qs:
        f = detuple(f)
        cmds.append(['ctl', ks, fsx(f)] if lg == 'CTL' else ['ltl', ks, fsx(f)] if lg == 'LTL' else ['ctls', 'CTLS', ks, fsx(f)])
    cmds.append(['scc', g])
    cmds.append(['reach', g, list(X)])
    return cmds


def restrict_ans(a, restrict):
    if restrict is None or a[0] != 'ok':
        return tuple(a)
    rs = set(restrict)
    return ('ok', [s for s in a[1] if s in rs])


def restrict_scc(a, restrict):
    if restrict is None or a[0] != 'ok':
        return (a[0], a[1])
    rs = set(restrict)
    return ('ok', sorted(c for c in a[1] if set(c) <= rs))


def order_sig(o):
    return json.dumps([o.get('states_order'), o.get('succ_order'), o.get('label_order')])


def fair_atom_renaming(R):
    """atom renaming WITH fairness constraints: the same structure (int states, same insertion order - so the known
    order-sensitivity of the coded fair set, KF-C15-a, cannot interfere) is presented with its atoms consistently
    renamed, in K and in f, in particular to names that look like the checkers' fresh fair labels (fair, fair0, ...);
    modelcheck(K, f, F=F) must return the same set.  Both answers are also compared with the faithful fair model."""
    import mccheck
    rng = random.Random(R.seed + 6)
    cases = []
    for i in range(900 if R.thorough else 110):
        aps = ('p', 'q')
        kd = rand_kripke(rng, rng.randint(2, 5), aps)
        if i % 3 == 0:          # make fair components likely: self loops everywhere
            kd['R'] = sorted(set(kd['R']) | {(s, s) for s in kd['S']})
        F = [sorted(rng.sample(kd['S'], rng.randint(1, len(kd['S'])))) for _ in range(rng.randint(0, 2))]
        pool = ['fair', 'fair0', 'fair1', 'x_fair', 'Fair'] + fresh_names(rng, 2, avoid=aps)
        tgt = rng.sample(pool, 2)
        if rng.random() < 0.7 and 'fair' not in tgt:
            tgt[rng.randrange(2)] = 'fair'
        sigma = dict(zip(aps, tgt))
        kd2 = dict(kd)
        kd2['L'] = {s: [sigma[a] for a in ls] for s, ls in kd['L'].items()}
        cases.append((kd, kd2, F, sigma, gen_formulas(rng, aps)))
    cmds, meta = [], []
    for kd, kd2, F, sigma, queries in cases:
        for logic, f in queries:
            f2 = rename_formula(f, sigma)
            K1, K2 = kd_py(kd), kd_py(kd2)
            a1 = mccheck.impl_mc(logic, K1, f, F=[set(P) for P in F])
            a2 = mccheck.impl_mc(logic, K2, f2, F=[set(P) for P in F])
            cmds.append(mccheck.model_cmd(logic, kd_py(kd), f, F))
            cmds.append(mccheck.model_cmd(logic, kd_py(kd2), f2, F))
            meta.append((kd, kd2, F, sigma, logic, f, f2, tuple(a1), tuple(a2)))
    outs = model_batch_parallel(cmds)
    nbad = 0
    kf = 0
    kf_example = None
    for i, (kd, kd2, F, sigma, logic, f, f2, a1, a2) in enumerate(meta):
        R.evaluations += 1
        m1, m2 = mccheck.model_obs(outs[2 * i]), mccheck.model_obs(outs[2 * i + 1])
        if a1 != a2 and a1 == m1 and a2 == m2:
            # known finding KF-fair-capture: the fair label is chosen fresh w.r.t. K.labels() only, so a FORMULA atom spelled
            # fair / fair0 / ... that labels no state of K is captured by it; the faithful model predicts exactly this answer
            used = {a for a in (g[1] for g in subformulas(f2) if g[0] == 'ap')}
            present = {a for ls in kd2['L'].values() for a in ls}
            if any(re.match(r'^fair[0-9]*$', a) and a not in present for a in used):
                kf += 1
                if kf_example is None:
                    kf_example = (logic, kd_json(kd2), F, fstr(f2), a1, a2)
                continue
        if a1 != a2 or a1 != m1 or a2 != m2:
            nbad += 1
            if nbad <= 12:
                R.violation('%s.modelcheck(K, f, F=F): consistently renaming the atomic propositions (%s) changes the answer%s'
                            % (logic, sigma, '' if a1 != a2 else ' relative to the faithful fair model'),
                            {'stream': 'atom renaming with fairness', 'logic': logic, 'kripke': kd_json(kd), 'F': F, 'sigma': sigma, 'formula': f,
                             'formula_str': fstr(f), 'renamed_formula_str': fstr(f2), 'impl_original': a1, 'impl_renamed': a2,
                             'model_original': m1, 'model_renamed': m2})
        elif a1[0] == 'ok' and 0 < len(a1[1]) < len(kd['S']):
            R.nontriv(('fair-rename', json.dumps(kd_json(kd), sort_keys=True), json.dumps(F), logic, f))
    if kf:
        R.known_hits['KF-fair-capture'] = kf
        known_finding_line('C06', 'KF-fair-capture', 'with F given, a formula atom spelled like the fresh fair label (fair, fair0, ...) that labels no state of K is captured by '
                           'that label: %d explored renamings change the answer exactly as the faithful model predicts (e.g. %s.modelcheck on %s, F=%s, %s: %s before / %s after renaming)'
                           % ((kf,) + tuple(json.dumps(x) if not isinstance(x, str) else x for x in kf_example)))
    R.cov['atom_renaming_with_fairness'] = {'queries': len(meta), 'differences': nbad, 'known_finding_cases': kf}


def inplace_renaming(R):
    """atoms renamed IN PLACE: the same Kripke object is asked, relabelled through replace_labelling_function with its atoms renamed
    (a swap p <-> q, or fresh names), asked the consistently renamed formula, renamed back and asked the original again - all three answers
    must be the same set (the theorem C06_rename_atoms speaks about the value of K; nothing remembered about the OBJECT from an earlier
    call may enter).  Model-free."""
    rng = random.Random(R.seed + 606)
    nb = 0
    for _ in range(900 if R.thorough else 90):
        aps = ('p', 'q')
        kd = rand_kripke(rng, rng.randint(1, 4), aps)
        K = kd_py(kd)
        sigma = {'p': 'q', 'q': 'p'} if rng.random() < 0.5 else dict(zip(aps, fresh_names(rng, 2, avoid=aps)))
        back = {v: k for k, v in sigma.items()}
        for lg, f in gen_formulas(rng, aps):
            R.evaluations += 1
            a1 = impl_mc(lg, K, f)
            K.replace_labelling_function({s_: set(sigma[a] for a in K.labels(s_)) for s_ in K.states()})
            a2 = impl_mc(lg, K, rename_formula(f, sigma))
            K.replace_labelling_function({s_: set(back[a] for a in K.labels(s_)) for s_ in K.states()})
            a3 = impl_mc(lg, K, f)
            if not (a1 == a2 == a3):
                nb += 1
                if nb <= 5:
                    R.violation('%s.modelcheck: the answer changes when the atoms of the SAME structure object are renamed in place (and back)' % lg,
                                {'stream': 'in-place renaming', 'logic': lg, 'kripke': kd_json(kd), 'formula': f, 'formula_str': fstr(f), 'sigma': sigma,
                                 'answer_before': a1, 'answer_after_renaming': a2, 'answer_after_renaming_back': a3})
            elif a1[0] == 'ok' and 0 < len(a1[1]) < len(kd['S']):
                R.nontriv(('inplace', json.dumps(kd_json(kd), sort_keys=True), lg, f))
    R.cov['inplace_renaming'] = {'differences': nb}


QUOTED_NAMES = [(' x', 'x '), ('x', ' x'), ('x ', 'x'), (' x y ', 'x y'), ('\tx', 'x'), ('x\t', ' x'), ('x-1', 'x-2'), ('x.y', 'x,y'), ('#x', 'x?'),
                ('\u00e9', 'e'), ('1x', '2x'), ('  ', ' '), ('x  y', 'x y'), ('x:=1', 'x:= 1'), ('x_\u03b1', 'x_\u03b2')]


def text_with_names(f, logic, rng, sigma, bare=False):
    """hand-written concrete syntax of f with every atom a spelled as sigma[a] between double quotes (bare: as a plain
    identifier, the way a user writes an atom whose name is one)"""
    ph = {a: 'zz%dzz' % i for i, a in enumerate(sorted(sigma))}
    t = hand_text(rename_atoms(f, ph), logic, rng)
    for a, h in ph.items():
        t = re.sub(r'"?\b%s\b"?' % h, lambda m, a=a: sigma[a] if bare else '"%s"' % sigma[a], t)
    return t


RESERVED_WORDS = ['not', 'or', 'and', 'true', 'false']          # the word spellings of the grammars' operators and constants
RESERVED_LETTERS = ['A', 'E', 'X', 'F', 'G', 'U', 'R']
RESERVED = set(RESERVED_WORDS) | set(RESERVED_LETTERS)
IDENT_BASES = ['q', 'p', 'b', 'it', 'IT', 'x_1', 'q0', 'y']
IDENT_TAILS = ['ish', 'y', 'der', 'hing', 'roid', '_', '1', '2x', 'e', 's', '_p', 'X', 'U']


def glued_identifier(rng, other):
    """a legal IDENTIFIER /[a-zA-Z_][a-zA-Z_0-9]*/ that has a reserved spelling of the concrete syntax (not or and true false / A E
    X F G U R) glued to its head, its tail or its middle - usually glued to the name of the OTHER atom of the renaming (notq next
    to q, Ap next to p, pUq next to p and q) - or that differs from one only in case; never a reserved spelling itself"""
    for _ in range(100):
        w = rng.choice(RESERVED_WORDS)
        l = rng.choice(RESERVED_LETTERS)
        k = rng.randint(0, 11)
        nm = [w + other, w + rng.choice(IDENT_TAILS), other + w, l + other, l + rng.choice(RESERVED_LETTERS) + other, other + l + other,
              w + rng.choice(RESERVED_WORDS), w + rng.choice(RESERVED_WORDS) + other, rng.choice([w.capitalize(), w.upper(), l.lower()]),
              w + '_' + other, l + rng.choice(IDENT_TAILS), l + w + other][k]
        if nm not in RESERVED and nm != other and re.match(r'^[a-zA-Z_][a-zA-Z_0-9]*$', nm):
            return nm
    raise RuntimeError('no glued identifier')


def glued_identifier_pair(rng):
    base = rng.choice(IDENT_BASES)
    a = glued_identifier(rng, base)
    b = base if rng.random() < 0.7 else glued_identifier(rng, base)
    if a == b:
        b = base
    return (a, b)


def text_renaming(R):
    """atoms renamed consistently in K and in a formula given as TEXT: names that are not identifiers (leading / trailing / inner blanks,
    tabs, punctuation, digits first, non-ASCII letters; two atoms whose names differ only in blanks) are written between double quotes.
    The answers for (K, f) as object, (K, text of f), (K renamed, f renamed as object) and (K renamed, text of f renamed) must all be the
    same set.  Model-free (the theorem C06_rename_atoms is about any injective renaming)."""
    rng = random.Random(R.seed + 616)
    nb = 0
    hist = {}
    shapes = {}
    nq = 1200 if R.thorough else 120
    ng = 1200 if R.thorough else 160
    for it in range(nq + ng):
        aps = ('p', 'q')
        kd = rand_kripke(rng, rng.randint(1, 4), aps)
        bare = it >= nq                 # second part: names that ARE identifiers, written bare, with a reserved spelling glued in
        names = glued_identifier_pair(rng) if bare else rng.choice(QUOTED_NAMES)
        sigma = dict(zip(aps, names if rng.random() < 0.5 else names[::-1]))
        kd2 = rename_atoms_kd(kd, sigma)
        if bare:
            for nm in names:
                k = re.sub('|'.join(sorted(IDENT_BASES + IDENT_TAILS, key=lambda x: -len(x))), '.', nm)
                shapes[k] = shapes.get(k, 0) + 1
        for lg, f in gen_formulas(rng, aps):
            f = flat1(f)
            try:
                t1 = hand_text(f, lg, rng)
                t2 = text_with_names(f, lg, rng, sigma, bare=bare)
            except ValueError:
                continue
            R.evaluations += 1
            # the second part mostly through ONE parser object per logic (modelcheck(..., parser=P): building a parser per call is the
            # cost of this stream); every 8th case through modelcheck's own parser
            ps = shared_parser(lg) if bare and it % 8 else None
            ans = [impl_mc(lg, kd_py(kd), f), impl_mc(lg, kd_py(kd), t1, as_text=True, parser=ps),
                   impl_mc(lg, kd_py(kd2), rename_formula(f, sigma)), impl_mc(lg, kd_py(kd2), t2, as_text=True, parser=ps)]
            hist[ans[0][0]] = hist.get(ans[0][0], 0) + 1
            if any(tuple(a) != tuple(ans[0]) for a in ans):
                nb += 1
                if nb <= 5:
                    R.violation('%s.modelcheck: the answer changes when the atoms are renamed consistently in K and in the formula text (%r)' % (lg, t2),
                                {'stream': 'text renaming', 'logic': lg, 'kripke': kd_json(kd), 'formula': f, 'formula_str': fstr(f), 'sigma': sigma,
                                 'text': t1, 'text_renamed': t2, 'shared_parser': ps is not None, 'answers[object, text, renamed object, renamed text]': ans})
            elif ans[0][0] == 'ok' and 0 < len(ans[0][1]) < len(kd['S']):
                R.nontriv(('text-renaming', json.dumps(kd_json(kd), sort_keys=True), lg, f, json.dumps(sigma)))
    R.cov['text_renaming'] = {'differences': nb, 'answers': hist, 'cases_with_quoted_names': nq, 'cases_with_bare_glued_identifiers': ng,
                              'glued_identifier_shapes(base/tail as .)': dict(sorted(shapes.items(), key=lambda kv: -kv[1])[:40])}


# ----------------------------------------------------------------------------------------
# fairness under renamings / orders / containers / hash seeds; large unreachable extensions  (model-free: variant = base)
# ----------------------------------------------------------------------------------------
def job_case_F(v, X, F):
    j = job_case(v, X)
    if F is not None:
        names = {b: s for s, b in v[1]['back']}
        j['F'] = [[names[x] for x in P] for P in F]
    return j


def fair_plan(R):
    """modelcheck(K, f, F=F) under presentations: structures with a self loop on EVERY state (the coded fair set is then the same
    whichever node an SCC yields first, so the known order-sensitivity KF-C15-a cannot interfere), 1-2 fairness constraints (sometimes
    none: F=[]), the constraints renamed along with the states.  Variants: argument orders, set / varied containers, states renamed to
    ints, strings, tuples, MIXED unorderable types, plain objects, states that print alike; a sub-sample in fresh interpreters under
    the hash seeds.  -> list of cases"""
    rng = random.Random(R.seed + 626)
    cases = []
    for i in range(600 if R.thorough else 70):
        aps = ('p', 'q')
        n = rng.randint(2, 5)
        kd = rand_kripke(rng, n, aps)
        kd['R'] = sorted(set(map(tuple, kd['R'])) | {(s, s) for s in kd['S']})
        F = [sorted(rng.sample(kd['S'], rng.randint(1, n))) for _ in range(rng.choice([0, 1, 1, 1, 2, 2]))]
        queries = gen_formulas(rng, aps)
        X = rng.sample(kd['S'], 1)
        vs = [('fair-base', presentation(kd, rng), queries, None),
              ('fair-perm', presentation(kd, rng, permute=True, containers=pick_containers(rng)), queries, None)]
        for kind in ('int', 'str', 'tuple', 'mixed', 'obj', 'strclash'):
            nm = dict(zip(kd['S'], state_names(rng, n, kind)))
            vs.append(('fair-rename-' + kind, presentation(kd, rng, names=nm, permute=rng.random() < 0.5, containers=pick_containers(rng)), queries, None))
        ex = unreachable_extension(kd, rng, aps, rng.random() < 0.5)
        ex = (ex[0], sorted(set(ex[1]) | {(s, s) for s in ex[0]}), ex[2])
        nm = {s: s for s in list(kd['S']) + ex[0]}
        nm.update(zip(ex[0], state_names(rng, len(ex[0]), 'mixed' if rng.random() < 0.5 else 'str')))
        if len(set(nm.values())) == len(nm):
            vs.append(('fair-unreachable-added', presentation(kd, rng, names=nm, extra=ex, permute=rng.random() < 0.5), queries, list(kd['S'])))
        hv = []
        if i < (200 if R.thorough else 25):
            for kind in ('str', 'mixed', 'tuple'):
                nm = dict(zip(kd['S'], state_names(rng, n, kind)))
                hv.append(('fair-hashseed-' + kind, presentation(kd, rng, names=nm, containers='set'), queries, None))
        cases.append({'kd': kd, 'aps': aps, 'queries': queries, 'X': X, 'F': F, 'variants': vs, 'hvariants': hv})
    return cases


def big_plan(R):
    """'adding states unreachable from the queried ones' with MANY states: a small structure plus 1300-2000 new states that no old state
    reaches - a chain leading into the old states, a ring (one huge SCC) with an exit into them, a chain of self-looping states, a chain
    that never touches them, a fan.  Longer than the interpreter's recursion limit, so an answer that depends on the depth of a walk
    through the new part (recursive search / SCC pass) shows.  -> list of cases"""
    rng = random.Random(R.seed + 636)
    cases = []
    shapes = ['chain-into-old', 'ring-into-old', 'selfloop-chain-into-old', 'chain-apart', 'fan-into-old']
    lim = sys.getrecursionlimit()
    for i in range(40 if R.thorough else 8):
        aps = ('p', 'q')
        n = rng.randint(2, 4)
        kd = rand_kripke(rng, n, aps)
        shape = shapes[i % len(shapes)] if i < len(shapes) else rng.choice(shapes)
        N = lim + rng.randint(300, 1000 if R.thorough else 500)
        new = list(range(n, n + N))
        edges = list(zip(new, new[1:]))
        old = rng.choice(kd['S'])
        if shape == 'chain-into-old':
            edges.append((new[-1], old))
        elif shape == 'ring-into-old':
            edges += [(new[-1], new[0]), (new[rng.randrange(N)], old)]
        elif shape == 'selfloop-chain-into-old':
            edges += [(u, u) for u in new] + [(new[-1], old)]
        elif shape == 'chain-apart':
            edges.append((new[-1], new[-1]))
        else:
            edges = [(new[0], u) for u in new[1:]] + [(u, rng.choice(kd['S'])) for u in new[1:]]
        pat = [[a for a in aps if rng.random() < 0.6] for _ in range(rng.randint(1, 5))]
        labels = {u: pat[j % len(pat)] for j, u in enumerate(new)}
        queries = gen_formulas(rng, aps)
        while any(tcount(f) > 2 for _, f in queries):
            queries = gen_formulas(rng, aps)
        nm = {s: s for s in kd['S']}
        style = rng.choice(['int', 'str', 'tuple'])
        nm.update({u: u if style == 'int' else 'u%d' % u if style == 'str' else ('u', u) for u in new})
        X = rng.sample(kd['S'], rng.randint(1, n))
        vs = [('big-base', presentation(kd, rng), queries, None),
              ('big-unreachable-added:' + shape, presentation(kd, rng, names=nm, extra=(new, edges, labels), permute=rng.random() < 0.5,
                                                              containers=rng.choice(['list', 'set'])), queries, list(kd['S']))]
        cases.append({'kd': kd, 'aps': aps, 'queries': queries, 'X': X, 'F': None, 'variants': vs, 'hvariants': [], 'shape': shape, 'added': N})
    return cases


def judge_variants(R, stream, cases, seeds=()):
    """variant answer (restricted to the old states) = base answer, compute_SCCs / reachable sets likewise; c['obs'][i] / c['hobs'][i][seed]"""
    bad = []
    for c in cases:
        b = c['obs'][0]
        runs = [(v, o, v[0]) for v, o in zip(c['variants'], c['obs'])]
        runs += [(v, o, '%s(seed %s)' % (v[0], seeds[si])) for v, os_ in zip(c['hvariants'], c.get('hobs', [])) for si, o in enumerate(os_)]
        for (tag0, pres, qs, restrict), o, tag in runs:
            rec = {'stream': stream, 'variant': tag, 'kripke': kd_json(c['kd']), 'F': c['F'], 'presentation': pres,
                   'queries': [[lg, f, fstr(detuple(f))] for lg, f in qs], 'base_queries': [[lg, f, fstr(f)] for lg, f in c['queries']], 'X': c['X']}
            if o['build'][0] != 'ok' or b['build'][0] != 'ok':
                bad.append(('Kripke(...) fails on, or stores something else than, one presentation', dict(rec, detail={'impl_build': o['build'], 'base_build': b['build']})))
                continue
            R.evaluations += len(qs) + 2
            for qi, (lg, f) in enumerate(qs):
                a = (o['answers'][qi][0], o['answers'][qi][1])
                ba = (b['answers'][qi][0], b['answers'][qi][1])
                if restrict_ans(a, restrict) != ba:
                    bad.append(('modelcheck answer%s changes with the presentation' % (' under fairness constraints' if c['F'] is not None else ''),
                                dict(rec, detail={'logic': lg, 'formula': fstr(detuple(f)), 'this_presentation': a if len(str(a)) < 400 else str(a)[:400],
                                                  'base_presentation': ba, 'restricted_to': restrict})))
                elif tag0 != c['variants'][0][0] and ba[0] == 'ok' and 0 < len(ba[1]) < len(c['kd']['S']):
                    R.nontriv((stream, json.dumps(kd_json(c['kd']), sort_keys=True), json.dumps(c['F']), lg, f))
            scc, reach = (o['scc'][0], o['scc'][1]), (o['reach'][0], o['reach'][1])
            if restrict_scc(scc, restrict) != (b['scc'][0], b['scc'][1]) or restrict_ans(reach, restrict) != (b['reach'][0], b['reach'][1]):
                bad.append(('compute_SCCs / get_reachable_set_from change with the presentation',
                            dict(rec, detail={'this_scc': str(scc)[:300], 'base_scc': b['scc'], 'this_reach': str(reach)[:300], 'base_reach': b['reach']})))
    bad.sort(key=lambda x: (len(x[1]['presentation']['back']), json.dumps(x[1], sort_keys=True, default=str)))
    for what, rec in bad[:8]:
        R.violation('%s [%s] %s' % (what, rec['variant'], json.dumps(rec['detail'], default=str)[:300]), rec)
    return len(bad)


def fair_base_vs_model(R, cases):
    """the base presentation of every fair case against the faithful fair model (int states in default order, as in fair_atom_renaming)"""
    import mccheck
    cmds, meta = [], []
    for c in cases:
        if c['obs'][0]['build'][0] != 'ok':
            continue
        for qi, (lg, f) in enumerate(c['queries']):
            cmds.append(mccheck.model_cmd(lg, kd_py(c['kd']), f, c['F']))
            meta.append((c, qi, lg, f))
    outs = model_batch_parallel(cmds)
    nb = 0
    for (c, qi, lg, f), o in zip(meta, outs):
        a = (c['obs'][0]['answers'][qi][0], c['obs'][0]['answers'][qi][1])
        if a != mccheck.model_obs(o):
            nb += 1
            if nb <= 3:
                R.violation('%s.modelcheck(K, f, F=F) differs from the faithful fair model on the base presentation' % lg,
                            {'stream': 'fair presentations', 'variant': 'fair-base', 'kripke': kd_json(c['kd']), 'F': c['F'], 'presentation': c['variants'][0][1],
                             'queries': [[l, g, fstr(g)] for l, g in c['queries']], 'base_queries': [[l, g, fstr(g)] for l, g in c['queries']], 'X': c['X'],
                             'detail': {'logic': lg, 'formula': fstr(f), 'impl': a, 'model': mccheck.model_obs(o)}})
    return nb


def fair_states_hist(cases):
    h = {}
    for c in cases:
        K = kd_py(c['kd'])
        r = call(lambda: len(K.get_fair_states([set(P) for P in c['F']])))
        k = str(r[1]) if r[0] == 'ok' else r[1]
        h[k] = h.get(k, 0) + 1
    return dict(sorted(h.items()))


def run(R):
    R.rule = ('(K, f) with K random (2..6 states, atoms {p,q} or {p,q,r}) or a 2-state structure and one formula per logic (CTL state formula depth <= 3, '
              'A g with g of depth 2-3 and <= 4 temporal operators, CTL* state formula depth <= 3 with nested quantifiers), each with a temporal operator. '
              'Variants per case: 4 argument-order permutations (one with S omitted, one with set containers), 3 state renamings (ints incl. negative / '
              'hash-colliding, strings, tuples), 1 atom renaming, 2 unreachable extensions (one with edges into the old states); 1 renaming to DISTINCT states '
              'that print alike (1 / \'1\', (1,) / \'(1,)\', s / repr(s), chains; usually with the unlabelled states left out of L), 1 renaming (every second case) to plain '
              'objects hashed by identity (alone, inside tuples, next to ordinary states; the answer must consist of the caller\'s own objects - also '
              'checked for compute_SCCs / reachable sets), 1 atom renaming to the bracketed names the CTL* checker itself generates (\'[\' + str(g) + \']\' '
              'for a quantified subformula g of the query, its dual, the second choice \'[[...](0)]\'; only for atoms that label a state of K: a '
              'bracketed formula atom labelling NO state is the known finding KF-C03-a and is not generated); a sub-sample additionally in '
              'fresh interpreters under k PYTHONHASHSEEDs (3 quick / 16 thorough) with str/tuple/int states, multi-character atoms, set containers. '
              'Compared: every variant = base answer under the correspondence (implementation alone), every variant = proved model on that very '
              'presentation, compute_SCCs / reachable sets as sets of sets. non-trivial = answer neither empty nor all states and at least one variant '
              'whose observed iteration orders (states, successor sets, label sets) differ from the base; distinct by (K, logic, f) TEXT RENAMING (model-free): atoms renamed to names that need double quotes in the concrete syntax (leading / trailing / inner blanks, tabs, punctuation, digit first, non-ASCII; pairs that differ only in blanks) consistently in K and in the formula TEXT: object, text, renamed object and renamed text must give one answer; '
              'the same with names that ARE identifiers and have a reserved spelling (not or and true false A E X F G U R) glued to head / tail / middle, mostly next to '
              'the other atom of the renaming (notq next to q, Ap next to p, pUq, orand, Not, TRUE), written bare so that they pass the lexer (one parser object per logic, every 8th case modelcheck\'s own). '
              'CONTAINERS: variant perm-varied-containers and ~35% of the state-renaming variants hand S, S0, R and each label collection to Kripke in a container type of its own '
              '(list, set, tuple, frozenset, dict keys view, iterator, generator, deque; edges as tuples or lists; L dict / OrderedDict / defaultdict); for every presentation the live object '
              'must store exactly the given states, initial states, transitions and label sets (else reported as a build difference). '
              'FAIRNESS UNDER PRESENTATIONS (model-free, variant = base; base also = faithful fair model): 70 quick / 600 thorough structures of 2-5 states with a self loop on every state '
              '(so that KF-C15-a cannot make the coded fair set order-dependent), F of 0-2 constraints renamed along with the states; variants: permutation with set / varied containers, states renamed to '
              'ints, strings, tuples, mixed unorderable types, plain objects, names that print alike, an unreachable extension with mixed / string names, and (first 25 / 200 cases) '
              'str / mixed / tuple names with set containers in the fresh interpreters under every hash seed; non-trivial = base answer neither empty nor everything. '
              'LARGE UNREACHABLE EXTENSIONS (model-free): 8 quick / 40 thorough structures of 2-4 states plus recursion-limit + 300..500 (thorough ..1000) new states that no old state reaches: '
              'chain into the old states, ring with an exit into them, chain of self-looping states, chain apart, fan; int / str / tuple names; formulas with <= 2 temporal operators; '
              'answers, compute_SCCs and reachable sets restricted to the old states must equal the base.')
    ts = [time.time()]
    fair_atom_renaming(R)
    ts.append(time.time())
    inplace_renaming(R)
    ts.append(time.time())
    text_renaming(R)
    ts.append(time.time())
    fcases = fair_plan(R)
    bcases = big_plan(R)
    rng = R.rng
    th = R.thorough
    base = gen_base(R, 5000 if th else 500)
    n_hash = 1200 if th else 200
    seeds = ([1, 2, 3] if not th else list(range(1, 13)) + rng.sample(range(1000, 2 ** 32 - 1), 4))
    R.cov['hash_seeds'] = seeds
    R.cov['parent_hashseed'] = os.environ.get('PYTHONHASHSEED', '(random)')

    # ---------------- build all variants
    plan = []          # per case: dict(kd, aps, queries, X, variants=[(tag, pres, qs, restrict)], hvariants=[...])
    for i, (kd, aps, queries) in enumerate(base):
        X = rng.sample(kd['S'], rng.randint(1, max(1, len(kd['S']) // 2)))
        c = {'kd': kd, 'aps': aps, 'queries': queries, 'X': X, 'variants': variants_inprocess(kd, aps, queries, rng, i)}
        c['hvariants'] = variants_hashseed(kd, aps, queries, rng) if i < n_hash else []
        plan.append(c)

    # ---------------- in-process observations (fork pool; hash seed of this interpreter)
    t0 = time.time()
    flat = [job_case(v, c['X']) for c in plan for v in c['variants']]
    fflat = [job_case_F(v, c['X'], c['F']) for c in fcases for v in c['variants']]
    obs = pmap_chunks(obs_chunk, flat + fflat, n_jobs(), per=20)
    it = iter(obs)
    for c in plan + fcases:
        c['obs'] = [next(it) for _ in c['variants']]
    t1 = time.time()
    bobs = iter(pmap_chunks(obs_chunk_plain, [job_case(v, c['X']) for c in bcases for v in c['variants']], n_jobs(), per=1))
    for c in bcases:
        c['obs'] = [next(bobs) for _ in c['variants']]
    t_big = time.time() - t1
    t1 = time.time()

    # ---------------- fresh interpreters, one per hash seed, all hash cases batched into one launch each
    hflat = [job_case(v, c['X']) for c in plan for v in c['hvariants']]
    fhflat = [job_case_F(v, c['X'], c['F']) for c in fcases for v in c['hvariants']]
    hjob = {'cases': hflat + fhflat, 'internals': True}
    from concurrent.futures import ThreadPoolExecutor
    with ThreadPoolExecutor(max_workers=min(len(seeds), n_jobs())) as ex:
        hres = list(ex.map(lambda s: run_fresh_interpreter(s, hjob), seeds))
    R.cov['hash_of_"p"_per_interpreter'] = {str(s): r['hash_of_p'] for s, r in zip(seeds, hres)}
    if len({r['hash_of_p'] for r in hres}) < len(seeds):
        raise RuntimeError('hash randomisation did not take effect in the fresh interpreters')
    for c in plan:
        c['hobs'] = []                         # [variant][seed] -> observation
    pos = 0
    for c in plan:
        for _ in c['hvariants']:
            c['hobs'].append([r['observations'][pos] for r in hres])
            pos += 1
    for c in fcases:
        c['hobs'] = []
        for _ in c['hvariants']:
            c['hobs'].append([r['observations'][pos] for r in hres])
            pos += 1
    t2 = time.time()

    # ---------------- fairness under presentations, large unreachable extensions (variant = base)
    nf = judge_variants(R, 'fair presentations', fcases, seeds)
    nfm = fair_base_vs_model(R, fcases)
    R.cov['fair_presentations'] = {'cases': len(fcases), 'presentations': len(fflat), 'of_which_also_under_hash_seeds': len(fhflat), 'differences': nf,
                                   'base_differs_from_fair_model': nfm, 'number_of_fair_states(histogram)': fair_states_hist(fcases),
                                   'constraints_per_case': {str(k): sum(1 for c in fcases if len(c['F']) == k) for k in (0, 1, 2)}}
    nbg = judge_variants(R, 'big unreachable', bcases)
    R.cov['large_unreachable_extensions'] = {'cases': len(bcases), 'differences': nbg, 'recursion_limit': sys.getrecursionlimit(),
                                             'shapes': {sh: sum(1 for c in bcases if c['shape'] == sh) for sh in sorted({c['shape'] for c in bcases})},
                                             'states_added(min,max)': [min(c['added'] for c in bcases), max(c['added'] for c in bcases)], 'wall_s': round(t_big, 1)}
    R.cov['timing_model_free_streams_s'] = {'fair_atom_renaming': round(ts[1] - ts[0], 1), 'inplace_renaming': round(ts[2] - ts[1], 1), 'text_renaming': round(ts[3] - ts[2], 1)}
    t2b = time.time()

    # ---------------- model on every observed presentation
    cmds, slots = [], []
    for ci, c in enumerate(plan):
        for vi, (v, o) in enumerate(zip(c['variants'], c['obs'])):
            if o['build'][0] == 'ok':
                cm = model_cmds_for(o, v[2], c['X'])
                slots.append((ci, 'v', vi, 0, len(cmds), len(cm)))
                cmds += cm
        for vi, (v, os_) in enumerate(zip(c['hvariants'], c['hobs'])):
            seen = {}
            for si, o in enumerate(os_):
                if o['build'][0] != 'ok':
                    continue
                sig = order_sig(o)
                if sig not in seen:             # the model depends on the presentation only: one run per distinct observed order
                    cm = model_cmds_for(o, v[2], c['X'])
                    seen[sig] = (len(cmds), len(cm))
                    cmds += cm
                slots.append((ci, 'h', vi, si, seen[sig][0], seen[sig][1]))
    outs = model_batch_parallel(cmds)
    t3 = time.time()
    R.cov['timing_s'] = {'in-process variants (pool of %d)' % n_jobs(): round(t1 - t0, 1),
                         'fresh interpreters (%d seeds x %d presentations)' % (len(seeds), len(hflat)): round(t2 - t1, 1),
                         'model (%d commands)' % len(cmds): round(t3 - t2b, 1), 'fair + large-extension judging': round(t2b - t2, 1)}

    def model_view(start, k):
        o = outs[start:start + k]
        ans = [model_obs(x) for x in o[:k - 2]]
        scc = ('ok', sorted(sorted(ints(cc)) for cc in o[k - 2]))
        reach = ('ok', sorted(ints(o[k - 1][1]))) if o[k - 1][0] == 'ok' else ('err', o[k - 1][1])
        return ans, scc, reach

    # ---------------- compare
    bad = []
    tags = {}
    order_hist = {'states': {}, 'successor_sets': {}, 'label_sets': {}, 'ltl_closure': {}}
    differs_count = {}

    def viol(kind, c, tag, pres, qs, detail):
        n = len(c['kd']['S'])
        bad.append({'kind': kind, 'variant': tag, 'kripke': kd_json(c['kd']), 'presentation': pres, 'queries': [[lg, f, fstr(detuple(f))] for lg, f in qs],
                    'base_queries': [[lg, f, fstr(f)] for lg, f in c['queries']], 'X': c['X'], 'detail': detail, 'size': (n, sum(fsize(f) for _, f in c['queries']))})

    for (ci, kind, vi, si, start, k) in slots:
        c = plan[ci]
        if kind == 'v':
            tag, pres, qs, restrict = c['variants'][vi]
            o = c['obs'][vi]
        else:
            tag, pres, qs, restrict = c['hvariants'][vi]
            o = c['hobs'][vi][si]
            tag = '%s(seed %s)' % (tag, seeds[si])
        m_ans, m_scc, m_reach = model_view(start, k)
        b = c['obs'][0]
        if b['build'][0] != 'ok':
            viol('build', c, 'base', c['variants'][0][1], c['queries'], {'impl_build': b['build']})
            continue
        R.evaluations += len(qs) + 2
        tags[tag.split('(')[0]] = tags.get(tag.split('(')[0], 0) + 1
        for qi, (lg, f) in enumerate(qs):
            a = tuple(o['answers'][qi])
            a = (a[0], a[1])
            if a != m_ans[qi]:
                viol('answer-vs-model', c, tag, pres, qs, {'logic': lg, 'formula': fstr(detuple(f)), 'impl': a, 'model': m_ans[qi],
                                                        'observed_orders': {'states': o['states_order'], 'succ': o['succ_order'], 'labels': o['label_order']}})
            ba = (b['answers'][qi][0], b['answers'][qi][1])
            if restrict_ans(a, restrict) != ba:
                viol('answer-depends-on-presentation', c, tag, pres, qs,
                     {'logic': lg, 'formula': fstr(detuple(f)), 'this_presentation': a, 'base_presentation': ba, 'restricted_to': restrict,
                      'observed_orders': {'states': o['states_order'], 'succ': o['succ_order'], 'labels': o['label_order']},
                      'base_orders': {'states': b['states_order'], 'succ': b['succ_order'], 'labels': b['label_order']}})
        scc = (o['scc'][0], o['scc'][1])
        reach = (o['reach'][0], o['reach'][1])
        if scc != m_scc or reach != m_reach:
            viol('graph-vs-model', c, tag, pres, qs, {'impl_scc': scc, 'model_scc': m_scc, 'impl_reach': reach, 'model_reach': m_reach})
        if restrict_scc(scc, restrict) != (b['scc'][0], b['scc'][1]) or restrict_ans(reach, restrict) != (b['reach'][0], b['reach'][1]):
            viol('graph-depends-on-presentation', c, tag, pres, qs, {'this_scc': scc, 'base_scc': b['scc'], 'this_reach': reach, 'base_reach': b['reach']})
        if order_sig(o) != order_sig(b):
            differs_count[ci] = differs_count.get(ci, 0) + 1

    # build failures of variants are violations too (the base built)
    for c in plan:
        for v, o in list(zip(c['variants'], c['obs'])) + [(v, o) for v, os_ in zip(c['hvariants'], c['hobs']) for o in os_]:
            if o['build'][0] != 'ok':
                viol('build', c, v[0], v[1], v[2], {'impl_build': o['build']})

    # ---------------- evidence: were the orders really different?
    def bump(h, k):
        h[str(k)] = h.get(str(k), 0) + 1
    for c in plan:
        for os_ in c['hobs']:
            good = [o for o in os_ if o['build'][0] == 'ok']
            bump(order_hist['states'], len({json.dumps(o['states_order']) for o in good}))
            bump(order_hist['successor_sets'], len({json.dumps(o['succ_order']) for o in good}))
            bump(order_hist['label_sets'], len({json.dumps(o['label_order']) for o in good}))
            bump(order_hist['ltl_closure'], len({json.dumps(o.get('closure_order')) for o in good}))
    R.cov['distinct_iteration_orders_across_hash_seeds'] = {
        'explanation': 'per presentation run under %d hash seeds: how many distinct orders of K.states() / successor sets / label sets / LTL closure were observed (histogram: #orders -> #presentations)' % len(seeds),
        **{k: {n: h[n] for n in sorted(h, key=int)} for k, h in order_hist.items()}}
    R.cov['presentations_with_more_than_one_states_order'] = sum(v for k, v in order_hist['states'].items() if int(k) > 1)
    R.cov['variant_runs'] = tags
    nt_logic = {}
    for ci, c in enumerate(plan):
        b = c['obs'][0]
        if b['build'][0] != 'ok' or not differs_count.get(ci):
            continue
        n = len(c['kd']['S'])
        for qi, (lg, f) in enumerate(c['queries']):
            a = b['answers'][qi]
            if a[0] == 'ok' and 0 < len(a[1]) < n:
                R.nontriv((json.dumps(kd_json(c['kd']), sort_keys=True), lg, f))
                nt_logic[lg] = nt_logic.get(lg, 0) + 1
                if nt_logic[lg] <= 2:
                    R.sample({'kripke': kd_json(c['kd']), 'logic': lg, 'formula': fstr(f), 'answer': a[1],
                              'variants_with_different_observed_order': differs_count[ci],
                              'example_variant': {'tag': c['variants'][6][0], 'S': c['variants'][6][1]['S'], 'states_order_seen': c['obs'][6].get('states_order')}})
    R.cov['nontrivial_by_logic'] = nt_logic
    # the naming streams: did they produce what they are for?
    clash = {'presentations': 0, 'with_two_states_printing_alike': 0, 'of_which_one_left_out_of_L_and_the_other_labelled': 0}
    objs = {'presentations': 0, 'with_identity_hashed_object_states': 0, 'with_objects_inside_tuples': 0, 'all_objects_printing_alike': 0}
    brk = {}
    for c in plan:
        for tag, pres, qs, restrict in c['variants']:
            if tag == 'rename-strclash':
                clash['presentations'] += 1
                nms = [W.dec(x) for x, _ in pres['back']]
                inL = {json.dumps(x): bool(labs) for x, labs in pres['L']}
                pairs = [(x, y) for x in nms for y in nms if x is not y and isinstance(y, str) and repr(x) == y]
                clash['with_two_states_printing_alike'] += bool(pairs)
                clash['of_which_one_left_out_of_L_and_the_other_labelled'] += any(
                    {json.dumps(W.enc(x)) in inL, json.dumps(W.enc(y)) in inL} == {True, False} for x, y in pairs)
            elif tag == 'rename-obj':
                objs['presentations'] += 1
                txt = json.dumps([x for x, _ in pres['back']])
                objs['with_identity_hashed_object_states'] += '"o"' in txt
                objs['with_objects_inside_tuples'] += '{"t": ["w", {"o"' in txt
                objs['all_objects_printing_alike'] += '"same"' in txt and '"id"' not in txt
            elif tag.startswith('rename-atoms-bracketed'):
                for nm in sorted({a for lg, f in qs for a in fatoms(detuple(f)) if a.startswith('[')}):
                    k = re.sub(r'[A-Za-z][A-Za-z0-9_]*', lambda m: m.group(0) if m.group(0) in ('not', 'or', 'and', 'A', 'E', 'X', 'F', 'G', 'U', 'R') else 'x', nm)
                    brk[k] = brk.get(k, 0) + 1
    R.cov['states_with_equal_printed_forms'] = clash
    R.cov['plain_object_states'] = objs
    R.cov['bracketed_atom_name_shapes_in_queries'] = dict(sorted(brk.items(), key=lambda kv: -kv[1])[:25])
    tms = os.times()
    R.cov['cpu_s'] = round(tms.user + tms.system + tms.children_user + tms.children_system, 1)
    R.cov['cases'] = {'base_cases': len(plan), 'cases_also_run_under_hash_seeds': sum(1 for c in plan if c['hvariants'])}

    bad.sort(key=lambda d: (d['size'], json.dumps(d, sort_keys=True, default=str)))
    for d in bad[:20]:
        what = {'answer-vs-model': 'modelcheck differs from the proved model on one presentation',
                'answer-depends-on-presentation': 'modelcheck answer changes with the presentation',
                'graph-vs-model': 'compute_SCCs / get_reachable_set_from differ from the proved model on one presentation',
                'graph-depends-on-presentation': 'compute_SCCs / get_reachable_set_from change with the presentation',
                'build': 'Kripke(...) fails on, or stores something else than, one presentation of a structure that builds in the base presentation'}[d['kind']]
        R.violation('%s [%s] %s' % (what, d['variant'], json.dumps(d['detail'], default=str)[:300]), d)
    if len(bad) > 20:
        R.cov['further_failing_instances_not_written'] = len(bad) - 20
    R.exhaustive = False


def replay(R, data):
    if data['data'].get('stream') == 'in-place renaming':
        import mccheck
        d = data['data']
        kd = kd_from_json(d['kripke'])
        f = mccheck.detuple(d['formula'])
        sigma = d['sigma']
        back = {v: k for k, v in sigma.items()}
        K = kd_py(kd)
        a1 = impl_mc(d['logic'], K, f)
        K.replace_labelling_function({s_: set(sigma[a] for a in K.labels(s_)) for s_ in K.states()})
        a2 = impl_mc(d['logic'], K, rename_formula(f, sigma))
        K.replace_labelling_function({s_: set(back[a] for a in K.labels(s_)) for s_ in K.states()})
        a3 = impl_mc(d['logic'], K, f)
        print('before:', a1, ' renamed in place:', a2, ' renamed back:', a3)
        if not (a1 == a2 == a3):
            R.violation('replayed: the answer changes under an in-place renaming of the atoms', d)
        return
    if data['data'].get('stream') == 'text renaming':
        d = data['data']
        kd = kd_from_json(d['kripke'])
        f = detuple(d['formula'])
        sigma = d['sigma']
        kd2 = rename_atoms_kd(kd, sigma)
        lg = d['logic']
        ps = shared_parser(lg) if d.get('shared_parser') else None
        ans = [impl_mc(lg, kd_py(kd), f), impl_mc(lg, kd_py(kd), d['text'], as_text=True, parser=ps),
               impl_mc(lg, kd_py(kd2), rename_formula(f, sigma)), impl_mc(lg, kd_py(kd2), d['text_renamed'], as_text=True, parser=ps)]
        for w, a in zip(['object', 'text %r' % d['text'], 'renamed object', 'renamed text %r' % d['text_renamed']], ans):
            print('%-40s %s' % (w, a))
        if any(tuple(a) != tuple(ans[0]) for a in ans):
            R.violation('replayed: the answer changes under a consistent renaming of the atoms (text channel)', d)
        return
    if data['data'].get('stream') == 'atom renaming with fairness':
        import mccheck
        d = data['data']
        kd = kd_from_json(d['kripke'])
        f = mccheck.detuple(d['formula'])
        f2 = rename_formula(f, d['sigma'])
        kd2 = dict(kd)
        kd2['L'] = {s: [d['sigma'][a] for a in ls] for s, ls in kd['L'].items()}
        F = [set(P) for P in d['F']]
        a1 = mccheck.impl_mc(d['logic'], kd_py(kd), f, F=F)
        a2 = mccheck.impl_mc(d['logic'], kd_py(kd2), f2, F=F)
        print('original:', a1)
        print('renamed :', a2)
        if tuple(a1) != tuple(a2):
            R.violation('replayed', d)
        return
    d = data['data']
    kd = kd_from_json(d['kripke'])
    rng = random.Random(0)
    basep = presentation(kd, rng)
    bq = [(lg, detuple(f)) for lg, f, _ in d['base_queries']]
    qs = [(lg, detuple(f)) for lg, f, _ in d['queries']]
    X = d['X']
    with_model = d.get('stream') not in ('fair presentations', 'big unreachable')      # those two streams are variant = base only
    F = d.get('F')
    m = re.search(r'seed (\d+)', d['variant'])
    names = {b: s for s, b in d['presentation']['back']}
    case = {'pres': d['presentation'], 'queries': [[lg, f] for lg, f in qs], 'X': [names[x] for x in X]}
    if F is not None:
        case['F'] = [[names[x] for x in P] for P in F]
    job = {'cases': [case], 'internals': False}
    if m:
        o = run_fresh_interpreter(int(m.group(1)), job)['observations'][0]
    else:
        o = W.observe_job(job)[0]
    b = W.observe(basep, bq, X, F=F)
    big = len(d['presentation']['back']) > 50
    short = (lambda x: str(x)[:300] + (' ...' if len(str(x)) > 300 else '')) if big else (lambda x: x)
    print('variant  :', d['variant'])
    if F is not None:
        print('F        :', F)
    if not big:
        print('observed orders:', o.get('states_order'), o.get('succ_order'), o.get('label_order'))
    if o['build'][0] != 'ok':
        print('build    :', o['build'])
        R.violation('replayed: Kripke(...) fails on (or stores something else than) this presentation', d)
        return
    outs = model_batch(model_cmds_for(o, qs, X)) if with_model else None
    failed = failed_base = False
    restrict = list(kd['S']) if 'unreachable-added' in d['variant'] else None
    for qi, (lg, f) in enumerate(qs):
        a = (o['answers'][qi][0], o['answers'][qi][1])
        print('%-5s %s' % (lg, fstr(f)))
        print('    this presentation :', short(a))
        print('    base presentation :', tuple(b['answers'][qi]))
        if with_model:
            mo = model_obs(outs[qi])
            print('    model (this pres.):', mo)
            if a != mo:
                failed = True
        if restrict_ans(a, restrict) != (b['answers'][qi][0], b['answers'][qi][1]):
            failed_base = True
    if with_model:
        print('scc      :', o['scc'], ' model:', sorted(sorted(ints(cc)) for cc in outs[-2]), ' base:', b['scc'])
        print('reach    :', o['reach'], ' model:', outs[-1], ' base:', b['reach'])
        if (o['scc'][0], o['scc'][1]) != ('ok', sorted(sorted(ints(cc)) for cc in outs[-2])):
            failed = True
    else:
        print('scc      :', short(o['scc']), ' base:', b['scc'])
        print('reach    :', short(o['reach']), ' base:', b['reach'])
        if d['variant'] == 'fair-base':
            import mccheck
            for qi, (lg, f) in enumerate(qs):
                mo = mccheck.model_obs(model_batch([mccheck.model_cmd(lg, kd_py(kd), f, F)])[0])
                print('    faithful fair model, %-5s %s : %s' % (lg, fstr(f), mo))
                if mo != (b['answers'][qi][0], b['answers'][qi][1]):
                    failed = True
    if restrict_scc((o['scc'][0], o['scc'][1]), restrict) != (b['scc'][0], b['scc'][1]) or restrict_ans(o['reach'], restrict) != (b['reach'][0], b['reach'][1]):
        failed_base = True
    if failed:
        R.violation('replayed: implementation differs from the proved model on this presentation', d)
    elif failed_base:
        R.violation('replayed: the answer on this presentation differs from the answer on the base presentation', d)
