"""bddlib.py - shared machinery of the OBDD correspondence checks C16, C17, C18.

Three parties look at every step of a *history* (a sequence of operations over a pool of OBDD
references):

* the LIBRARY  - pyModelChecking.BDD, executed in a fresh interpreter (`python bddlib.py --worker`,
  because the unique table - the weak parent sets f_low/f_high - and the terminal singletons are
  process-global); text level: it only sees Python expression strings, orderings as lists of names;
* the MODEL    - coq/Model/BddHist.v through the driver command `(bdd nv psize op...)`; structure
  level: it sees the `bexp` AST shapes;
* the ORACLE   - plain truth-table arithmetic in this file (16-bit tables), written from the meaning
  of the operators; it only arbitrates (model != oracle is a machinery error, never a violation).

Besides the operations of the model's history language the worker knows three client idioms that the model mirrors by
operations it has: a second reference to one OBDD object (`alias`; model: p[k] = p[i] & p[i]), binary steps spelled with
augmented assignment (model: the plain binary step) and the public node route OBDD(BDDNode(...), ordering) (`node`; model:
the parse of the expression whose reduced ordered diagram the harness hands over, or a refused parse).  After every step
the worker asks == AND != for every pair of slots, and edits the answers of variables() and get_list() (they are the
caller's own objects).

The harness generates expression *structures*, renders them to Python text with a precedence-aware
printer, and re-reads the text with `ast` (`ast_struct`) to make sure the text sent to the library
and the structure sent to the model are the same expression.

Nothing in this module imports pyModelChecking at import time (the worker does, in its own process).
"""
import sys, os, json, ast, itertools, subprocess, re

# variable number <-> name; 'e_x' (4) is never put into an ordering by C17.  Names of more than one character on purpose:
# CPython shares one object per one-character string, longer names arrive from JSON / str.format as EQUAL BUT DISTINCT objects
# (a comparison by identity instead of equality inside the library is then visible).  The names are substrings and
# concatenations of one another on purpose: 'a' and 'b' occur inside 'ab', 'b' inside 'bb' (a substring test `name in other`
# where == was meant is visible), and 'a'+'bb' == 'ab'+'b', 'b'+'bb' == 'bb'+'b' (a table keyed by glued names is visible)
NAMES = ['a', 'ab', 'b', 'bb', 'e_x']


def rn(text):
    """the literal corpora below are written with the letters a..e; rename them to NAMES"""
    return re.sub(r'\b([a-e])\b', lambda m: NAMES['abcde'.index(m.group(1))], text)
NV = 4                     # truth tables range over variables 0..3 (16 assignments)
NASSIGN = 1 << NV
HERE = os.path.dirname(os.path.abspath(__file__))

# ----------------------------------------------------------------------------------------
# expression structures
#   ('v', n) | ('c', bool, text) | ('not', e, kw) | ('and', a, b) | ('or', a, b)
#   | ('andl', (e...)) | ('orl', (e...)) | ('bad', text)
# ----------------------------------------------------------------------------------------
L_OR, L_AND, L_NOT, L_BOR, L_BAND, L_INV, L_ATOM = 1, 2, 3, 5, 7, 12, 20


def render(e, need=0):
    """Python text of a structure; parenthesised only where Python's grammar needs it"""
    t = e[0]
    if t == 'v':
        return NAMES[e[1]]
    if t == 'c':
        return e[2]
    if t == 'bad':
        lvl, s = 0, e[1]
    elif t == 'not':
        if e[2]:
            lvl, s = L_NOT, 'not ' + render(e[1], L_NOT)
        else:
            lvl, s = L_INV, '~' + render(e[1], L_INV)
    elif t == 'and':
        lvl, s = L_BAND, render(e[1], L_BAND) + ' & ' + render(e[2], L_BAND + 1)
    elif t == 'or':
        lvl, s = L_BOR, render(e[1], L_BOR) + ' | ' + render(e[2], L_BOR + 1)
    elif t == 'andl':
        lvl, s = L_AND, ' and '.join(render(x, L_AND + 1) for x in e[1])
    elif t == 'orl':
        lvl, s = L_OR, ' or '.join(render(x, L_OR + 1) for x in e[1])
    else:
        raise ValueError(e)
    return '(' + s + ')' if lvl < need else s


def render_full(e):
    """fully parenthesised rendering (every compound operand in brackets)"""
    t = e[0]
    if t in ('v', 'c'):
        return render(e)
    if t == 'bad':
        return '(' + e[1] + ')'
    if t == 'not':
        return '(' + ('not ' if e[2] else '~') + render_full(e[1]) + ')'
    if t in ('and', 'or'):
        return '(' + render_full(e[1]) + (' & ' if t == 'and' else ' | ') + render_full(e[2]) + ')'
    return '(' + (' and ' if t == 'andl' else ' or ').join(render_full(x) for x in e[1]) + ')'


def ast_struct(node):
    """the harness's own reading of a Python expression AST (shape only: constants lose their
    spelling, non-Boolean syntax becomes ('bad',))"""
    if isinstance(node, ast.BinOp):
        if isinstance(node.op, ast.BitAnd):
            return ('and', ast_struct(node.left), ast_struct(node.right))
        if isinstance(node.op, ast.BitOr):
            return ('or', ast_struct(node.left), ast_struct(node.right))
        return ('bad',)
    if isinstance(node, ast.BoolOp):
        return ('andl' if isinstance(node.op, ast.And) else 'orl', tuple(ast_struct(v) for v in node.values))
    if isinstance(node, ast.UnaryOp):
        if isinstance(node.op, ast.Invert):
            return ('not', ast_struct(node.operand), False)
        if isinstance(node.op, ast.Not):
            return ('not', ast_struct(node.operand), True)
        return ('bad',)
    if isinstance(node, ast.Name):
        if node.id in NAMES:
            return ('v', NAMES.index(node.id))
        return ('bad',)          # the harness never uses other names
    if isinstance(node, ast.Constant):
        v = node.value
        if isinstance(v, (bool, int)) and v in (0, 1):
            return ('c', bool(v))
        return ('bad',)
    return ('bad',)


def shape(e):
    """structure without spellings, comparable with ast_struct"""
    t = e[0]
    if t == 'v':
        return e
    if t == 'c':
        return ('c', bool(e[1]))
    if t == 'bad':
        return ('bad',)
    if t == 'not':
        return ('not', shape(e[1]), bool(e[2]))
    if t in ('and', 'or'):
        return (t, shape(e[1]), shape(e[2]))
    return (t, tuple(shape(x) for x in e[1]))


def text_struct(text):
    """structure of an expression text as Python's own parser reads it; ('bad', text) when
    Python rejects the text as an expression (ill-formed, or a statement such as 'a = b':
    the library parses with ast.parse(text, mode='eval') and raises SyntaxError itself)"""
    try:
        st = ast.parse(text, mode='eval')
    except SyntaxError:
        return ('bad', text)
    return ast_struct(st.body)


def restore_consts(e):
    """ast_struct drops the spelling of constants; put a spelling back"""
    t = e[0]
    if t == 'c':
        return ('c', e[1], '1' if e[1] else '0')
    if t in ('v', 'bad'):
        return e
    if t == 'not':
        return ('not', restore_consts(e[1]), e[2])
    if t in ('and', 'or'):
        return (t, restore_consts(e[1]), restore_consts(e[2]))
    return (t, tuple(restore_consts(x) for x in e[1]))


def struct_of_text(text):
    """structure (with spellings) of a well-formed Boolean expression text written in the harness"""
    e = text_struct(text)
    if 'bad' in repr(e):
        raise AssertionError('not a Boolean expression: %r' % text)
    return restore_consts(e)


def check_render(e, text):
    """machinery self-check: the text means the structure"""
    got = text_struct(text)
    want = shape(e)
    if e[0] == 'bad' and got[0] == 'bad':
        return
    if got != want:
        raise AssertionError('harness renderer bug: %r renders to %r which Python reads as %r' % (e, text, got))


def tup(x):
    """JSON lists -> structure tuples"""
    if isinstance(x, list):
        return tuple(tup(y) for y in x)
    return x


def sx(e):
    """model s-expression of a structure"""
    t = e[0]
    if t == 'v':
        return ['v', e[1]]
    if t == 'c':
        return ['c', 1 if e[1] else 0]
    if t == 'bad':
        return ['bad']
    if t == 'not':
        return ['not', sx(e[1])]
    if t in ('and', 'or'):
        return [t, sx(e[1]), sx(e[2])]
    return [t] + [sx(x) for x in e[1]]


def to_kw(e):
    """the same expression written with the keywords and/or/not"""
    t = e[0]
    if t in ('v', 'c', 'bad'):
        return e
    if t == 'not':
        return ('not', to_kw(e[1]), True)
    if t in ('and', 'or'):
        return (t + 'l', (to_kw(e[1]), to_kw(e[2])))
    return (t, tuple(to_kw(x) for x in e[1]))


def to_op(e):
    """the same expression written with & | ~ (lists fold to the left)"""
    t = e[0]
    if t in ('v', 'c', 'bad'):
        return e
    if t == 'not':
        return ('not', to_op(e[1]), False)
    if t in ('and', 'or'):
        return (t, to_op(e[1]), to_op(e[2]))
    xs = [to_op(x) for x in e[1]]
    acc = xs[0]
    for x in xs[1:]:
        acc = (t[:-1], acc, x)
    return acc


def evars(e):
    t = e[0]
    if t == 'v':
        return {e[1]}
    if t in ('c', 'bad'):
        return set()
    if t == 'not':
        return evars(e[1])
    if t in ('and', 'or'):
        return evars(e[1]) | evars(e[2])
    s = set()
    for x in e[1]:
        s |= evars(x)
    return s


def edepth(e):
    t = e[0]
    if t in ('v', 'c', 'bad'):
        return 0
    if t == 'not':
        return 1 + edepth(e[1])
    if t in ('and', 'or'):
        return 1 + max(edepth(e[1]), edepth(e[2]))
    return 1 + max(edepth(x) for x in e[1])


# ----------------------------------------------------------------------------------------
# oracle: truth tables as ints (bit m = value under assignment m; variable v = bit v of m)
# ----------------------------------------------------------------------------------------
FULL = (1 << NASSIGN) - 1
VMASK = [sum(1 << m for m in range(NASSIGN) if (m >> v) & 1) for v in range(NV)]


def tt_eval(e):
    t = e[0]
    if t == 'v':
        return VMASK[e[1]]
    if t == 'c':
        return FULL if e[1] else 0
    if t == 'not':
        return FULL ^ tt_eval(e[1])
    if t == 'and':
        return tt_eval(e[1]) & tt_eval(e[2])
    if t == 'or':
        return tt_eval(e[1]) | tt_eval(e[2])
    if t == 'andl':
        r = FULL
        for x in e[1]:
            r &= tt_eval(x)
        return r
    if t == 'orl':
        r = 0
        for x in e[1]:
            r |= tt_eval(x)
        return r
    raise ValueError('no meaning: %r' % (e,))


def tt_str(t):
    return ''.join('1' if (t >> m) & 1 else '0' for m in range(NASSIGN))


def tt_restrict(t, v, b):
    if v >= NV:
        return t
    r = 0
    for m in range(NASSIGN):
        m2 = (m | (1 << v)) if b else (m & ~(1 << v))
        if (t >> m2) & 1:
            r |= 1 << m
    return r


def tt_support(t):
    return [v for v in range(NV) if tt_restrict(t, v, 0) != tt_restrict(t, v, 1)]


def expected_status(e, O):
    """first error in the parser's evaluation order (left to right, operands before the operator)"""
    if len(set(O)) != len(O):
        return 'RuntimeError'

    def go(e):
        t = e[0]
        if t == 'v':
            return 'ok' if e[1] in O else 'RuntimeError'
        if t == 'c':
            return 'ok'
        if t == 'bad':
            return 'SyntaxError'
        if t == 'not':
            return go(e[1])
        subs = [e[1], e[2]] if t in ('and', 'or') else list(e[1])
        for x in subs:
            r = go(x)
            if r != 'ok':
                return r
        return 'ok'
    return go(e)


class Oracle:
    """pool of (ordering, truth table) pairs evolving by the meaning of the operations"""

    def __init__(self, psize):
        self.pool = [None] * psize

    def step(self, op):
        k = op[0]
        P = self.pool
        if k in ('parse', 'lambda'):
            dst, O, e = op[1], op[2], op[3]
            st = expected_status(e, O)
            if st == 'ok':
                P[dst] = (tuple(O), tt_eval(e))
            return st
        if k == 'node':
            # ['node', k, O, e, spec, expect]: OBDD(<BDDNode built from spec>, O)
            if op[5] == 'ok':
                P[op[1]] = (tuple(op[2]), tt_eval(op[3]))
                return 'ok'
            return 'NodeRejected'
        if k == 'alias':
            P[op[2]] = P[op[1]]
            return 'ok'
        if k in ('and', 'or', 'xor'):
            _, i, j, dst = op[:4]
            a, b = P[i], P[j]
            if a[0] != b[0]:
                return 'RuntimeError'
            P[dst] = (a[0], a[1] & b[1] if k == 'and' else a[1] | b[1] if k == 'or' else a[1] ^ b[1])
            return 'ok'
        if k == 'not':
            _, i, dst = op
            P[dst] = (P[i][0], FULL ^ P[i][1])
            return 'ok'
        if k == 'restrict':
            _, i, v, b, dst = op
            P[dst] = (P[i][0], tt_restrict(P[i][1], v, bool(b)))
            return 'ok'
        if k == 'reparse':
            _, i, dst, _form = op
            P[dst] = P[i]
            return 'ok'
        if k == 'drop':
            P[op[1]] = None
            return 'ok'
        if k == 'gc':
            return 'ok'
        raise ValueError(op)

    def observe(self):
        P = self.pool
        n = len(P)
        tts = ['-' if p is None else tt_str(p[1]) for p in P]
        eq = ''.join('-' if P[i] is None or P[j] is None else ('1' if P[i] == P[j] else '0')
                     for i in range(n) for j in range(n))
        vs = ['-' if p is None else tt_support(p[1]) for p in P]
        ords = ['-' if p is None else list(p[0]) for p in P]
        return tts, eq, vs, ords


# ----------------------------------------------------------------------------------------
# histories: harness form -> worker (text) form and model (s-expression) form
#   ['parse', k, ord, struct, text]   ['lambda', k, args, struct, bodytext(, whole text instead of 'lambda args: body')]
#   ['and'|'or'|'xor', i, j, k]  ['not', i, k]  ['restrict', i, v, value, k]
#   ['reparse', i, k, 'root'|'lambda']  ['drop', i, 'del'|'cycle']  ['gc']
#   ['and'|'or'|'xor', i, j, k, 'aug']   the same step spelled  acc = p[i]; acc &= p[j]; p[k] = acc   (the library defines no
#                                        in-place operators: Python falls back on __and__ and the operand object stays as it is)
#   ['alias', i, k]                      p[k] = p[i]: two slots hold ONE OBDD object (model: p[k] = p[i] & p[i], the same root,
#                                        no new node)
#   ['node', k, ord, struct, spec, expect]   p[k] = OBDD(<BDDNode built bottom-up from spec>, ord); spec = 0 | 1 | [var, low, high];
#                                        expect 'ok' (spec is the reduced ordered diagram of struct under ord; model: parse) or one of
#                                        'root_outside' / 'inner_outside' / 'misordered' (must be refused; model: a refused parse)
# ----------------------------------------------------------------------------------------
NODE_ACCEPT = {'root_outside': ('RuntimeError',),                        # the library's explicit guard in respect_ordering
               'inner_outside': ('RuntimeError', 'KeyError', 'ValueError'),  # unchanged library: KeyError out of ListOrdering.cmp
               'misordered': ('ValueError', 'RuntimeError')}


def spec_of_tt(t, O):
    """the reduced diagram, ordered by O, of the truth table t (which depends on variables of O only)"""
    if t == 0:
        return 0
    if t == FULL:
        return 1
    for n, v in enumerate(O):
        lo, hi = tt_restrict(t, v, False), tt_restrict(t, v, True)
        if lo != hi:
            return [v, spec_of_tt(lo, O[n + 1:]), spec_of_tt(hi, O[n + 1:])]
    raise ValueError('table depends on a variable outside %r' % (O,))


def spec_nodes(spec):
    return 0 if not isinstance(spec, list) else 1 + spec_nodes(spec[1]) + spec_nodes(spec[2])


def spec_names(spec):
    return spec if not isinstance(spec, list) else [NAMES[spec[0]] if isinstance(spec[0], int) else spec[0],
                                                     spec_names(spec[1]), spec_names(spec[2])]


def spec_text(spec):
    if not isinstance(spec, list):
        return 'BDDNode(%d)' % spec
    return 'BDDNode(%r, %s, %s)' % (spec_names(spec)[0], spec_text(spec[1]), spec_text(spec[2]))


def mk_node(k, O, e, expect='ok', outsider=4):
    """the node-route step for the expression e (all of whose variables are in O); None when the diagram of e is too small
    for the wanted kind of ill-formed node"""
    O = list(O)
    if expect == 'misordered':
        spec = spec_of_tt(tt_eval(e), list(reversed(O)))
        if not (isinstance(spec, list) and (isinstance(spec[1], list) or isinstance(spec[2], list))):
            return None
    else:
        spec = spec_of_tt(tt_eval(e), O)
    if expect == 'root_outside':
        if not isinstance(spec, list):
            return None
        spec = [outsider, spec[1], spec[2]]
    elif expect == 'inner_outside':
        if not isinstance(spec, list):
            return None
        if isinstance(spec[2], list):
            spec = [spec[0], spec[1], [outsider, spec[2][1], spec[2][2]]]
        elif isinstance(spec[1], list):
            spec = [spec[0], [outsider, spec[1][1], spec[1][2]], spec[2]]
        else:
            return None
    return ['node', k, O, e, spec, expect]

def mk_parse(k, O, e, text=None, lam=False, full=False):
    if text is None:
        text = render_full(e) if full else render(e)
        check_render(e, text)
    return ['lambda' if lam else 'parse', k, list(O), e, text]


def lambda_text(args, body):
    if not args:
        return 'lambda: ' + body
    return 'lambda ' + ','.join(NAMES[v] for v in args) + ': ' + body


def worker_op(op):
    k = op[0]
    if k == 'parse':
        return ['parse', op[1], [NAMES[v] for v in op[2]], op[4]]
    if k == 'lambda':
        return ['lambda', op[1], op[5] if len(op) > 5 else lambda_text(op[2], op[4])]
    if k == 'restrict':
        return ['restrict', op[1], NAMES[op[2]], op[3], op[4]]
    if k == 'node':
        return ['node', op[1], [NAMES[v] for v in op[2]], spec_names(op[4])]
    return list(op)


def model_op(op):
    k = op[0]
    if k in ('parse', 'lambda'):
        return [k, op[1], list(op[2]), sx(op[3])]
    if k == 'node':
        return ['parse', op[1], list(op[2]), sx(op[3]) if op[5] == 'ok' else ['bad']]
    if k == 'alias':
        return ['and', op[1], op[1], op[2]]
    if k in ('and', 'or', 'xor'):
        return list(op[:4])
    if k == 'restrict':
        return ['restrict', op[1], op[2], 1 if op[3] else 0, op[4]]
    if k == 'reparse':
        return ['reparse', op[1], op[2]]
    if k == 'drop':
        return ['drop', op[1]]
    return list(op)


def norm_ops(ops):
    """ops read back from a JSON replay file"""
    out = []
    for op in ops:
        op = list(op)
        if op[0] in ('parse', 'lambda', 'node'):
            op[3] = tup(op[3])
        out.append(op)
    return out


def op_text(op):
    k = op[0]
    if k == 'parse':
        return 'p[%d]=OBDD(%r,%s)' % (op[1], op[4], [NAMES[v] for v in op[2]])
    if k == 'lambda':
        return 'p[%d]=OBDD(%r)' % (op[1], op[5] if len(op) > 5 else lambda_text(op[2], op[4]))
    if k in ('and', 'or', 'xor'):
        if len(op) > 4:
            return 'acc=p[%d]; acc%s=p[%d]; p[%d]=acc' % (op[1], {'and': '&', 'or': '|', 'xor': '^'}[k], op[2], op[3])
        return 'p[%d]=p[%d]%sp[%d]' % (op[3], op[1], {'and': '&', 'or': '|', 'xor': '^'}[k], op[2])
    if k == 'alias':
        return 'p[%d]=p[%d]' % (op[2], op[1])
    if k == 'node':
        return 'p[%d]=OBDD(%s,%s)' % (op[1], spec_text(op[4]), [NAMES[v] for v in op[2]])
    if k == 'not':
        return 'p[%d]=~p[%d]' % (op[2], op[1])
    if k == 'restrict':
        return 'p[%d]=p[%d].restrict(%r,%r)' % (op[4], op[1], NAMES[op[2]], op[3])
    if k == 'reparse':
        return 'p[%d]=OBDD(str(p[%d]%s)' % (op[2], op[1], '.root),ord)' if op[3] == 'root' else '))')
    if k == 'drop':
        return 'del p[%d]%s' % (op[1], '' if op[2] == 'del' else ' (deferred)')
    return 'gc.collect()'


# ----------------------------------------------------------------------------------------
# running the two sides
# ----------------------------------------------------------------------------------------
def run_library(histories, want_str=False, timeout=900):
    """execute histories (harness form) on the real classes in ONE fresh interpreter"""
    repo = os.environ.get('PMC_REPO', '/repo')
    env = dict(os.environ)
    env['PYTHONPATH'] = repo
    env.setdefault('PYTHONHASHSEED', '0')
    env['PYTHONDONTWRITEBYTECODE'] = '1'
    job = {'want_str': want_str,
           'histories': [{'psize': h['psize'], 'ops': [worker_op(o) for o in h['ops']]} for h in histories]}
    p = subprocess.run([sys.executable, '-W', 'ignore', os.path.join(HERE, 'bddlib.py'), '--worker'],
                       input=json.dumps(job), capture_output=True, text=True, timeout=timeout, env=env)
    if p.returncode != 0:
        raise RuntimeError('library worker crashed rc=%s: %s' % (p.returncode, p.stderr[-1500:]))
    return json.loads(p.stdout)


def run_model(histories, timeout=900):
    from common import model_batch
    cmds = [['bdd', NV, h['psize']] + [model_op(o) for o in h['ops']] for h in histories]
    outs = model_batch(cmds, timeout)
    res = []
    for h, o in zip(histories, outs):
        steps = []
        for s in o:
            status, tts, eqm, same, vs, live, nodup = s
            steps.append({'status': status, 'tt': [str(x) for x in tts], 'eq': ''.join(eqm), 'same': ''.join(same),
                          'vars': ['-' if x == '-' else [int(y) for y in x] for x in vs],
                          'live': int(live), 'nodup': nodup == '1'})
        res.append(steps)
    return res


TOKEN_RE = re.compile(r'\s*([A-Za-z_][A-Za-z_0-9]*|[~&|()01])')


def tokens_of(s):
    """tokens of a printed diagram, in the model's vocabulary"""
    out, i = [], 0
    s = s.rstrip()
    while i < len(s):
        m = TOKEN_RE.match(s, i)
        if not m:
            return None
        c = m.group(1)
        out.append({'(': 'lp', ')': 'rp'}.get(c, c) if c not in NAMES else ['v', NAMES.index(c)])
        i = m.end()
    return out


def model_tokens(x):
    return [['v', int(t[1])] if isinstance(t, list) else str(t) for t in x]


# ----------------------------------------------------------------------------------------
# comparison of one history
# ----------------------------------------------------------------------------------------
class MachineryError(Exception):
    pass


def compare_history(h, lib, mod):
    """-> (violations [(what, step, detail)], per-step info list).  A violation is reported at the
    first differing step only (later steps of a diverged history carry no information)."""
    ops = h['ops']
    psize = h['psize']
    orc = Oracle(psize)
    viol = []
    info = []
    if len(lib) != len(ops) or len(mod) != len(ops):
        raise MachineryError('step counts differ: %d ops, %d lib, %d model' % (len(ops), len(lib), len(mod)))
    prev_live = 0
    for n, op in enumerate(ops):
        L, M = lib[n], mod[n]
        ost = orc.step(op)
        otts, oeq, ovars, oords = orc.observe()
        # --- machinery sanity: proved model against the oracle
        mst = 'SyntaxError' if ost == 'NodeRejected' else ost     # a refused node is mirrored by a refused parse
        if M['status'] != mst or M['tt'] != otts or M['eq'] != oeq or \
                [sorted(v) if v != '-' else v for v in M['vars']] != ovars or not M['nodup']:
            raise MachineryError('model and oracle disagree at step %d (%s): model=%r oracle=%r'
                                 % (n, op_text(op), M, (ost, otts, oeq, ovars)))
        bad = []
        if L.get('hang'):
            viol.append(('the library did not finish this step within %d s' % STEP_TIMEOUT, n,
                         ['no answer from the library within %d s; model: %s' % (STEP_TIMEOUT, M['status'])]))
            break
        if L.get('harness_bug'):
            raise MachineryError('worker: %s at step %d (%s)' % (L['harness_bug'], n, op_text(op)))
        if ost == 'NodeRejected':
            if L['status'] not in NODE_ACCEPT[op[5]]:
                bad.append('status: library %s for a diagram that is %s, expected %s'
                           % (L['status'], op[5].replace('_', ' '), ' or '.join(NODE_ACCEPT[op[5]])))
        elif L['status'] != M['status']:
            bad.append('status: library %s, model %s' % (L['status'], M['status']))
        if L['tt'] != M['tt']:
            bad.append('truth tables: library %s, model %s' % (L['tt'], M['tt']))
        if L['eq'] != M['eq']:
            bad.append('== matrix: library %s, model %s' % (L['eq'], M['eq']))
        ne = ''.join({'1': '0', '0': '1'}.get(c, c) for c in M['eq'])
        if L['ne'] != ne:
            bad.append('!= matrix: library %s, model %s (the complement of ==)' % (L['ne'], ne))
        if L['same'] != M['same']:
            bad.append('root-identity matrix: library %s, model %s' % (L['same'], M['same']))
        lv = [v if isinstance(v, str) else sorted(NAMES.index(x) if x in NAMES else 99 for x in v) for v in L['vars']]
        if lv != ovars:
            bad.append('variables(): library %s, model %s' % (lv, ovars))
        onames = [o if o == '-' else [NAMES[v] for v in o] for o in oords]
        if L['ords'] != onames:
            bad.append('orderings of the pool: library %s, expected %s' % (L['ords'], onames))
        # same ordering: `is` on roots must coincide with ==, both with equality of functions
        for i in range(psize):
            for j in range(psize):
                c = L['eq'][i * psize + j]
                if c != '-' and oords[i] == oords[j] and L['same'][i * psize + j] != c:
                    bad.append('pool[%d]==pool[%d] is %s but root identity is %s' % (i, j, c, L['same'][i * psize + j]))
        if L['dups']:
            bad.append('two live nodes with the same (var, low, high): %s' % L['dups'][:3])
        if L['lost']:
            bad.append('%d node(s) reachable from the pool are missing from the parent sets (unique table)' % L['lost'])
        if 'live_api' in L and (L['live_api'] != L['live'] or not L['api_same']):
            bad.append('BDDNode.nodes() reports %d non-terminal nodes, the parent-set walk %d' % (L['live_api'], L['live']))
        if L.get('left_after_release'):
            bad.append('%d non-terminal node(s) stay alive after every OBDD was released and collected' % L['left_after_release'])
        for i, sh in enumerate(L['shape']):
            if sh != '-' and not (sh[1] and sh[2]):
                bad.append('pool[%d] is not %s' % (i, 'ordered' if not sh[1] else 'reduced (a node has low is high)'))
        # live-count rule (see R.cov['live_count_rule'])
        if L['live'] < M['live']:
            bad.append('live non-terminal nodes: library %d < model %d' % (L['live'], M['live']))
        elif op[0] == 'gc' and L['live'] != M['live']:
            bad.append('after gc.collect(): library keeps %d non-terminal nodes, model %d' % (L['live'], M['live']))
        if bad:
            viol.append((bad[0], n, bad))
            break
        # --- facts for the non-triviality rules and histograms
        twins = False
        for i in range(psize):
            for j in range(i + 1, psize):
                if oeq[i * psize + j] == '1' and otts[i] not in ('0' * NASSIGN, '1' * NASSIGN):
                    twins = True
        info.append({'kind': op[0], 'status': ost, 'lib_status': L['status'], 'twins': twins, 'freed': L['live'] < prev_live,
                     'garbage': L['live'] - M['live'], 'live': L['live'],
                     'shape': L['shape'], 'dst_nodes': None})
        prev_live = L['live']
    return viol, info


def run_batch(histories, want_str=False):
    """library (fresh interpreter) + model + comparison for a list of histories.
    -> list of (violations, info, lib observations if want_str)"""
    lib = run_library(histories, want_str)
    mod = run_model(histories)
    out = []
    for h, l, m in zip(histories, lib, mod):
        v, info = compare_history(h, l, m)
        out.append((v, info, [s.get('strs') for s in l] if want_str else None))
    return out


def _batch_entry(arg):
    fn, payload = arg
    return fn(payload)


def parallel(fn, payloads, jobs=None):
    """map a top-level function over payloads in forked harness processes (each of which starts
    its own fresh library interpreter and model driver)"""
    import multiprocessing as mp
    from concurrent.futures import ProcessPoolExecutor
    jobs = jobs or min(16, os.cpu_count() or 4)
    if len(payloads) <= 1 or jobs <= 1:
        return [fn(p) for p in payloads]
    with ProcessPoolExecutor(max_workers=jobs, mp_context=mp.get_context('fork')) as ex:
        return list(ex.map(_batch_entry, [(fn, p) for p in payloads]))


def chunks(xs, n):
    return [xs[i:i + n] for i in range(0, len(xs), n)]


def shrink_history(h, still_fails, budget=70):
    """drop operations from a failing history while it still fails (and stays executable):
    chunks of halving size first, single operations last"""
    ops = list(h['ops'])
    tries = 0
    size = max(1, len(ops) // 2)
    while size >= 1 and tries < budget:
        i = len(ops) - 1 - size          # the last operation is the failing one: keep it
        changed = False
        while i >= 0 and tries < budget:
            cand = ops[:max(i, 0)] + ops[i + size:]
            if cand and len(cand) < len(ops) and executable(cand, h['psize']):
                tries += 1
                try:
                    if still_fails({'psize': h['psize'], 'ops': cand}):
                        ops = cand
                        changed = True
                except Exception:
                    pass
            i -= size
        if not changed or size == 1:
            size //= 2
    return {'psize': h['psize'], 'ops': ops}


def executable(ops, psize):
    """no operation reads an empty pool slot (the driver refuses such histories)"""
    orc = Oracle(psize)
    for op in ops:
        k = op[0]
        src = []
        if k in ('and', 'or', 'xor'):
            src = [op[1], op[2]]
        elif k in ('not', 'restrict', 'reparse', 'alias'):
            src = [op[1]]
        if any(orc.pool[i] is None for i in src):
            return False
        orc.step(op)
    return True


def fails(h):
    r = run_batch([h])[0]
    return bool(r[0])


def report_violation(R, pid, h, v, extra=None, do_shrink=True):
    what, step, details = v
    if len(R.violations) >= 12:              # enough replays; keep counting
        R.count('further_violations_not_written', 1)
        return
    hh = {'psize': h['psize'], 'ops': h['ops'][:step + 1]}
    if do_shrink and len(R.violations) < 2 and len(hh['ops']) > 1:
        try:
            hh = shrink_history(hh, fails)
        except Exception:
            pass
    data = {'psize': hh['psize'], 'ops': hh['ops'], 'program': [op_text(o) for o in hh['ops']],
            'first_difference': details, 'original_length': step + 1}
    if extra:
        data.update(extra)
    R.violation('%s: %s' % (pid, what), data)


def replay_history(R, data):
    d = data['data']
    h = {'psize': d['psize'], 'ops': norm_ops(d['ops'])}
    lib = run_library([h], want_str=True)[0]
    mod = run_model([h])[0]
    for n, op in enumerate(h['ops']):
        print('step %d: %s' % (n, op_text(op)))
        if op[0] == 'node' and op[5] != 'ok':
            print('  (a diagram that is %s; the model mirrors the refusal by a refused parse: its status SyntaxError stands for '
                  '"refused", the library may answer %s)' % (op[5].replace('_', ' '), ' or '.join(NODE_ACCEPT[op[5]])))
        if op[0] == 'alias':
            print('  (one object in two slots; the model mirrors it by p[%d] = p[%d] & p[%d]: the same root, no new node)' % (op[2], op[1], op[1]))
        print('  library:', json.dumps(lib[n]))
        print('  model  :', json.dumps(mod[n]))
    v, _ = compare_history(h, lib, mod)
    for x in v:
        print('DIFFERENCE at step %d: %s' % (x[1], x[2]))
        R.violation('replayed: ' + x[0], d)
    return v


# ----------------------------------------------------------------------------------------
# random generators (all randomness from the rng that is passed in)
# ----------------------------------------------------------------------------------------
BAD_FRAGMENTS = ['a + b', '-a', 'a < b', 'f(a)', 'a if b else c', 'a ^ b', '2', '+b', 'a == b', '[a]', 'a.b',
                 'a[0]', 'lambda a: a', 'a - b', 'a * b', 'None', '"a"', 'a >> b', '(a, b)', 'a is b', 'a @ b',
                 # every comparison operator (a != b reads like xor, a <= b like implication, a == b like equivalence), chains
                 'a != b', 'a <= b', 'a > b', 'a >= b', 'a in b', 'a not in b', 'a is not b', 'a < b < c', 'a == b == c',
                 'a != b != c', 'a <= b <= c', 'a == b != c', 'a < b == c', '0 <= a', 'a != 1', 'a == (b != c)',
                 'a << b', 'a // b', 'a % b', 'a ** b', 'a / b', '{a}', '{a: b}', 'a, ', '()', '...', "f'{a}'",
                 'a[b:c]', '[a for a in b]', 'a & b < c', '~a == b', '1 == 1', 'a <= 1 & b',
                 # numbers that are EQUAL to 0 or 1 without being the Boolean constants (regression corpus of fix d96627e: '0.0' was
                 # accepted and, as first creator of the terminal, made its value a float, after which every ^ raised TypeError)
                 '0.0', '1.0', '0j', '1e0', '1.', '0.5', '0e0', '1 + 0j', '1_0', '1.0j', '00.0']
BAD_TEXTS = ['a <', '', '(a & b', 'a & b)', 'a &', 'a b', '~', 'a | | b', 'a & (b | c', ')a(', 'a and', 'not', 'a $ b',
             'a ? b', '((a)', 'a &\n& b', 'a &\n b', 'a\nb', 'a & b\nc', 'a\n  & b',
             'not a < b', 'not a != b and c', 'a := b', '*a', 'a !== b', 'a <> b', 'a =< b', 'a => b', 'a not b', 'a is', 'a < < b', 'a !b']
# statements: not expressions, hence not Boolean syntax (regression corpus of fix c730a7d: the parser used to
# read st.body[0].value and built OBDD(b) from 'a = b', OBDD(a) from 'a; b' and from 'return a')
STATEMENT_TEXTS = ['a = b', 'a; b', 'return a', 'x = lambda a: a', 'lambda a: a; 1', 'a += b', 'del a', 'pass', 'import a',
                   'a\nb', 'a & b\nb | c', 'a &= b', 'a: b', 'a: b = c', 'yield a', 'assert a', 'global a', 'a;', 'if a: b',
                   'for a in b: c', 'raise a', 'a = b = c', 'with a: b', 'def f(a): return a', 'lambda a,b: a & b\nlambda a: a']
# spellings Python accepts for one and the same expression
BAD_TEXTS_EXPR_ONLY = ['  a', ' a & b', '\ta']      # unexpected indent as a text of its own, fine as a lambda body
LEXICAL_VARIANTS = ['a\n', 'a # c', '(a\n& b)', 'a &\\\n b', '((a)) | (b)', 'a&b|c', '~ a', 'not(a)', 'a and(b)or c',
                    '0b1 & a', '0x0 | a', 'a  |\tb', '(\na\n)']
# keyword chains of four and more operands (one ast.BoolOp node with that many values), also nested in one another
NARY_TEXTS = ['a and b and c and d', 'a or b or c or d', 'a and b and c and not d', 'not a or b or not c or d',
              'a and b and c and d and a', 'a or b or c or d or not a or not b', 'd and c and b and a and d and c and b and a',
              'a and b and c and d or a and not b and c and not d or not a and not b and not c and not d',
              '(a or b or c or d) and (not a or not b or not c or not d) and (a or not b or c or not d) and (d or a)',
              'a and (b or c or d or a) and c and 1 and d', 'a or 0 or b or False or c or d & a', '1 and 1 and 1 and 1 and a',
              '0 or 0 or 0 or 0 or 0', 'a and b and c and 0 and d', 'not (a and b and c and d)', '~(a or b or c or d) | (a and b and c and d)',
              'a and b and c and d and True and (a | b) and (c | d) and not (a & ~a)', 'c or c or c or c', 'a and b and a and b and a and b']
BAD_FRAGMENTS, BAD_TEXTS, STATEMENT_TEXTS, BAD_TEXTS_EXPR_ONLY, LEXICAL_VARIANTS, NARY_TEXTS = (
    [rn(t) for t in xs] for xs in (BAD_FRAGMENTS, BAD_TEXTS, STATEMENT_TEXTS, BAD_TEXTS_EXPR_ONLY, LEXICAL_VARIANTS, NARY_TEXTS))


def rand_expr(rng, depth, vs, p_kw=0.3, p_const=0.08, p_bad=0.0):
    """random structure over the variable numbers vs"""
    if depth == 0 or rng.random() < 0.18:
        r = rng.random()
        if r < p_const:
            b = rng.random() < 0.5
            text = rng.choice(['1', 'True'] if b else ['0', 'False'])
            return ('c', b, text)
        if r < p_const + p_bad:
            return ('bad', rng.choice(BAD_FRAGMENTS))
        return ('v', rng.choice(vs))
    kw = rng.random() < p_kw
    t = rng.choice(['not', 'and', 'or', 'and', 'or'])
    sub = lambda: rand_expr(rng, depth - 1, vs, p_kw, p_const, p_bad)
    if t == 'not':
        return ('not', sub(), kw)
    if kw:
        q = rng.random()
        n = 2 if q < 0.68 else 3 if q < 0.86 else 4 if q < 0.93 else 5 if q < 0.97 else 6
        return (t + 'l', tuple(sub() for _ in range(n)))
    return (t, sub(), sub())


# ========================================================================================
# the worker: runs inside a fresh interpreter, imports the library under test
# ========================================================================================
STEP_TIMEOUT = 40                    # seconds of wall time one step (operation + observation) may take


class StepTimeout(BaseException):    # not an Exception: the library's own handlers must not swallow it
    pass


def worker_main():
    import gc, signal
    gc.disable()                     # cyclic garbage is collected at the `gc` steps only

    def on_alarm(signum, frame):
        raise StepTimeout()
    signal.signal(signal.SIGALRM, on_alarm)

    def safe(fn):
        """an observer of the library that raises is an observation, not a crash of the harness"""
        try:
            return fn()
        except Exception as e:
            return 'EXC:' + type(e).__name__
    job = json.load(sys.stdin)
    from pyModelChecking.BDD import OBDD, BDDNode
    from pyModelChecking.BDD.BDD import BDDTerminalNode, BDDNonTerminalNode
    want_str = job.get('want_str')
    varnum = {c: i for i, c in enumerate(NAMES)}
    gc.collect()
    gc.freeze()                      # what exists now is not the library's garbage: keep the collector fast

    def is_term(n):
        return isinstance(n, BDDTerminalNode)

    def evaluate(node, m):
        while not is_term(node):
            node = node.high if (m >> varnum.get(node.var, 63)) & 1 else node.low
        return '1' if node.value else '0'

    def walk_up():
        """all nodes kept by the library's own bookkeeping: from the two terminals through the
        weak parent sets; id -> node"""
        seen = {}
        stack = [BDDNode(0), BDDNode(1)]
        while stack:
            n = stack.pop()
            if id(n) in seen:
                continue
            seen[id(n)] = n
            stack.extend(list(n.f_low))
            stack.extend(list(n.f_high))
        return seen

    def walk_down(root):
        seen = {}
        stack = [root]
        while stack:
            n = stack.pop()
            if id(n) in seen:
                continue
            seen[id(n)] = n
            if not is_term(n):
                stack.append(n.low)
                stack.append(n.high)
        return seen

    def observe(pool, status, with_api=True):
        psize = len(pool)
        obs = {'status': status}
        obs['tt'] = ['-' if o is None else ''.join(evaluate(o.root, m) for m in range(NASSIGN)) for o in pool]
        eq, ne, same = [], [], []
        for i in range(psize):
            for j in range(psize):
                a, b = pool[i], pool[j]
                if a is None or b is None:
                    eq.append('-'); ne.append('-'); same.append('-')
                else:
                    r = safe(lambda: a == b)
                    eq.append('1' if r is True else '0' if r is False else '?')
                    r = safe(lambda: a != b)
                    ne.append('1' if r is True else '0' if r is False else '?')
                    same.append('1' if a.root is b.root else '0')
        obs['eq'] = ''.join(eq)
        obs['ne'] = ''.join(ne)
        obs['same'] = ''.join(same)

        def variables_of(o):
            vs = o.variables()
            out = sorted(str(v) for v in vs)
            # the answer is the caller's own set: what the caller does with it must not reach the OBDD (seen at the next observation)
            vs.clear()
            vs.add('zz_callers_own')
            return out
        obs['vars'] = ['-' if o is None else safe(lambda: variables_of(o)) for o in pool]
        obs['ords'] = ['-' if o is None else safe(lambda: list(o.ordering.get_list())) for o in pool]
        up = walk_up()
        nonterm = [n for n in up.values() if not is_term(n)]
        obs['live'] = len(nonterm)
        if with_api:
            api = safe(lambda: BDDNode.nodes())
            if isinstance(api, str):
                obs['live_api'], obs['api_same'] = api, False
            else:
                obs['live_api'] = sum(1 for n in api if not is_term(n))
                obs['api_same'] = set(id(n) for n in api) == set(up)
            del api
        # duplicate (var, low, high) among ALL live non-terminal nodes
        trip = {}
        dups = []
        for n in nonterm:
            key = (n.var, id(n.low), id(n.high))
            if key in trip:
                dups.append('%s ? %s : %s' % (n.var, n.high, n.low))
            trip[key] = n
        obs['dups'] = dups
        # every node reachable from the pool must be findable through the parent sets, and be
        # registered in the parent sets of its children; shape of each pool diagram
        lost = 0
        shapes = []
        for o in pool:
            if o is None:
                shapes.append('-')
                continue
            olist = safe(lambda: list(o.ordering.get_list()))
            order = {v: i for i, v in enumerate(olist)} if isinstance(olist, list) else {}
            down = walk_down(o.root)
            ordered, reduced, internal = 1, 1, 0
            for n in down.values():
                if is_term(n):
                    continue
                internal += 1
                if id(n) not in up or n not in n.low.f_low or n not in n.high.f_high:
                    lost += 1
                if n.low is n.high:
                    reduced = 0
                if n.var not in order:
                    ordered = 0
                for c in (n.low, n.high):
                    if not is_term(c) and not (c.var in order and n.var in order and order[n.var] < order[c.var]):
                        ordered = 0
            shapes.append([internal, ordered, reduced])
            del down
        obs['lost'] = lost
        obs['shape'] = shapes
        if want_str:
            obs['strs'] = ['-' if o is None else [safe(lambda: str(o.root)), safe(lambda: str(o))] for o in pool]
        # what get_list() hands out is the caller's too: editing it must not reach the OBDD (seen at the next observation)
        for o in pool:
            if o is not None:
                safe(lambda: o.ordering.get_list().reverse())
        del up, nonterm, trip
        return obs

    def execute(pool, op, trash):
        k = op[0]
        src = {'and': (1, 2), 'or': (1, 2), 'xor': (1, 2), 'not': (1,), 'restrict': (1,), 'reparse': (1,), 'alias': (1,)}.get(k, ())
        for s in src:
            if pool[op[s]] is None:
                return 'HARNESS:empty slot %d' % op[s]
        try:
            if k == 'parse':
                # the ordering list belongs to the caller, who goes on using it (an OBDD that kept a reference to it,
                # instead of its own copy, would change its printed header / ordering with it)
                lst = list(op[2])
                if op[3] in lst and op[1] % 2 == 0:
                    # the expression is a single variable: build the diagram from a NODE (public route OBDD(BDDNode(v, 0, 1), ordering))
                    # with the name held in a freshly built string object (equal to, but not identical with, the ordering's)
                    pool[op[1]] = OBDD(BDDNode(''.join(list(op[3])), BDDNode(0), BDDNode(1)), lst)
                else:
                    pool[op[1]] = OBDD(op[3], lst)
                lst.reverse()
                lst.append('zz_callers_own')
                del lst[:1]
            elif k == 'lambda':
                pool[op[1]] = OBDD(op[2])
            elif k == 'node':
                def build(spec):
                    if not isinstance(spec, list):
                        return BDDNode(spec)
                    low, high = build(spec[1]), build(spec[2])
                    return BDDNode(''.join(list(spec[0])), low, high)      # the name in a string object of its own
                lst = list(op[2])
                pool[op[1]] = OBDD(build(op[3]), lst)
                lst.reverse()
                lst.append('zz_callers_own')
            elif k == 'alias':
                pool[op[2]] = pool[op[1]]
            elif k in ('and', 'or', 'xor') and len(op) > 4:
                acc = pool[op[1]]
                if k == 'and':
                    acc &= pool[op[2]]
                elif k == 'or':
                    acc |= pool[op[2]]
                else:
                    acc ^= pool[op[2]]
                pool[op[3]] = acc
                del acc
            elif k == 'and':
                pool[op[3]] = pool[op[1]] & pool[op[2]]
            elif k == 'or':
                pool[op[3]] = pool[op[1]] | pool[op[2]]
            elif k == 'xor':
                pool[op[3]] = pool[op[1]] ^ pool[op[2]]
            elif k == 'not':
                pool[op[2]] = ~pool[op[1]]
            elif k == 'restrict':
                pool[op[4]] = pool[op[1]].restrict(op[2], op[3])
            elif k == 'reparse':
                o = pool[op[1]]
                if op[3] == 'root':
                    pool[op[2]] = OBDD(str(o.root), o.ordering)
                else:
                    pool[op[2]] = OBDD(str(o))
                del o
            elif k == 'drop':
                o = pool[op[1]]
                pool[op[1]] = None
                if op[2] == 'cycle' and o is not None:
                    cell = [o]
                    cell.append(cell)     # unreachable cycle: freed by the collector, not by refcounting
                    del cell
                del o
            elif k == 'gc':
                gc.collect()
            else:
                return 'HARNESS:unknown op %r' % (op,)
            return 'ok'
        except Exception as e:
            if isinstance(e, SyntaxError):
                return 'SyntaxError'       # IndentationError/TabError are SyntaxErrors
            return type(e).__name__

    results = []
    for h in job['histories']:
        pool = [None] * h['psize']
        steps = []
        hung = False
        for n, op in enumerate(h['ops']):
            if hung:
                steps.append({'hang': True})
                continue
            try:
                signal.alarm(STEP_TIMEOUT)
                st = execute(pool, op, None)
                # BDDNode.nodes() (the library's own enumeration) is cross-checked at gc steps and every 3rd step
                obs = observe(pool, st, op[0] == 'gc' or n % 3 == 0)
                signal.alarm(0)
            except StepTimeout:
                hung = True
                steps.append({'hang': True})
                continue
            finally:
                signal.alarm(0)
            if st.startswith('HARNESS:'):
                obs['harness_bug'] = st
            steps.append(obs)
        if hung:
            pool = [None] * h['psize']
            results.append(json.dumps(steps))
            continue
        # end of history: release everything; the process-global tables must be empty again
        for i in range(len(pool)):
            pool[i] = None
        gc.collect()
        left = sum(1 for n in walk_up().values() if not is_term(n))
        if steps:
            steps[-1]['left_after_release'] = left
        # kept as text: strings are invisible to the cycle collector, whose runs at the gc steps and at the end of every
        # history would otherwise re-scan all observations gathered so far
        results.append(json.dumps(steps))
        del steps
    sys.stdout.write('[' + ','.join(results) + ']')


if __name__ == '__main__':
    if len(sys.argv) > 1 and sys.argv[1] == '--worker':
        worker_main()
