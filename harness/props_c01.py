"""C01 - CTL model checking returns exactly the satisfying states.
Theorem (Properties/C01.v): C01_exact - for every well-formed total Kripke structure and CTL state
formula the model returns Ok S with S = { s | K,s |= f } under the path semantics of logics.rst.
Correspondence: CTL.modelcheck on live objects vs the extracted model (same presentation)."""
from common import *
from mccheck import *
import props_c01_streams as c01s
LEVEL = 'proof'

KF = {'id': 'KF-print-a', 'what': "CTL.modelcheck memo keyed by printed form: Or(AtomicProposition('(p or q)'), Or('p','q')) is answered as the atom only"}


def known_finding_probe(R):
    """D10 witness: an atom named like a printed subformula collides in the memo table"""
    import pyModelChecking.CTL as CTL
    kd = {'S': [0, 1], 'S0': [], 'R': [(0, 1), (1, 0)], 'L': {0: ['p'], 1: []}}
    K = kd_py(kd)
    f = CTL.Or(CTL.AtomicProposition('(p or q)'), CTL.Or('p', 'q'))
    r = call(lambda: CTL.modelcheck(K, f))
    expected = [0]                       # p or q holds exactly at state 0
    if r[0] == 'ok' and sorted(r[1]) != expected:
        R.known_hits[KF['id']] = 1
        known_finding_line('C01', KF['id'], KF['what'] + ' (got %s, exact answer %s)' % (sorted(r[1]), expected))
    else:
        R.cov['known_finding_no_longer_reproduces'] = KF['id']


def cases(R):
    rng = R.rng
    out = []
    small = list(all_kripkes(1)) + list(all_kripkes(2))
    pool = ctl_formulas_depth(2)
    R.cov['formula_pool_depth2'] = len(pool)
    d1 = ctl_formulas_depth(1)
    # every <=2-state structure x every depth-1 formula, plus a sample of depth 2
    for kd in small:
        for f in d1:
            out.append((kd, f))
    k = len(pool) if R.thorough else 400
    fs = rng.sample(pool, min(k, len(pool))) if not R.thorough else rng.sample(pool, min(6000, len(pool)))
    for f in fs:
        for kd in (small if R.thorough else rng.sample(small, 12)):
            out.append((kd, f))
    if R.thorough:
        k3 = list(all_kripkes(3))
        templ = rng.sample(pool, 120)
        for kd in rng.sample(k3, 4000):
            for f in rng.sample(templ, 6):
                out.append((kd, f))
    for _ in range(60000 if R.thorough else 2500):
        out.append((rand_kripke(rng, rng.randint(1, 6)), rand_ctl(rng, rng.randint(1, 4))))
    return out


def run(R):
    R.rule = ('(Kripke structure, CTL state formula): every structure with <= 2 states over {p,q} x every formula of nesting depth 1, '
              'a sample (all in thorough) of depth-2 formulas, sampled 3-state structures in thorough, random <= 6 states / depth <= 4 '
              '(or/and nodes with 2-3 operands, 4-9 with small probability); '
              'non-trivial = the formula has a temporal operator and the answer is neither empty nor all states; distinct by (structure, formula). '
              'PRESENTATIONS: a sample of the cases is re-run with the states renamed (1-based / sparse / negative ints, strings, tuples with a None '
              'field, mutually unorderable mixed types; the model stays on numbers) and with label containers that are not sets (frozenset, list, '
              'tuple, installed through replace_labelling_function). TEXT: a sample is passed as hand-written concrete syntax with multi-character atom '
              'names (digits, underscores, names beginning with an operator letter / reserved word). LIVE STRUCTURES (mccheck.run_live): sessions on ONE '
              'Kripke object - queries interleaved with edits of its owner through the public API (labels(s) add/discard, replace_labelling_function '
              'with set/frozenset/list/shared containers, add_edge between existing states, a new state with its edges and labels) - with a pool of '
              'formula OBJECTS (composed from shared sub-objects) reused across the calls (now and then also passed to CTLS/LTL.modelcheck); every '
              'answer must equal the proved model on the presentation read back at the time of the call, every formula object must keep its tree, '
              'K must be left alone, and the returned sets are cleared / polluted by the caller after being recorded STACKED NEGATIONS: random formulas with 2-4 negations stacked on random subformulas (under quantifiers, between temporal operators, over derived operators and constants), object and text channel. JOINED ATOM NAMES: atom names of which one is the concatenation / blank- or comma-join / repetition / case variant of others ({p, q} and {pq} are different label sets), most structures with a state of each kind. EDITED FORMULA OBJECTS (props_c01_streams.run_edited): a formula object f is built, then printed / hashed / model checked (or left alone), then EDITED by its owner through the public live operand list (f...subformulas()[i] = g, append, pop, reverse; atom.name = ...; 1-2 edits at random positions, the tree stays a CTL state formula), then checked alone and combined with a copy f_old of what it was before the edit (f.clone() taken before the edit, or rebuilt): f and not f_old, f_old --> f, E(f_old U f), ...; the answer must be that of the proved model on the tree the object has at the time of the call (the harness applies the edits to its own tuple; the tree read back from the object by class names and children must be that tuple); non-trivial = query with a temporal operator answered neither empty nor all. LABEL OBJECTS (run_label_objects): a sample of the cases on structures whose label sets hold objects that are merely == to the atom names - AtomicProposition objects of CTL/PL/LTL/CTLS, instances of a str subclass, mixtures with plain str - installed by the constructor, replace_labelling_function (sets / lists) or labels(s).add, some with renamed states. RAW OPERANDS (run_raw): formulas with over-weighted constants built the documented way from RAW Python operands (True / False / a str given to Not/Or/And/Imply/X/F/G/U/R, binary and/or through & and |, negation through ~): the object must have the intended tree and the answer must be that of the model on it')
    known_finding_probe(R)
    run_print_stream(R, 'C01', 'CTL', 1500 if R.thorough else 150)
    cs = cases(R)
    run_mc(R, 'CTL', cs)
    long_structures(R, 'C01', 'CTL')
    run_mc(R, 'CTL', long_prefix_cases(R.rng, 2000 if R.thorough else 200), label='_long_common_prefix', alias_every=0)
    # or/and nodes with 3-5 (or 1) operands, each a distinct quantified formula
    wide = wide_cases(R.rng, 3000 if R.thorough else 300, 'CTL')
    run_mc(R, 'CTL', wide, label='_wide_connectives')
    # negations stacked (not not phi, not not not phi) at random positions of random formulas
    neg = stacked_negation_cases(R.rng, 3000 if R.thorough else 300, 'CTL')
    run_mc(R, 'CTL', neg, label='_stacked_negations')
    # atom names of which one is the concatenation / join of others: {p, q} and {pq} are different label sets
    run_mc(R, 'CTL', joined_name_cases(R.rng, 3000 if R.thorough else 300, 'CTL'), label='_joined_atom_names')
    rng = R.rng
    # the same cases under other presentations of the structure (states that are not 0..n-1, label containers that are not sets)
    run_mc(R, 'CTL', rng.sample(cs, 20000 if R.thorough else 2400) + wide[::3], label='_renamed_states', alias_every=0, varied=True)
    # the text channel with multi-character atom names
    run_text(R, 'CTL', [c for c in rng.sample(cs, 6000 if R.thorough else 700) + wide[::4] + neg[::3] if all(len(g) > 2 or g[0] not in NARY for g in subformulas(c[1]))])
    # one structure queried, edited by its owner and queried again; formula objects reused
    run_live(R, 'CTL', 4000 if R.thorough else 300)
    # formula objects with a history: built, printed / hashed / checked, edited by their owner through subformulas() / name, checked again
    c01s.run_edited(R, 6000 if R.thorough else 500)
    # label sets holding objects that are == to the atom names (AtomicProposition objects, str subclasses)
    joined = joined_name_cases(rng, 1500 if R.thorough else 150, 'CTL')
    c01s.run_label_objects(R, rng.sample(cs, 8000 if R.thorough else 600) + joined + wide[::5])
    # formula objects built with raw bool / str operands and the overloaded operators, constants over-weighted
    c01s.run_raw(R, c01s.raw_cases(rng, 8000 if R.thorough else 700))


def replay(R, data):
    if data['data'].get('stream') in c01s.STREAMS:
        return c01s.replay_stream(R, data)
    replay_mc(R, data)
