"""C12 - strongly connected components are computed exactly.
Theorem (Properties/C12.v): wf_graph g -> scc_spec g (compute_SCCs g), for every graph.
Correspondence: graph.compute_SCCs on live DiGraph objects vs the extracted model run on the
same presentation (dict order and set iteration order read back from the object)."""
from common import *
from graphgen import *
LEVEL = 'proof'


FORM = [0]


def one_case(V, E, form=None):
    from pyModelChecking.graph import DiGraph, compute_SCCs
    # the graph (V, E) is built in rotating ways: constructor with lists / tuples / one-shot iterators / zip / generators,
    # or incrementally through add_node / add_edge
    FORM[0] += 1
    k = FORM[0] % 6 if form is None else form
    del FORM[1:]
    FORM.append(k)
    def construct():
        if k == 3:
            G = DiGraph(V=iter(list(V)), E=iter(list(E)))
        elif k == 4:
            G = DiGraph(V=tuple(V), E=zip([a for a, _ in E], [b for _, b in E]))
        elif k == 5:
            G = DiGraph(V=list(V), E=(tuple(e) for e in list(E)))
        elif k == 1:
            G = DiGraph()                                   # incremental construction: nodes first, then the edges
            for v in V:
                G.add_node(v)
            for a, b in E:
                G.add_edge(a, b)
        elif k == 2:
            G = DiGraph()                                   # incremental construction: edges first (creating their ends), then the rest
            seen = set()
            for a, b in E:
                G.nodes(), G.sources()                      # the caller looks at the graph between two edits
                G.add_edge(a, b)
                seen.update((a, b))
            for v in V:
                if v not in seen:
                    G.add_node(v)
        else:
            G = DiGraph(V=V, E=E)
        return G
    built = call(construct)
    if built[0] != 'ok':
        return DiGraph(), ('err', 'other:building (V, E) through %s raised %s' % ({1: 'add_node then add_edge calls', 2: 'add_edge calls then add_node', 3: 'iterators', 4: 'tuple / zip', 5: 'list / generator'}.get(k, 'lists'), built[1])), True
    G = built[1]
    if set(G._next) != set(V) | {x for e in E for x in e} or {(a, b) for a, ds in G._next.items() for b in ds} != {tuple(e) for e in E}:
        return G, ('err', 'other:the DiGraph built from (V, E) given as %s is not the graph (V, E)' % {1: 'add_node then add_edge calls', 2: 'add_edge calls then add_node', 3: 'iterators', 4: 'tuple / zip', 5: 'list / generator'}.get(k, 'lists')), True
    before = repr(sorted((repr(k), sorted(map(repr, v))) for k, v in G._next.items()))
    r = call(lambda: [list(c) for c in compute_SCCs(G)])
    after = repr(sorted((repr(k), sorted(map(repr, v))) for k, v in G._next.items()))
    return G, r, before == after


def run_large(R):
    """thousands of nodes (expected partition known in closed form; the model's unary numbers are not run at this size): a chain
    0 -> ... -> n with a back edge n -> n/2 and a second DFS tree hanging into the cycle - the explicit-stack algorithm may not
    depend on path lengths"""
    from pyModelChecking.graph import DiGraph, compute_SCCs
    for n in (5000, 1800):
        h = n // 2
        E = [(i, i + 1) for i in range(n)] + [(n, h)] + [(n + 1, n + 2), (n + 2, h + 1), (n + 2, n + 1)]
        for V in ([], list(range(n + 2, -1, -1))):
            R.evaluations += 1
            G = DiGraph(V=V, E=E)
            r = call(lambda: [sorted(c) for c in compute_SCCs(G)])
            want = sorted([[i] for i in range(h)] + [list(range(h, n + 1))] + [[n + 1, n + 2]])
            if r[0] != 'ok' or sorted(r[1]) != want:
                R.violation('compute_SCCs on a graph with %d nodes %s' % (n + 3, ('raised ' + str(r[1])) if r[0] != 'ok' else 'is not the exact partition'),
                            {'stream': 'large', 'n': n, 'insertion_order': 'edges' if not V else 'reversed nodes',
                             'impl': r if r[0] != 'ok' else ['ok', '%d components, sizes %s' % (len(r[1]), sorted(set(map(len, r[1]))))]})
            else:
                R.nontriv(('large', n, bool(V)))


def run(R):
    R.rule = ('digraphs over nodes 0..n-1 given as (node insertion order, edge list); exhaustive for n<=3 '
              '(+ every 7th 4-node graph in quick, all 65536 in thorough) under 3 insertion orders, random n<=12; '
              'non-trivial = at least one component with >= 2 nodes and at least 2 components; distinct by (order, edge set)')
    rng = R.rng
    run_large(R)
    cases = []
    for n in range(0, 4):
        for E in all_digraphs(n):
            cases.append((list(range(n)), E))
    step = 1 if R.thorough else 7
    for mask in range(0, 1 << 16, step):
        cases.append((list(range(4)), digraph_by_mask(4, mask)))
    # other insertion orders
    extra = []
    for (V, E) in cases[::(1 if R.thorough else 5)]:
        if len(V) >= 2:
            extra.append((list(reversed(V)), list(reversed(E))))
            V2 = V[:]
            rng.shuffle(V2)
            E2 = E[:]
            rng.shuffle(E2)
            extra.append((V2, E2))
    cases += extra
    for _ in range(20000 if R.thorough else 2500):
        n = rng.randint(1, 12)
        V = list(range(n))
        rng.shuffle(V)
        cases.append((V, rand_digraph(rng, n)))
    cmds, meta = [], []
    for (V, E) in cases:
        G, r, unchanged = one_case(V, E)
        meta.append((V, E, r, unchanged, FORM[-1]))
        cmds.append(['scc', graph_sx(G)])
    outs = model_batch_parallel(cmds)
    order_agree = 0
    for (V, E, r, unchanged, form), o in zip(meta, outs):
        R.evaluations += 1
        model_part = set(frozenset(ints(c)) for c in o)
        model_seq = [ints(c) for c in o]
        if r[0] != 'ok':
            R.violation('compute_SCCs raised %s' % r[1], {'V': V, 'E': E, 'impl': r, 'argument_form': form})
            continue
        impl_seq = r[1]
        flat = [x for c in impl_seq for x in c]
        impl_part = set(frozenset(c) for c in impl_seq)
        ok = (len(flat) == len(set(flat)) and impl_part == model_part and unchanged)
        if not ok:
            orc = oracle_sccs(set(V) | {x for e in E for x in e}, E)
            R.violation('compute_SCCs partition differs from the proved model' if unchanged else 'compute_SCCs modified the graph',
                        {'V': V, 'E': E, 'argument_form': form, 'impl': impl_seq, 'model': model_seq,
                         'oracle': sorted(sorted(c) for c in orc), 'impl_wrong_by_oracle': impl_part != orc or len(flat) != len(set(flat))})
            continue
        if impl_seq == model_seq:
            order_agree += 1
        if len(impl_part) >= 2 and any(len(c) >= 2 for c in impl_part):
            R.nontriv((tuple(V), tuple(sorted(E))))
            R.sample({"V": V, "E": E, "components": impl_seq})
    R.cov['internal_agreement'] = {'yield_sequence_identical': order_agree, 'of': R.evaluations}
    R.cov['distribution'] = {'n_nodes_hist': _hist(len(set(V) | {x for e in E for x in e}) for V, E, _, _, _ in meta)}
    R.exhaustive = R.thorough


def _hist(it):
    h = {}
    for x in it:
        h[x] = h.get(x, 0) + 1
    return {str(k): v for k, v in sorted(h.items())}


def replay(R, data):
    d = data['data']
    if d.get('stream') == 'large':
        n0 = len(R.violations)
        run_large(R)
        print('large graphs re-run: %d violation(s)' % (len(R.violations) - n0))
        return
    G, r, unchanged = one_case(d['V'], [tuple(e) for e in d['E']], form=d.get('argument_form', 0))
    o = model_batch([['scc', graph_sx(G)]])[0]
    print('impl :', r)
    print('model:', [ints(c) for c in o])
    print('oracle:', sorted(sorted(c) for c in oracle_sccs(set(d['V']) | {x for e in d['E'] for x in e}, [tuple(e) for e in d['E']])))
    if r[0] != 'ok' or set(frozenset(c) for c in r[1]) != set(frozenset(ints(c)) for c in o) or not unchanged:
        R.violation('replayed', d)
