"""C12 - strongly connected components are computed exactly.
Theorem (Properties/C12.v): wf_graph g -> scc_spec g (compute_SCCs g), for every graph.
Correspondence: graph.compute_SCCs on live DiGraph objects vs the extracted model run on the
same presentation (dict order and set iteration order read back from the object)."""
from common import *
from graphgen import *
import c12_readers as readers
LEVEL = 'proof'


FORM = [0]
CONSTRUCTOR_FORMS = (0, 3, 4, 5)          # the forms of one_case that hand the edge LIST to the constructor
KINDS_OF_BUILD = {1: 'add_node then add_edge calls', 2: 'add_edge calls then add_node', 3: 'iterators', 4: 'tuple / zip', 5: 'list / generator'}


def parts(comps):
    """a sequence of components as a multiset of (node set, length): order-free, works for nodes that cannot be sorted"""
    h = {}
    for c in comps:
        k = (frozenset(c), len(c))
        h[k] = h.get(k, 0) + 1
    return h


def observe_sccs(G):
    """compute_SCCs(G) the way callers use it.  Returns (r, notes): r = ('ok', the components, each COPIED at the moment it
    was yielded) or ('err', enum); notes = what is wrong with the objects that were handed out:
    * the yielded objects are kept while the generator advances and looked at again after it finished (a recycled buffer),
    * list(compute_SCCs(G)) taken as a whole must be the same components,
    * the components belong to the caller: emptying / extending them changes neither G nor what the next evaluation gives."""
    from pyModelChecking.graph import compute_SCCs

    def first():
        held, copies = [], []
        for c in compute_SCCs(G):
            held.append(c)
            copies.append(list(c))
        return held, copies
    r = call(first)
    if r[0] != 'ok':
        return r, []
    held, copies = r[1]
    notes = []
    now = [list(c) for c in held]
    if now != copies:
        notes.append('components changed after they were yielded: collected and read after the generator finished %r, copied at yield time %r' % (now, copies))
    if len(set(map(id, held))) != len(held):
        notes.append('one object is yielded for several components')
    w = call(lambda: list(compute_SCCs(G)))
    if w[0] != 'ok':
        notes.append('list(compute_SCCs(G)) raised %s' % w[1])
    elif parts(w[1]) != parts(copies):
        notes.append('list(compute_SCCs(G)) taken as a whole is %r' % (w[1],))
    for c in held:                                        # the caller consumes / edits what it was given
        if hasattr(c, 'append'):
            del c[:]
            c.append(('edited', 'component'))
        elif hasattr(c, 'add'):
            c.clear()
            c.add(('edited', 'component'))
    again = call(lambda: [list(c) for c in compute_SCCs(G)])
    if again[0] != 'ok' or parts(again[1]) != parts(copies):
        notes.append('after the caller edited the components it had been given, compute_SCCs gives %r' % (again[1],))
    return ('ok', copies), notes


def one_case(V, E, form=None):
    from pyModelChecking.graph import DiGraph, compute_SCCs
    # the graph (V, E) is built in rotating ways: constructor with lists / tuples / one-shot iterators / zip / generators,
    # or incrementally through add_node / add_edge
    FORM[0] += 1
    k = FORM[0] % 6 if form is None else form
    del FORM[1:]
    FORM.append(k)
    def construct():
        if k == 3:
            G = DiGraph(V=iter(list(V)), E=iter(list(E)))
        elif k == 4:
            G = DiGraph(V=tuple(V), E=zip([a for a, _ in E], [b for _, b in E]))
        elif k == 5:
            G = DiGraph(V=list(V), E=(tuple(e) for e in list(E)))
        elif k == 1:
            G = DiGraph()                                   # incremental construction: nodes first, then the edges
            for v in V:
                G.add_node(v)
            for a, b in E:
                G.add_edge(a, b)
        elif k == 2:
            G = DiGraph()                                   # incremental construction: edges first (creating their ends), then the rest
            seen = set()
            for a, b in E:
                G.nodes(), G.sources()                      # the caller looks at the graph between two edits
                G.add_edge(a, b)
                seen.update((a, b))
            for v in V:
                if v not in seen:
                    G.add_node(v)
        else:
            G = DiGraph(V=V, E=E)
        return G
    built = call(construct)
    if built[0] != 'ok':
        return DiGraph(), ('err', 'other:building (V, E) through %s raised %s' % (KINDS_OF_BUILD.get(k, 'lists'), built[1])), True, []
    G = built[1]
    if set(G._next) != set(V) | {x for e in E for x in e} or {(a, b) for a, ds in G._next.items() for b in ds} != {tuple(e) for e in E}:
        return G, ('err', 'other:the DiGraph built from (V, E) given as %s is not the graph (V, E)' % KINDS_OF_BUILD.get(k, 'lists')), True, []
    before = repr(sorted((repr(k), sorted(map(repr, v))) for k, v in G._next.items()))
    r, notes = observe_sccs(G)
    after = repr(sorted((repr(k), sorted(map(repr, v))) for k, v in G._next.items()))
    return G, r, before == after, notes


def run_large(R):
    """thousands of nodes (expected partition known in closed form; the model's unary numbers are not run at this size): a chain
    0 -> ... -> n with a back edge n -> n/2 and a second DFS tree hanging into the cycle - the explicit-stack algorithm may not
    depend on path lengths"""
    from pyModelChecking.graph import DiGraph, compute_SCCs
    for n in (5000, 1800):
        h = n // 2
        E = [(i, i + 1) for i in range(n)] + [(n, h)] + [(n + 1, n + 2), (n + 2, h + 1), (n + 2, n + 1)]
        for V in ([], list(range(n + 2, -1, -1))):
            R.evaluations += 1
            G = DiGraph(V=V, E=E)
            r = call(lambda: [sorted(c) for c in compute_SCCs(G)])
            want = sorted([[i] for i in range(h)] + [list(range(h, n + 1))] + [[n + 1, n + 2]])
            if r[0] != 'ok' or sorted(r[1]) != want:
                R.violation('compute_SCCs on a graph with %d nodes %s' % (n + 3, ('raised ' + str(r[1])) if r[0] != 'ok' else 'is not the exact partition'),
                            {'stream': 'large', 'n': n, 'insertion_order': 'edges' if not V else 'reversed nodes',
                             'impl': r if r[0] != 'ok' else ['ok', '%d components, sizes %s' % (len(r[1]), sorted(set(map(len, r[1]))))]})
            else:
                R.nontriv(('large', n, bool(V)))


def run(R):
    R.rule = ('digraphs over nodes 0..n-1 given as (node insertion order, edge list); exhaustive for n<=3 '
              '(+ every 7th 4-node graph in quick, all 65536 in thorough) under 3 insertion orders, random n<=12; '
              'non-trivial = at least one component with >= 2 nodes and at least 2 components; distinct by (order, edge set). '
              'Every evaluation keeps the YIELDED OBJECTS while the generator advances and reads them again after it finished '
              '(against the copies taken at yield time), takes list(compute_SCCs(G)) as a whole, then edits the components it '
              'was given and evaluates again. Stream "renamed nodes": the graph is renamed through a bijection index -> object '
              '(families: None and falsy values; mutually unorderable ints / strings / tuples / bytes / floats / objects; distinct '
              'nodes with equal str(), 1 next to \'1\'; distinct objects with equal repr() or colliding hash()), all graphs with <= 3 '
              'nodes (<= 2 in quick: all, 3: every 3rd) and random n <= 7, components mapped back through the bijection and '
              'compared with the model on the index graph. Stream "histories": compute -> edit -> compute on several objects: '
              'add_edge between existing nodes / to new nodes, add_node, failing duplicates, clone / reversed / subgraph (work '
              'continues on the derived object or on the original); after EVERY step compute_SCCs of EVERY object of the history '
              'is compared with the model on that object\'s current presentation. Stream "repeated edges": the edge list E '
              'given to the constructor (list / iterator / zip / generator forms; renamed nodes too) names some edges several '
              'times - still the digraph (V, set(E)). Stream "readings" (c12_readers.py): compute_SCCs is a generator, so '
              'evaluations have a lifetime; scripts over 1-2 graph objects (same object / clone / unrelated) and several '
              'evaluation handles: a reader stops after k components (closed, forgotten or kept and resumed later) and the '
              'question is asked again; nested loops (outer x inner over the same or another graph); several evaluations '
              'alive at once read in lockstep (zip) or by a random schedule; evaluation asked for -> graph edited (new edges, '
              'new nodes) -> consumed; random scripts. Every handle must give pairwise disjoint distinct members of the '
              'partition (all of it when read to the end) of its graph at ONE moment: when first read (what the lazy '
              'library does) or when asked for - the model is run on both presentations; a graph is never edited while one of '
              'its evaluations is suspended mid-way. Exhaustive part: every graph with <= 3 nodes (quick: every 2nd with 3) '
              'under stop-after-k-and-ask-again and nested-with-itself')
    rng = R.rng
    run_large(R)
    cases = []
    for n in range(0, 4):
        for E in all_digraphs(n):
            cases.append((list(range(n)), E))
    step = 1 if R.thorough else 7
    for mask in range(0, 1 << 16, step):
        cases.append((list(range(4)), digraph_by_mask(4, mask)))
    # other insertion orders
    extra = []
    for (V, E) in cases[::(1 if R.thorough else 5)]:
        if len(V) >= 2:
            extra.append((list(reversed(V)), list(reversed(E))))
            V2 = V[:]
            rng.shuffle(V2)
            E2 = E[:]
            rng.shuffle(E2)
            extra.append((V2, E2))
    cases += extra
    for _ in range(20000 if R.thorough else 2500):
        n = rng.randint(1, 12)
        V = list(range(n))
        rng.shuffle(V)
        cases.append((V, rand_digraph(rng, n)))
    # repeated edges: E names an edge several times (only the constructor takes an edge LIST; add_edge refuses a second time)
    rng2 = random.Random(R.seed + 123)
    ndup = 0
    for n in range(1, 4):
        for j, E in enumerate(all_digraphs(n)):
            if E and (n < 3 or R.thorough or j % 4 == 0):
                E2 = E + [E[j % len(E)]] if j % 2 else [E[j % len(E)]] + E + [E[-1]]
                cases.append((list(range(n)), E2, CONSTRUCTOR_FORMS[j % 4]))
                ndup += 1
    for _ in range(4000 if R.thorough else 400):
        n = rng2.randint(1, 8)
        V = list(range(n))
        rng2.shuffle(V)
        E = rand_digraph(rng2, n)
        if E:
            E = E + [rng2.choice(E) for _ in range(rng2.randint(1, 3))]
            if rng2.random() < 0.7:
                rng2.shuffle(E)
            cases.append((V, E, rng2.choice(CONSTRUCTOR_FORMS)))
            ndup += 1
    cmds, meta = [], []
    for case in cases:
        V, E = case[0], case[1]
        G, r, unchanged, notes = one_case(V, E, case[2] if len(case) > 2 else None)
        meta.append((V, E, r, unchanged, FORM[-1], notes))
        cmds.append(['scc', graph_sx(G)])
    outs = model_batch_parallel(cmds)
    order_agree = 0
    for (V, E, r, unchanged, form, notes), o in zip(meta, outs):
        R.evaluations += 1
        model_part = set(frozenset(ints(c)) for c in o)
        model_seq = [ints(c) for c in o]
        if r[0] != 'ok':
            R.violation('compute_SCCs raised %s' % r[1], {'V': V, 'E': E, 'impl': r, 'argument_form': form})
            continue
        if notes:
            R.violation('the components handed out by compute_SCCs are not the exact partition for the caller who keeps them: ' + '; '.join(notes),
                        {'V': V, 'E': E, 'argument_form': form, 'impl': r[1], 'model': model_seq, 'handed_out': notes})
            continue
        impl_seq = r[1]
        flat = [x for c in impl_seq for x in c]
        impl_part = set(frozenset(c) for c in impl_seq)
        ok = (len(flat) == len(set(flat)) and impl_part == model_part and unchanged)
        if not ok:
            orc = oracle_sccs(set(V) | {x for e in E for x in e}, E)
            R.violation('compute_SCCs partition differs from the proved model' if unchanged else 'compute_SCCs modified the graph',
                        {'V': V, 'E': E, 'argument_form': form, 'impl': impl_seq, 'model': model_seq,
                         'oracle': sorted(sorted(c) for c in orc), 'impl_wrong_by_oracle': impl_part != orc or len(flat) != len(set(flat))})
            continue
        if impl_seq == model_seq:
            order_agree += 1
        if len(impl_part) >= 2 and any(len(c) >= 2 for c in impl_part):
            R.nontriv((tuple(V), tuple(sorted(E))))
            R.sample({"V": V, "E": E, "components": impl_seq})
    R.cov['internal_agreement'] = {'yield_sequence_identical': order_agree, 'of': R.evaluations}
    R.cov['distribution'] = {'n_nodes_hist': _hist(len(set(V) | {x for e in E for x in e}) for V, E, _, _, _, _ in meta),
                             'edge_lists_with_repeated_edges': ndup}
    run_renamed(R)
    run_chains(R)
    run_readers(R)
    R.exhaustive = R.thorough


def renamed_case(family, picks, V, E):
    """(V, E) over indices; the library sees the renamed graph; observations come back in index space"""
    from pyModelChecking.graph import DiGraph
    objs = node_objects(family, picks)
    num = index_of(objs)
    built = call(lambda: DiGraph(V=[objs[i] for i in V], E=[(objs[a], objs[b]) for a, b in E]))
    if built[0] != 'ok':
        return None, ('err', 'other:DiGraph(V, E) raised %s' % built[1]), True, [], objs
    G = built[1]
    before = [[num(k), sorted((num(d) for d in ds), key=str)] for k, ds in G._next.items()]
    r, notes = observe_sccs(G)
    after = [[num(k), sorted((num(d) for d in ds), key=str)] for k, ds in G._next.items()]
    g = graph_sx(G, num)
    if r[0] == 'ok':
        r = ('ok', [[num(x) for x in c] for c in r[1]])
    return g, r, before == after, notes, objs


def renamed_bad(g, r, unchanged, notes, o):
    """what is wrong with one renamed evaluation (empty = agrees with the model)"""
    if r[0] != 'ok':
        return ['compute_SCCs raised %s' % r[1]]
    flat = [x for c in r[1] for x in c]
    bad = []
    if any(not isinstance(x, int) for x in flat):
        bad.append('a component contains an object that is not a node of G')
    elif len(flat) != len(set(flat)) or set(frozenset(c) for c in r[1]) != set(frozenset(ints(c)) for c in o):
        bad.append('partition differs from the proved model')
    if not unchanged:
        bad.append('G modified')
    return bad + list(notes)


def run_renamed(R):
    rng = random.Random(R.seed + 12)
    cases = []
    j = 0
    for family in sorted(NODE_FAMILIES):
        for n in range(1, 4):
            for E in all_digraphs(n):
                j += 1
                if n == 3 and not R.thorough and j % 3:
                    continue
                V = list(range(n))
                if j % 2:
                    V.reverse()
                cases.append((family, rotated_picks(family, n, j), V, E))
        for _ in range(3000 if R.thorough else 260):
            n = rng.randint(2, 7)
            V = list(range(n))
            rng.shuffle(V)
            E = rand_digraph(rng, n)
            rng.shuffle(E)
            cases.append((family, rand_picks(rng, family, n), V, E))
        for _ in range(400 if R.thorough else 40):                  # the edge list names some edges several times
            n = rng.randint(2, 6)
            V = list(range(n))
            rng.shuffle(V)
            E = rand_digraph(rng, n, 0.4) or [(0, n - 1)]
            E = E + [rng.choice(E) for _ in range(rng.randint(1, 3))]
            rng.shuffle(E)
            cases.append((family, rand_picks(rng, family, n), V, E))
    cmds, meta = [], []
    for (family, picks, V, E) in cases:
        g, r, unchanged, notes, objs = renamed_case(family, picks, V, E)
        if g is None or not ints_only(g):
            R.evaluations += 1
            R.violation('a graph over non-int node objects (%s) cannot be built / read back: %s' % (family, r[1] if g is None else g),
                        {'stream': 'renamed nodes', 'family': family, 'picks': picks, 'V': V, 'E': E, 'nodes': list(map(repr, objs))})
            continue
        cmds.append(['scc', g])
        meta.append((family, picks, V, E, g, r, unchanged, notes, objs))
    outs = model_batch_parallel(cmds)
    hist = {}
    for (family, picks, V, E, g, r, unchanged, notes, objs), o in zip(meta, outs):
        R.evaluations += 1
        bad = renamed_bad(g, r, unchanged, notes, o)
        if bad:
            R.violation('compute_SCCs on a graph whose nodes are not ints (%s): %s' % (family, '; '.join(bad)),
                        {'stream': 'renamed nodes', 'family': family, 'picks': picks, 'V': V, 'E': E, 'nodes': list(map(repr, objs)),
                         'impl_in_indices': r, 'model': [ints(c) for c in o], 'differs': bad})
            continue
        hist[family] = hist.get(family, 0) + 1
        if len(o) >= 2 and any(len(c) >= 2 for c in o):
            R.nontriv(('renamed', family, tuple(map(tuple, picks)), tuple(V), tuple(sorted(E))))
    R.cov['renamed_node_families'] = hist


def chain_observer(log):
    def observe(G, i):
        before = repr(sorted((repr(k), sorted(map(repr, v))) for k, v in G._next.items()))
        # the caller uses the read-only API on the graph before asking for its components (none of these may change G)
        ks = list(G._next)
        call(lambda: (G.nodes(), G.edges(), G.sources()))
        if ks:
            call(lambda: G.get_reachable_set_from([ks[i % len(ks)]]))
            call(lambda: G.get_reachable_set_from(list(ks)))
        r, notes = observe_sccs(G)
        after = repr(sorted((repr(k), sorted(map(repr, v))) for k, v in G._next.items()))
        return {'sccs': list(r), 'notes': notes, 'unchanged': before == after}
    return observe


def chain_check(R, chain, steps, shared, model):
    """compare every observation of one history with the model on the presentation of the observed object at that moment;
    model: presentation -> model components.  Returns the description of the first disagreement (None = agrees)"""
    for k, st in enumerate(steps):
        for (i, p, ob) in st['obs']:
            if not ints_only(p):
                return 'after step %d object %d is no longer a graph over the nodes it was given: %r' % (k, i, p)
            o = model(p)
            r = ob['sccs']
            bad = renamed_bad(p, r, ob['unchanged'], ob['notes'], o)
            if bad:
                return ('after step %d (%s applied to object %d: %s) compute_SCCs of object %d (now %r): %s; impl %r, model %r'
                        % (k, st['op'], st['target'], st['outcome'], i, p, '; '.join(bad), r[1], [ints(c) for c in o]))
    return None


def run_chains(R, only=None):
    rng = random.Random(R.seed + 1212)
    chains = [only] if only else [rand_chain(rng, nmax=5, kmax=5) for _ in range(4000 if R.thorough else 450)]
    runs = []
    cmds, where = [], {}
    for ch in chains:
        steps, shared, _ = exec_chain(ch, chain_observer(None), call)
        runs.append((ch, steps, shared))
        for st in steps:
            for (i, p, ob) in st['obs']:
                if ints_only(p):
                    key = sx_str(p)
                    if key not in where:
                        where[key] = len(cmds)
                        cmds.append(['scc', p])
    outs = model_batch_parallel(cmds)
    kinds = {}
    first = None
    for ch, steps, shared in runs:
        R.evaluations += sum(len(st['obs']) for st in steps)
        what = chain_check(R, ch, steps, shared, lambda p: outs[where[sx_str(p)]])
        if what:
            R.violation('compute -> edit -> compute: ' + what, {'stream': 'histories', 'chain': ch, 'disagreement': what})
            first = first or what
            continue
        for st in steps:
            kinds[st['op'][0]] = kinds.get(st['op'][0], 0) + 1
        if any(st['op'][0] == 'edge' and st['outcome'] == 'ok' for st in steps):
            R.nontriv(('history', json.dumps(ch, sort_keys=True)))
    R.cov['histories'] = {'histories': len(chains), 'steps_by_kind': kinds, 'distinct_model_evaluations': len(cmds)}
    return first


def readers_cases(R):
    rng = random.Random(R.seed + 121212)
    cases = []
    for n in range(1, 4):                                           # small graphs, every one: stop after k and ask again; nested with itself
        for j, E in enumerate(all_digraphs(n)):
            if n == 3 and not R.thorough and j % 2:
                continue
            V = list(range(n))
            if j % 3 == 1:
                V.reverse()
            g = {'V': V, 'E': [list(e) for e in E]}
            cases.append(readers.pattern_abandon(g, [(j % (n + 1), ('keep', 'drop', 'close', 'keep')[(j // (n + 1)) % 4])], j % 5 != 0))
            if j % 2 == 0 or n < 3:
                cases.append(readers.pattern_nested([g], 0, 0, n, readers.ALL if j % 7 else 1))
    for pat in readers.PATTERNS:
        for _ in range(3000 if R.thorough else 260):
            cases.append(readers.rand_reading(rng, 5, pat))
    return cases


def readers_eval(R, case, handles, notes, model):
    bad = list(notes)
    for i, h in enumerate(handles):
        b = readers.reader_bad(h, model)
        if b:
            bad.append('evaluation %d (of graph object %d) %s' % (i, h['g'], b))
    return bad


def run_readers(R, only=None):
    cases = [only] if only else readers_cases(R)
    runs, cmds, where = [], [], {}
    for case in cases:
        r = call(lambda: readers.exec_reading(case, call))
        runs.append((case, r))
        if r[0] == 'ok':
            for p in readers.presentations(r[1][0]):
                key = sx_str(p)
                if key not in where:
                    where[key] = len(cmds)
                    cmds.append(['scc', p])
    outs = model_batch_parallel(cmds)
    model = lambda p: outs[where[sx_str(p)]]
    hist, first, skipped, nh = {}, None, 0, 0
    for case, r in runs:
        if r[0] != 'ok':
            R.evaluations += 1
            R.violation('a reading of compute_SCCs could not be carried out: building its graphs raised %s' % r[1], {'stream': 'readings', 'case': case})
            first = first or r[1]
            continue
        handles, notes, sk = r[1]
        R.evaluations += len(handles)
        bad = readers_eval(R, case, handles, notes, model)
        if bad:
            R.violation('compute_SCCs read the way callers read a generator (%s): %s' % (case['pattern'], '; '.join(bad[:3])),
                        {'stream': 'readings', 'case': case, 'differs': bad,
                         'handles': [{'graph_object': h['g'], 'read': h['copies'], 'to_the_end': h['exhausted'], 'graph_when_asked': h['at_new'],
                                      'graph_when_first_read': h['at_first']} for h in handles]})
            first = first or bad
            continue
        skipped += sk
        nh += len(handles)
        hist[case['pattern']] = hist.get(case['pattern'], 0) + 1
        if len(handles) >= 2 and any(len(c) >= 2 for h in handles for c in h['copies']):
            R.nontriv(('reading', json.dumps(case, sort_keys=True)))
    if not only:
        R.cov['readings'] = {'by_pattern': hist, 'evaluation_handles': nh, 'edits_skipped_because_an_evaluation_was_suspended': skipped,
                             'distinct_model_evaluations': len(cmds)}
    return first, runs, model


def _hist(it):
    h = {}
    for x in it:
        h[x] = h.get(x, 0) + 1
    return {str(k): v for k, v in sorted(h.items())}


def replay(R, data):
    d = data['data']
    if d.get('stream') == 'large':
        n0 = len(R.violations)
        run_large(R)
        print('large graphs re-run: %d violation(s)' % (len(R.violations) - n0))
        return
    if d.get('stream') == 'renamed nodes':
        g, r, unchanged, notes, objs = renamed_case(d['family'], d['picks'], d['V'], [tuple(e) for e in d['E']])
        print('nodes:', objs)
        print('impl (indices):', r, '| G unchanged:', unchanged, '| handed-out objects:', notes or 'fine')
        if g is None or not ints_only(g):
            R.violation('replayed', d)
            return
        o = model_batch([['scc', g]])[0]
        print('model:', [ints(c) for c in o])
        if renamed_bad(g, r, unchanged, notes, o):
            R.violation('replayed', d)
        return
    if d.get('stream') == 'readings':
        what, runs, model = run_readers(R, only=d['case'])
        print('reading:', d['case'])
        for case, r in runs:
            if r[0] != 'ok':
                print('impl : raised', r[1])
                continue
            for i, h in enumerate(r[1][0]):
                print('evaluation %d of graph object %d: impl read %r (to the end: %s)' % (i, h['g'], h['copies'], h['exhausted']))
                print('    graph when asked for  %r -> model %r' % (h['at_new'], [ints(c) for c in model(h['at_new'])]))
                if h['at_first'] is not None:
                    print('    graph when first read %r -> model %r' % (h['at_first'], [ints(c) for c in model(h['at_first'])]))
            print('notes:', r[1][1] or 'none')
        print('disagreement:', what or 'none')
        return
    if d.get('stream') == 'histories':
        what = run_chains(R, only=d['chain'])
        print('history:', d['chain'])
        print('disagreement:', what or 'none')
        return
    G, r, unchanged, notes = one_case(d['V'], [tuple(e) for e in d['E']], form=d.get('argument_form', 0))
    o = model_batch([['scc', graph_sx(G)]])[0]
    print('impl :', r)
    print('handed-out objects:', notes or 'fine')
    print('model:', [ints(c) for c in o])
    print('oracle:', sorted(sorted(c) for c in oracle_sccs(set(d['V']) | {x for e in d['E'] for x in e}, [tuple(e) for e in d['E']])))
    if r[0] != 'ok' or set(frozenset(c) for c in r[1]) != set(frozenset(ints(c)) for c in o) or not unchanged or notes:
        R.violation('replayed', d)
