"""C13, further streams (second audit): graphs that are bigger than the requested node set by a large factor ('medium' stream),
and graphs that are instances of classes DERIVED from DiGraph ('subclasses' stream). Same observables and the same proved
model as props_c13.one_case; used by props_c13.run / replay."""
from common import *
from graphgen import *


def _gset(G):
    return (sorted(G._next.keys()), sorted((s, d) for s, ds in G._next.items() for d in ds))


def _mset(g):
    return (sorted(int(k) for k, _ in g), sorted((int(k), int(d)) for k, ds in g for d in ds))


def _snap(G):
    return sorted(((repr(k), sorted(map(repr, v))) for k, v in G._next.items()))


def lite_obs(G, X):
    """the four operations on a live graph object (any class), canonicalised; aliasing with G; G before/after"""
    from pyModelChecking.graph import DiGraph
    s0 = _snap(G)
    cells = set(id(v) for v in G._next.values()) | {id(G._next)}
    obs = {'presentation': graph_sx(G)}
    r = call(lambda: G.get_reachable_set_from(list(X)))
    obs['reach'] = ('ok', sorted(r[1])) if r[0] == 'ok' else r
    shares = []
    for nm, op in (('rev', lambda: G.get_reversed_graph()), ('sub', lambda: G.get_subgraph(list(X))), ('clone', lambda: G.clone())):
        r = call(op)
        if r[0] == 'ok' and not isinstance(r[1], DiGraph):
            r = ('err', 'other:the result is a %s, not a directed graph' % type(r[1]).__name__)
        obs[nm] = ('ok', _gset(r[1])) if r[0] == 'ok' else r
        if r[0] == 'ok':
            H = r[1]
            if id(H._next) in cells or any(id(v) in cells for v in H._next.values()):
                shares.append(nm)
            if nm == 'rev':
                rr = call(lambda: _gset(H.get_reversed_graph()))
                obs['revrev'] = rr
            # the result is the caller's: editing it through the public API leaves G alone (checked by 'unchanged' below)
            call(lambda: H.add_edge(('fresh', nm), ('fresh', 0)))
            hn = list(H._next)
            call(lambda: H.add_edge(hn[0], ('fresh', 1)))
    obs['shares'] = shares
    obs['unchanged'] = (_snap(G) == s0)
    return obs


def lite_cmds(g, X):
    return [['reach', g, list(X)], ['rev', g], ['sub', g, list(X)], ['clone', g]]


def lite_bad(obs, g, outs):
    o_reach, o_rev, o_sub, o_clone = outs
    m = {'reach': ('ok', sorted(ints(o_reach[1]))) if o_reach[0] == 'ok' else ('err', o_reach[1]),
         'rev': ('ok', _mset(o_rev)), 'sub': ('ok', _mset(o_sub)), 'clone': ('ok', _mset(o_clone)), 'revrev': ('ok', _mset(g))}
    bad = [k for k in ('reach', 'rev', 'sub', 'clone', 'revrev') if tuple(obs.get(k, ())) != tuple(m[k])]
    if obs['shares']:
        bad.append('aliasing (%s)' % ','.join(obs['shares']))
    if not obs['unchanged']:
        bad.append('G modified')
    return bad, m


# ------------------------------------------------------------------------------------------------------------------
# medium graphs: 16 .. 200 nodes, node sets from 'one node' to 'all nodes' (the graph may be >= 16 times the request)
# ------------------------------------------------------------------------------------------------------------------
SHAPES = ('ring', 'ring with chords', 'sparse random', 'star', 'chains and isolated nodes', 'dense random')


def medium_graph(rng, shape, n):
    if shape == 'ring':
        E = [(i, (i + 1) % n) for i in range(n)]
    elif shape == 'ring with chords':
        E = [(i, (i + 1) % n) for i in range(n)] + [(rng.randrange(n), rng.randrange(n)) for _ in range(n // 4)]
    elif shape == 'sparse random':
        E = [(i, j) for i in range(n) for j in range(n) if rng.random() < 1.5 / n]
    elif shape == 'star':
        E = [(0, i) for i in range(1, n) if i % 3] + [(i, 0) for i in range(1, n) if i % 3 == 0]
    elif shape == 'chains and isolated nodes':
        E = [(i, i + 1) for i in range(n - 1) if i % 5 not in (3, 4)]
    else:
        E = [(i, j) for i in range(n) for j in range(n) if rng.random() < (0.2 if n <= 72 else 0.04)]
    return sorted(set(E))


def medium_X(rng, kind, n, E):
    if kind == 'few nodes, some adjacent':
        a, b = rng.choice(E) if E else (0, 0)
        return list(dict.fromkeys([a, b] + rng.sample(range(n), rng.randint(0, 3))))
    if kind == 'few nodes':
        return rng.sample(range(n), rng.randint(1, 4))
    if kind == 'a sixteenth of the nodes':
        return rng.sample(range(n), max(1, n // 16))
    if kind == 'a seventeenth .. a fifteenth':
        return rng.sample(range(n), max(1, rng.choice([n // 17, n // 15, n // 16 + 1])))
    if kind == 'few nodes and foreign ones':
        return rng.sample(range(n), rng.randint(1, 3)) + [n + 3, n + 9][:rng.randint(1, 2)]
    if kind == 'half':
        return rng.sample(range(n), n // 2)
    if kind == 'a contiguous range':
        a = rng.randrange(n)
        return list(range(a, min(n, a + rng.randint(1, 6))))
    return list(range(n))


X_KINDS = ('few nodes, some adjacent', 'few nodes', 'a sixteenth of the nodes', 'a seventeenth .. a fifteenth',
           'few nodes and foreign ones', 'half', 'a contiguous range', 'all')


def medium_case(V, E, X):
    from pyModelChecking.graph import DiGraph
    G = DiGraph(V=V, E=E)
    obs = lite_obs(G, X)
    # the same request as other collections (one-shot ones for get_subgraph only)
    forms = []
    if obs['sub'][0] == 'ok':
        xs = list(X)
        for form, mk in (('tuple', tuple), ('set', set), ('iterator', iter), ('generator expression', lambda x: (v for v in x)),
                         ('dict keys view', lambda x: dict.fromkeys(x).keys())):
            r = call(lambda: _gset(G.get_subgraph(mk(xs))))
            if tuple(r) != tuple(obs['sub']):
                forms.append('get_subgraph(%s) gives %s' % (form, r[1]))
        if xs and sorted(xs) == list(range(min(xs), max(xs) + 1)):
            r = call(lambda: _gset(G.get_subgraph(range(min(xs), max(xs) + 1))))
            if tuple(r) != tuple(obs['sub']):
                forms.append('get_subgraph(range) gives %s' % (r[1],))
            if obs['reach'][0] == 'ok':
                r = call(lambda: sorted(G.get_reachable_set_from(range(min(xs), max(xs) + 1))))
                if tuple(r) != tuple(obs['reach']):
                    forms.append('get_reachable_set_from(range) gives %s' % (r[1],))
    obs['forms'] = forms
    return obs


def run_medium(R, only=None):
    rng = random.Random(R.seed + 1317)
    cases = []
    if only:
        cases = [only]
    else:
        for k in range(1200 if R.thorough else 144):
            shape = SHAPES[k % len(SHAPES)]
            n = rng.randint(100, 200) if k % 13 == 12 else rng.randint(16, 72)
            E = medium_graph(rng, shape, n)
            V = list(range(n))
            rng.shuffle(V)
            cases.append({'shape': shape, 'V': V, 'E': [list(e) for e in E], 'X': medium_X(rng, X_KINDS[(k // len(SHAPES) + k) % len(X_KINDS)], n, E),
                          'X_kind': X_KINDS[(k // len(SHAPES) + k) % len(X_KINDS)]})
    cmds, meta = [], []
    for c in cases:
        obs = medium_case(c['V'], [tuple(e) for e in c['E']], c['X'])
        g = obs.pop('presentation')
        cmds += lite_cmds(g, c['X'])
        meta.append((c, obs, g))
    outs = model_batch_parallel(cmds)
    hist, ratio = {}, {'graph >= 16 x request': 0, 'graph < 16 x request': 0}
    nviol = 0
    for i, (c, obs, g) in enumerate(meta):
        R.evaluations += 1
        bad, m = lite_bad(obs, g, outs[4 * i:4 * i + 4])
        if obs['forms']:
            bad.append('argument forms: ' + '; '.join(obs['forms']))
        if bad:
            nviol += 1
            R.violation('graph much bigger than the requested node set (%s, %d nodes, X: %s): differs from the proved model: %s'
                        % (c['shape'], len(c['V']), c['X_kind'], ','.join(bad)),
                        {'stream': 'medium', 'case': c, 'impl': {k: (v if k in ('reach', 'forms', 'shares', 'unchanged') or v[0] != 'ok' else
                                                                   ['ok', 'graph with %d nodes, %d edges' % (len(v[1][0]), len(v[1][1]))]) for k, v in obs.items()},
                         'impl_subgraph': obs['sub'], 'model_subgraph': m['sub'], 'differs': bad})
            continue
        hist[c['shape']] = hist.get(c['shape'], 0) + 1
        inside = len(set(c['X']) & set(c['V']))
        ratio['graph >= 16 x request' if 16 * inside <= len(c['V']) else 'graph < 16 x request'] += 1
        R.nontriv(('medium', tuple(c['V']), tuple(map(tuple, c['E'])), tuple(c['X'])))
    R.cov['medium_graphs'] = {'by_shape': hist, 'by_size_ratio': ratio}
    return nviol


# ------------------------------------------------------------------------------------------------------------------
# instances of classes derived from DiGraph
# ------------------------------------------------------------------------------------------------------------------
def subclasses():
    from pyModelChecking.graph import DiGraph

    class Plain(DiGraph):
        pass

    class RoadMap(DiGraph):
        """the constructor needs an argument of its own"""
        def __init__(self, name, V=None, E=None):
            super(RoadMap, self).__init__(V, E)
            self.name = name

    class Owned(DiGraph):
        """keyword-only constructor"""
        def __init__(self, *, owner, V=None, E=None):
            super(Owned, self).__init__(V=V, E=E)
            self.owner = owner

    class EdgesFirst(DiGraph):
        """the constructor takes the collections in the other order"""
        def __init__(self, E=None, V=None):
            super(EdgesFirst, self).__init__(V, E)

    class Rooted(DiGraph):
        """the constructor always provides a root node"""
        def __init__(self, V=None, E=None, root=0):
            super(Rooted, self).__init__(V, E)
            if root not in self._next:
                self.add_node(root)

    class Slotted(DiGraph):
        """further state next to the adjacency"""
        def __init__(self, V=None, E=None):
            super(Slotted, self).__init__(V, E)
            self.weights = dict(((a, b), 1) for a in self._next for b in self._next[a])

    return {'Plain(DiGraph)': lambda V, E: Plain(V=V, E=E), 'RoadMap(DiGraph), constructor needs a name': lambda V, E: RoadMap('north', V, E),
            'Owned(DiGraph), keyword-only constructor': lambda V, E: Owned(owner='me', V=V, E=E),
            'EdgesFirst(DiGraph), constructor takes (E, V)': lambda V, E: EdgesFirst(E, V),
            'Rooted(DiGraph), constructor always adds node 0': lambda V, E: Rooted(V, E),
            'Slotted(DiGraph), further attributes': lambda V, E: Slotted(V, E)}


TABLEAU_FORMULAS = ('X p', 'p U q', 'X X p', 'not (p U q)', 'X (p U q)')


def library_graph(kind, V, E):
    """graphs of the library's own derived classes over the same (V, E): Kripke needs a total relation (self loops are added
    to the sinks); the LTL tableau of a formula over that structure (its nodes are ints)"""
    from pyModelChecking.kripke import Kripke
    from pyModelChecking import CTLS
    tot = list(E) + [(v, v) for v in V if not any(a == v for a, _ in E)]
    L = dict((v, ['p'] if v % 2 == 0 else (['q'] if v % 3 == 0 else [])) for v in V)
    K = Kripke(S=list(V), S0=list(V)[:1], R=tot, L=L)
    if kind == 'Kripke':
        return K
    from pyModelChecking.LTL.model_checking import _Tableu
    p, q = CTLS.AtomicProposition('p'), CTLS.AtomicProposition('q')
    f = {'X p': CTLS.X(p), 'p U q': CTLS.U(p, q), 'X X p': CTLS.X(CTLS.X(p)), 'not (p U q)': CTLS.Not(CTLS.U(p, q)),
         'X (p U q)': CTLS.X(CTLS.U(p, q))}[kind[len('LTL tableau of '):]]
    return _Tableu(K, formula=f)


def build(kind, V, E):
    table = subclasses()
    if kind in table:
        return table[kind](list(V), [tuple(e) for e in E])
    return library_graph(kind, list(V), [tuple(e) for e in E])


def run_subclasses(R, only=None):
    rng = random.Random(R.seed + 1319)
    kinds = sorted(subclasses()) + ['Kripke'] + ['LTL tableau of ' + f for f in TABLEAU_FORMULAS]
    cases = []
    if only:
        cases = [only]
    else:
        for k in range(960 if R.thorough else 132):
            kind = kinds[k % len(kinds)]
            n = rng.randint(1, 3) if kind.startswith('LTL') else rng.randint(1, 7)
            E = rand_digraph(rng, n)
            V = list(range(1, n + 1)) if kind.startswith('Rooted') and rng.random() < 0.7 else list(range(n))
            E = [(V[a], V[b]) for a, b in E]
            cases.append({'class': kind, 'V': V, 'E': [list(e) for e in E], 'X_seed': rng.randrange(1 << 30)})
    cmds, meta, skipped = [], [], 0
    for c in cases:
        b = call(lambda: build(c['class'], c['V'], c['E']))
        if b[0] != 'ok':
            # the graph could not be built at all: nothing to ask (never happens for the local classes)
            skipped += 1
            if not c['class'].startswith('LTL') and c['class'] != 'Kripke':
                R.violation('a graph of class %s could not be constructed: %s' % (c['class'], b[1]), {'stream': 'subclasses', 'case': c})
            continue
        G = b[1]
        nodes = sorted(G._next)
        rx = random.Random(c['X_seed'])
        X = rx.sample(nodes, rx.randint(0, len(nodes))) + ([max(nodes + [0]) + 5] if rx.random() < 0.2 else [])
        obs = lite_obs(G, X)
        g = obs.pop('presentation')
        if not ints_only(g):
            skipped += 1
            continue
        cmds += lite_cmds(g, X)
        meta.append((c, X, obs, g))
    outs = model_batch_parallel(cmds)
    hist, nviol = {}, 0
    for i, (c, X, obs, g) in enumerate(meta):
        R.evaluations += 1
        bad, m = lite_bad(obs, g, outs[4 * i:4 * i + 4])
        if bad:
            nviol += 1
            R.violation('graph object of a class derived from DiGraph (%s): differs from the proved model: %s' % (c['class'], ','.join(bad)),
                        {'stream': 'subclasses', 'case': c, 'graph': g, 'X': X, 'impl': obs, 'model': m, 'differs': bad})
            continue
        hist[c['class']] = hist.get(c['class'], 0) + 1
        if len(g) > 1 and any(ds for _, ds in g):
            R.nontriv(('subclass', c['class'], sx_str(g), tuple(X)))
    R.cov['graphs_of_derived_classes'] = {'by_class': hist, 'could_not_be_built_or_not_over_ints': skipped}
    return nviol
