"""C09 - printing then parsing a formula gives back the same formula; printing is injective.
Theorems (Properties/C09.v): print -> parse round trip  parse_string L (print_std f) = Ok f  for the
formulas of each logic over identifier-style non-reserved atoms (CTL in CTL* notation, read by the CTL and
by the CTL* parser), and injectivity of the printers (also of CTL's own compact notation).
Correspondence, on exactly that domain: for every generated formula f of logic L
  (i)   tree_of(<L>.Parser()(str(f))) == tree_of(f) and every node of the result is of the parser's language,
  (ii)  str(f) == the model's print, character by character (CTL: both notations),
  (iii) the model's parse of that string == the tree (ties the model's parser to the implementation's),
  (iv)  no two different trees of one logic share a printed form (grouped over everything generated).
CTL's compact notation ("AX p", "A(p U q)") is additionally given to the CTL parser and compared with the
model's parse only: the property is about CTL* notation, both sides reject / misparse most of it."""
from common import *
from mccheck import detuple
import parsegen as PG
LEVEL = 'proof'

PARSED_BY = {'PL': ('PL',), 'LTL': ('LTL',), 'CTLS': ('CTLS',), 'CTL': ('CTL', 'CTLS')}


def to_py_mixed(f, top=True):
    """the same CTL* formula built the way callers combine results of different modules: maximal proper CTL state subformulas with
    a quantifier are built with the CTL classes, everything above them with the CTL* classes (which cast such operands)"""
    CT, CS = lang_module('CTL'), lang_module('CTLS')
    if not top and f[0] in ('A', 'E', 'not', 'or', 'and', 'imp') and is_ctl_state(f) and any(g[0] in ('A', 'E') for g in subformulas(f)):
        return to_py(f, CT)
    if f[0] in ('true', 'false', 'ap'):
        return to_py(f, CS)
    return getattr(CS, PYNAME[f[0]])(*[to_py_mixed(g, False) for g in f[1:]])


def observe_formula(item):
    """implementation side for one (logic, tree): returns
       (std string, compact string | None, compact outcome | None, None | dict of what went wrong)"""
    logic, f = item
    bad = {}
    try:
        if logic == 'CTL':
            oc = to_py(f, lang_module('CTL'))
            o = to_py(f, lang_module('CTLS'))
            if tree_of(oc) != f:
                bad['built_ctl'] = tree_of(oc)
            compact = str(oc)
        else:
            oc = None
            o = to_py(f, lang_module(logic))
            compact = None
        built = tree_of(o)
        if built != f:
            bad['built'] = built
        s = str(o)
    except Exception as e:  # noqa
        return (None, None, None, {'construct': '%s: %s' % (type(e).__name__, e)})
    texts = [s]
    if oc is not None:
        # the user's way to CTL* notation; must be the same text, otherwise it is round-tripped as well
        r = call(lambda: str(oc.cast_to(lang_module('CTLS'))))
        if r[0] != 'ok':
            bad['cast_to'] = r
        elif r[1] != s:
            bad['cast_to_text'] = r[1]
            texts.append(r[1])
    if logic in ('CTL', 'CTLS'):
        r = call(lambda: str(to_py_mixed(f)))
        if r[0] != 'ok':
            bad['mixed_construction'] = r
        elif r[1] != s:
            bad['mixed_construction_text'] = r[1]       # a CTL* object whose text is not the CTL* text of its tree
            texts.append(r[1])
    for txt in texts:
        for P in PARSED_BY[logic]:
            r = PG.observe(P, txt)
            if not (r[0] == 'ok' and r[1] == built and r[2] == (P,)):
                bad.setdefault('roundtrip', []).append({'parser': P, 'text': txt, 'outcome': r})
    if str(o) != s:
        bad['unstable_str'] = str(o)
    comp_out = PG.observe('CTL', compact) if compact is not None else None
    return (s, compact, comp_out, bad or None)


def observe_chunk(items):
    return [observe_formula(it) for it in items]


def build_items(R):
    """the formulas: list of (stream, logic, tree), deduplicated per logic"""
    rng = R.rng
    items = []
    # 1. every formula of depth <= 1 over all 12 leaves (10 atoms, true, false), n-ary or/and with 2 and 3 operands
    for logic in PG.LANGS:
        for sh in PG.shapes(logic, 1):
            k = PG.n_holes(sh)
            for ls in itertools.product(PG.LEAVES, repeat=k):
                items.append(('depth1_all_leaves', logic, PG.fill(sh, iter(ls))))
    for sh in PG.ctl_path_shapes(0):
        for ls in itertools.product(PG.LEAVES, repeat=PG.n_holes(sh)):
            items.append(('depth1_all_leaves', 'CTL', PG.fill(sh, iter(ls))))
    for ls in PG.LEAVES:
        items.append(('depth1_all_leaves', 'LTL', ('A', ls)))
    # 2. every operator tree (shape) of depth <= 2, leaves by rotation (every hole sees every leaf over the 12
    #    rotations; thorough runs all 12) and at random
    rots = list(range(12)) if R.thorough else None
    nrand = 4 if R.thorough else 1
    nshapes = {}
    for logic in PG.LANGS:
        shs = PG.shapes(logic, 2)
        extra = []
        if logic == 'LTL':
            extra = [('A', sh) for i, sh in enumerate(shs) if R.thorough or i % 4 == 0]
        if logic == 'CTL':
            extra = PG.ctl_path_shapes(1)
        nshapes[logic] = len(shs) + len(extra)
        for i, sh in enumerate(shs + extra):
            for r in (rots if rots is not None else ((7 * i + 3) % 12,)):
                items.append(('depth2_shapes', logic, PG.fill_rot(sh, r)))
            for _ in range(nrand):
                items.append(('depth2_shapes', logic, PG.fill_rand(sh, rng)))
    # 3. random, depth 3..5
    n = 40000 if R.thorough else 1500
    for logic in PG.LANGS:
        for _ in range(n):
            items.append(('random', logic, PG.rand_formula(rng, logic, rng.choice((3, 4, 4, 5, 5)))))
    seen = set()
    out = []
    for st, logic, f in items:
        if (logic, f) not in seen:
            seen.add((logic, f))
            out.append((st, logic, f))
    return out, nshapes


def model_cmds(logic, f, s, compact):
    """model commands for one formula; answers are consumed by check_one in the same order"""
    cmds = [['print', 'CTLS' if logic == 'CTL' else logic, fsx(f)]]
    cmds += [PG.parse_cmd(P, s) for P in PARSED_BY[logic]]
    if logic == 'CTL':
        cmds += [['print', 'CTL', fsx(f)], PG.parse_cmd('CTL', compact)]
    return cmds


def check_one(logic, f, obs, outs):
    """returns (list of what differs, details)"""
    s, compact, comp_out, ibad = obs
    bad = []
    det = {}
    if ibad:
        bad += sorted(ibad)
        det['impl'] = ibad
    if s is None:
        return bad, det
    m_print = str(outs[0])
    if m_print != s:
        bad.append('print')
        det['model_print'] = m_print
    for P, a in zip(PARSED_BY[logic], outs[1:]):
        m = PG.model_parse_result(a)
        if m != ('ok', f):
            bad.append('model_roundtrip_' + P)
            det['model_parse_' + P] = m
    if logic == 'CTL':
        k = 1 + len(PARSED_BY[logic])
        if str(outs[k]) != compact:
            bad.append('print_compact')
            det['model_print_compact'] = str(outs[k])
        mc = PG.model_parse_result(outs[k + 1])
        if not PG.agree('CTL', comp_out, mc) or (comp_out[0] == 'ok' and comp_out[2] != ('CTL',)):
            bad.append('compact_parse_vs_model')
            det['model_parse_compact'] = mc
            det['impl_parse_compact'] = comp_out
    return bad, det


def run(R):
    R.rule = ('formulas of each logic over the atoms {p,q,Ab,AX,orb,true_,_x1,Until,Rx,U2} and true/false, n-ary or/and with 2-3 operands: '
              'ALL formulas of depth <= 1 over all 12 leaves; ALL operator trees of depth <= 2 per logic (PL, LTL path formulas and A(path), '
              'all CTL* operator trees, CTL state formulas with quantifier+temporal pairs as one level and CTL path formulas) with leaves assigned '
              'by rotation (1 rotation + 1 random assignment per tree in quick, all 12 rotations + 4 random in thorough); random formulas of depth 3-5. '
              'Compared per formula: tree and node languages of Parser()(str(f)) (CTL: str of the CTL* object of the same tree and of cast_to(CTLS), '
              'read by CTL.Parser and CTLS.Parser), str(f) vs model print, model parse of that text vs the tree; over all of them: one printed form '
              '-> one tree, per logic and notation (incl. CTL compact). non-trivial = formula with >= 2 operators, distinct by (logic, tree)')
    sym = PG.symbol_table_diffs()
    if sym:
        R.violation('operator spellings of the live modules differ from the ones the parser/printer model was proved for',
                    {'symbol_tables': sym}, no_input=True)
    items, nshapes = build_items(R)
    obs = PG.pmap(observe_chunk, [(logic, f) for (_, logic, f) in items])
    cmds, spans = [], []
    for (st, logic, f), o in zip(items, obs):
        if o[0] is None:
            spans.append((len(cmds), 0))
            continue
        c = model_cmds(logic, f, o[0], o[1])
        spans.append((len(cmds), len(c)))
        cmds += c
    outs = model_batch_parallel(cmds, jobs=PG.JOBS)
    printed = {}          # (logic, notation) -> text -> tree
    dist = {}
    ops_hist = {}
    compact = {'accepted_same_tree': 0, 'accepted_other_tree': 0, 'rejected': 0}
    reported = 0
    sampled = {}
    pending_hard, pending_soft = [], []
    for (st, logic, f), o, (i0, k) in zip(items, obs, spans):
        R.evaluations += 1
        d = dist.setdefault(st, {})
        d[logic] = d.get(logic, 0) + 1
        bad, det = check_one(logic, f, o, outs[i0:i0 + k])
        # (iv) injectivity
        for note, txt in (('std', o[0]), ('compact', o[1])):
            if txt is None:
                continue
            g = printed.setdefault((logic, note), {})
            if txt in g and g[txt] != f:
                bad.append('print_not_injective_' + note)
                det['same_text_as'] = {'text': txt, 'other_tree': g[txt], 'other_str': fstr(g[txt])}
            else:
                g[txt] = f
        if bad:
            reported += 1
            # a text that merely differs from the model's while round trip and injectivity hold on this input
            soft = set(bad) <= {'print', 'print_compact', 'compact_parse_vs_model'}
            pend = pending_soft if soft else pending_hard
            if len(pend) < (10 if soft else 40):
                pend.append(('print/parse round trip breaks: %s' % ','.join(bad),
                             {'logic': logic, 'formula': f, 'formula_str': fstr(f), 'printed': o[0], 'printed_compact': o[1],
                              'differs': bad, **det}, soft))
            continue
        no = PG.n_ops(f)
        ops_hist[min(no, 12)] = ops_hist.get(min(no, 12), 0) + 1
        if logic == 'CTL':
            c = o[2]
            compact['rejected' if c[0] != 'ok' else ('accepted_same_tree' if c[1] == f else 'accepted_other_tree')] += 1
        if no >= 2:
            R.nontriv((logic, f))
            if st == 'random' and fsize(f) <= 14 and sampled.get(logic, 0) < 2:
                sampled[logic] = sampled.get(logic, 0) + 1
                R.sample({'logic': logic, 'formula': fstr(f), 'printed': o[0], **({'ctl_compact': o[1]} if o[1] else {})}, limit=8)
    for what, data, soft in pending_hard + pending_soft:
        R.violation(what, data, no_input=soft)
    R.count('violating_formulas', reported)
    R.cov['distribution'] = dist
    R.cov['operators_per_formula'] = {('%d' % k if k < 12 else '12+'): v for k, v in sorted(ops_hist.items())}
    R.cov['shapes_depth2'] = nshapes
    R.cov['distinct_printed_forms'] = {'%s/%s' % k: len(v) for k, v in printed.items()}
    n_ctl = max(1, sum(compact.values()))
    R.cov['ctl_compact_notation_to_CTL_parser'] = dict(compact, accept_rate=round((n_ctl - compact['rejected']) / n_ctl, 4),
                                                       note='compared with the model only; not part of C09')
    R.exhaustive = False


def replay(R, data):
    d = data['data']
    if 'formula' not in d:
        print('no formula in this replay (proof gate / symbol tables):', json.dumps(d, default=str)[:2000])
        if PG.symbol_table_diffs():
            R.violation('replayed: symbol tables differ', d, no_input=True)
        return
    f = detuple(d['formula'])
    logic = d['logic']
    o = observe_formula((logic, f))
    print('formula        :', fstr(f))
    print('impl str       :', repr(o[0]), '' if o[1] is None else ' compact: %r' % o[1])
    for P in PARSED_BY[logic]:
        if o[0] is not None:
            print('impl parse %-4s:' % P, PG.observe(P, o[0]))
    if o[0] is None:
        print('impl           :', o[3])
        R.violation('replayed', d)
        return
    outs = model_batch(model_cmds(logic, f, o[0], o[1]))
    print('model print    :', repr(str(outs[0])))
    for P, a in zip(PARSED_BY[logic], outs[1:]):
        print('model parse %-4s:' % P, PG.model_parse_result(a))
    if logic == 'CTL':
        print('compact: impl parse', o[2], ' model print %r parse %s' % (str(outs[-2]), PG.model_parse_result(outs[-1]),))
    bad, det = check_one(logic, f, o, outs)
    other = d.get('same_text_as')
    if other:
        g = detuple(other['other_tree'])
        o2 = observe_formula((logic, g))
        print('other tree     :', fstr(g), '->', repr(o2[0]), repr(o2[1]))
        if g != f and (o2[0] == o[0] or (o[1] is not None and o2[1] == o[1])):
            bad.append('print_not_injective')
    print('differs        :', bad, det)
    if bad:
        R.violation('replayed', d)
