"""C09 - printing then parsing a formula gives back the same formula; printing is injective.
Theorems (Properties/C09.v): print -> parse round trip  parse_string L (print_std f) = Ok f  for the
formulas of each logic over identifier-style non-reserved atoms (CTL in CTL* notation, read by the CTL and
by the CTL* parser), and injectivity of the printers (also of CTL's own compact notation).
Correspondence, on exactly that domain: for every generated formula f of logic L
  (i)   tree_of(<L>.Parser()(str(f))) == tree_of(f) and every node of the result is of the parser's language,
  (ii)  str(f) == the model's print, character by character (CTL: both notations),
  (iii) the model's parse of that string == the tree (ties the model's parser to the implementation's),
  (iv)  no two different trees of one logic share a printed form (grouped over everything generated).
Atoms: besides ten fixed names, per logic a pool of identifier-style names the logic does NOT reserve: random ones,
names containing keyword spellings in any case (isTrue, False_alarm, NOT, xUy), and the keywords of OTHER logics
(E in LTL; A E X F G U R in PL).  Shapes: besides the small-depth enumeration, WIDE formulas (or/and with 4..150
operands) and TALL formulas (spines of height 100..270, below what the library's own recursive printer and the
harness's recursive readers can follow).
CTL's compact notation ("AX p", "A(p U q)") is additionally given to the CTL parser and compared with the
model's parse only: the property is about CTL* notation, both sides reject / misparse most of it.
Second audit (c09_extra.py): VERY WIDE or/and (151..1200 operands: around 255 = CPython's historic limit on call arguments, around
the powers of two, random) in the ordinary pipeline; spines of height 6..99 in the tall stream; VERY TALL spines of height
271..1200, handled iteratively: a formula whose str() raises RecursionError is outside the property, any text that IS returned
must parse back and be the model's text; EDIT: objects that were already printed / hashed / compared are changed through
wrap_subformulas or through the list returned by subformulas() and printed again - the new text must be the text of the tree the
object has now."""
from common import *
from mccheck import detuple
import parsegen as PG
import c09_extra as X
LEVEL = 'proof'

PARSED_BY = {'PL': ('PL',), 'LTL': ('LTL',), 'CTLS': ('CTLS',), 'CTL': ('CTL', 'CTLS')}


def to_py_mixed(f, top=True):
    """the same CTL* formula built the way callers combine results of different modules: maximal proper CTL state subformulas with
    a quantifier are built with the CTL classes, everything above them with the CTL* classes (which cast such operands)"""
    CT, CS = lang_module('CTL'), lang_module('CTLS')
    if not top and f[0] in ('A', 'E', 'not', 'or', 'and', 'imp') and is_ctl_state(f) and any(g[0] in ('A', 'E') for g in subformulas(f)):
        return to_py(f, CT)
    if f[0] in ('true', 'false', 'ap'):
        return to_py(f, CS)
    return getattr(CS, PYNAME[f[0]])(*[to_py_mixed(g, False) for g in f[1:]])


def observe_formula(item):
    """implementation side for one (logic, tree): returns
       (std string, compact string | None, compact outcome | None, None | dict of what went wrong)"""
    logic, f = item
    bad = {}
    try:
        if logic == 'CTL':
            oc = to_py(f, lang_module('CTL'))
            o = to_py(f, lang_module('CTLS'))
            if tree_of(oc) != f:
                bad['built_ctl'] = tree_of(oc)
            compact = str(oc)
        else:
            oc = None
            o = to_py(f, lang_module(logic))
            compact = None
        built = tree_of(o)
        if built != f:
            bad['built'] = built
        s = str(o)
    except Exception as e:  # noqa
        return (None, None, None, {'construct': '%s: %s' % (type(e).__name__, e)})
    texts = [s]
    if oc is not None:
        # the user's way to CTL* notation; must be the same text, otherwise it is round-tripped as well
        r = call(lambda: str(oc.cast_to(lang_module('CTLS'))))
        if r[0] != 'ok':
            bad['cast_to'] = r
        elif r[1] != s:
            bad['cast_to_text'] = r[1]
            texts.append(r[1])
    if logic in ('CTL', 'CTLS'):
        r = call(lambda: str(to_py_mixed(f)))
        if r[0] != 'ok':
            bad['mixed_construction'] = r
        elif r[1] != s:
            bad['mixed_construction_text'] = r[1]       # a CTL* object whose text is not the CTL* text of its tree
            texts.append(r[1])
    for txt in texts:
        for P in PARSED_BY[logic]:
            r = PG.observe(P, txt)
            if not (r[0] == 'ok' and r[1] == built and r[2] == (P,)):
                bad.setdefault('roundtrip', []).append({'parser': P, 'text': txt, 'outcome': r})
    if str(o) != s:
        bad['unstable_str'] = str(o)
    comp_out = PG.observe('CTL', compact) if compact is not None else None
    return (s, compact, comp_out, bad or None)


def observe_chunk(items):
    return [observe_formula(it) for it in items]


def build_items(R):
    """the formulas: list of (stream, logic, tree), deduplicated per logic"""
    rng = R.rng
    items = []
    # 1. every formula of depth <= 1 over all 12 leaves (10 atoms, true, false), n-ary or/and with 2 and 3 operands
    for logic in PG.LANGS:
        for sh in PG.shapes(logic, 1):
            k = PG.n_holes(sh)
            for ls in itertools.product(PG.LEAVES, repeat=k):
                items.append(('depth1_all_leaves', logic, PG.fill(sh, iter(ls))))
    for sh in PG.ctl_path_shapes(0):
        for ls in itertools.product(PG.LEAVES, repeat=PG.n_holes(sh)):
            items.append(('depth1_all_leaves', 'CTL', PG.fill(sh, iter(ls))))
    for ls in PG.LEAVES:
        items.append(('depth1_all_leaves', 'LTL', ('A', ls)))
    # 2. every operator tree (shape) of depth <= 2, leaves by rotation (every hole sees every leaf over the 12
    #    rotations; thorough runs all 12) and at random
    rots = list(range(12)) if R.thorough else None
    nrand = 4 if R.thorough else 1
    nshapes = {}
    for logic in PG.LANGS:
        shs = PG.shapes(logic, 2)
        extra = []
        if logic == 'LTL':
            extra = [('A', sh) for i, sh in enumerate(shs) if R.thorough or i % 4 == 0]
        if logic == 'CTL':
            extra = PG.ctl_path_shapes(1)
        nshapes[logic] = len(shs) + len(extra)
        for i, sh in enumerate(shs + extra):
            for r in (rots if rots is not None else ((7 * i + 3) % 12,)):
                items.append(('depth2_shapes', logic, PG.fill_rot(sh, r)))
            for _ in range(nrand):
                items.append(('depth2_shapes', logic, PG.fill_rand(sh, rng)))
    # 3. random, depth 3..5
    n = 40000 if R.thorough else 1500
    for logic in PG.LANGS:
        for _ in range(n):
            items.append(('random', logic, PG.rand_formula(rng, logic, rng.choice((3, 4, 4, 5, 5)))))
    # 4. identifier atoms: per logic a pool of names it does not reserve (risky hand-written ones, keywords of the other
    #    logics, random names with embedded keyword spellings in any case); every name in every hole of every depth-1
    #    tree (other holes: random names of the pool), and random formulas over the pool
    pools = {}
    for logic in PG.LANGS:
        pool = PG.ident_pool(rng, logic, 80 if R.thorough else 30)
        pools[logic] = pool
        leaves = [('ap', a) for a in pool]
        shs = list(PG.shapes(logic, 1))
        if logic == 'CTL':
            shs += PG.ctl_path_shapes(0)
        if logic == 'LTL':
            shs.append(('A', PG.HOLE))
        for sh in shs:
            k = PG.n_holes(sh)
            for a in pool:
                for i in range(k):
                    ls = [rng.choice(leaves) for _ in range(k)]
                    ls[i] = ('ap', a)
                    items.append(('ident_depth1', logic, PG.fill(sh, iter(ls))))
        for _ in range(8000 if R.thorough else 500):
            items.append(('ident_random', logic, PG.rand_formula(rng, logic, rng.choice((2, 3, 3, 4)), aps=pool)))
    # 5. wide: or / and with 4 and more operands (all arities 4..12, random ones up to 40, 64 and 150), at the root and nested
    for logic in PG.LANGS:
        aps = list(PG.ATOMS) + pools[logic][:20]
        for _ in range(4 if R.thorough else 1):
            for f in PG.wide_formulas(rng, logic, aps, n_random=24):
                items.append(('wide', logic, f))
    # 6. tall: spines of height 100..270.  The unchanged library's recursive __str__ raises RecursionError from height ~295 on
    #    for chains of unary operators (measured, CPython 3.12, default limit), the harness's recursive readers from ~490
    for logic in PG.LANGS:
        hs = [101, 126, 130, 160, 200, 230, 251, 260, 270] + [rng.randint(100, 270) for _ in range(12 if R.thorough else 3)]
        for h in hs:
            items.append(('tall', logic, PG.spine(rng, logic, PG.ATOMS if rng.random() < 0.5 else pools[logic], h)))
    # 7. (second audit) very wide: 151..1200 operands, around 255 (CPython's historic limit on call arguments) and the powers of two
    very_wide = []
    for logic in PG.LANGS:
        for f in X.very_wide_formulas(rng, logic, list(PG.ATOMS) + pools[logic][:20], R.thorough):
            very_wide.append(('wide', logic, f))
    # 8. (second audit) the heights between the enumeration and the tall stream
    for logic in PG.LANGS:
        for h in [rng.randint(6, 19), rng.randint(20, 49), rng.randint(50, 99), rng.randint(20, 99)] + [rng.randint(6, 99) for _ in range(12 if R.thorough else 0)]:
            items.append(('tall', logic, PG.spine(rng, logic, PG.ATOMS if rng.random() < 0.5 else pools[logic], h)))
    items = X.spread(items, very_wide)
    seen = set()
    out = []
    for st, logic, f in items:
        if (logic, f) not in seen:
            seen.add((logic, f))
            out.append((st, logic, f))
    return out, nshapes, pools


def model_cmds(logic, f, s, compact):
    """model commands for one formula; answers are consumed by check_one in the same order"""
    cmds = [['print', 'CTLS' if logic == 'CTL' else logic, fsx(f)]]
    cmds += [PG.parse_cmd(P, s) for P in PARSED_BY[logic]]
    if logic == 'CTL':
        cmds += [['print', 'CTL', fsx(f)], PG.parse_cmd('CTL', compact)]
    return cmds


def check_one(logic, f, obs, outs):
    """returns (list of what differs, details)"""
    s, compact, comp_out, ibad = obs
    bad = []
    det = {}
    if ibad:
        bad += sorted(ibad)
        det['impl'] = ibad
    if s is None:
        return bad, det
    m_print = str(outs[0])
    if m_print != s:
        bad.append('print')
        det['model_print'] = m_print
    for P, a in zip(PARSED_BY[logic], outs[1:]):
        m = PG.model_parse_result(a)
        if m != ('ok', f):
            bad.append('model_roundtrip_' + P)
            det['model_parse_' + P] = m
    if logic == 'CTL':
        k = 1 + len(PARSED_BY[logic])
        if str(outs[k]) != compact:
            bad.append('print_compact')
            det['model_print_compact'] = str(outs[k])
        mc = PG.model_parse_result(outs[k + 1])
        if not PG.agree('CTL', comp_out, mc) or (comp_out[0] == 'ok' and comp_out[2] != ('CTL',)):
            bad.append('compact_parse_vs_model')
            det['model_parse_compact'] = mc
            det['impl_parse_compact'] = comp_out
    return bad, det


def shape_stats(f):
    """(largest arity, height), iteratively"""
    ar, h, stack = 0, 0, [(f, 0)]
    while stack:
        g, d = stack.pop()
        h = max(h, d)
        if g[0] not in ('true', 'false', 'ap'):
            ar = max(ar, len(g) - 1)
            stack.extend((c, d + 1) for c in g[1:])
    return ar, h


def violation_data(st, logic, f, o, bad, det):
    """replay data of one formula; tall trees go in as preorder token lists (PG.flat), not as deeply nested JSON"""
    d = {'logic': logic, 'stream': st}
    if PG._height_iter(f) > 40:
        d['formula_flat'] = PG.flat(f)
        txt = fstr(f)
        d['formula_str'] = txt if len(txt) <= 400 else txt[:200] + ' ... ' + txt[-200:]
    else:
        d['formula'] = f
        d['formula_str'] = fstr(f)
    d.update({'printed': o[0], 'printed_compact': o[1], 'differs': bad})
    d.update(PG.compact(det))
    return d


def formula_of(d):
    if 'formula_flat' in d:
        return PG.unflat(d['formula_flat'])
    if isinstance(d, dict) and 'flat' in d:
        return PG.unflat(d['flat'])
    return detuple(d['formula'] if isinstance(d, dict) else d)


def run(R):
    R.rule = ('formulas of each logic over the atoms {p,q,Ab,AX,orb,true_,_x1,Until,Rx,U2} and true/false, n-ary or/and with 2-3 operands: '
              'ALL formulas of depth <= 1 over all 12 leaves; ALL operator trees of depth <= 2 per logic (PL, LTL path formulas and A(path), '
              'all CTL* operator trees, CTL state formulas with quantifier+temporal pairs as one level and CTL path formulas) with leaves assigned '
              'by rotation (1 rotation + 1 random assignment per tree in quick, all 12 rotations + 4 random in thorough); random formulas of depth 3-5. '
              'IDENTIFIER ATOMS: per logic a pool of names matching [a-zA-Z_][a-zA-Z_0-9]* that the logic itself does not reserve - hand-written risky '
              'names (isTrue, False_alarm, TRUE, Not, OR, u, pUq, ...), every keyword of the OTHER logics (E in LTL; A E X F G U R in PL), random names '
              'and random names with keyword spellings (true false not or and A E X F G U R True False, in any case) embedded - each name in each hole of '
              'each depth-1 tree, and random formulas of depth 2-4 over the pool. WIDE: or/and with every arity 4..12, random arities 13..40, 64 and 150, '
              'at the root and inside every kind of operator, also wide inside wide. TALL: spines of height 101,126,130,160,200,230,251,260,270 and random '
              'heights in 100..270 per logic (unary operators, binary operators and n-ary connectives with the spine on either side; CTL: quantifier+temporal pairs). '
              'VERY WIDE (same pipeline): or/and with 128, 129, 300, 512, 1000 operands, 255 / 256 / 257 operands with both connectives (CPython <= 3.6 refused '
              'calls with more than 255 arguments) also as an operand of a wide node of the other kind, and random arities 151..1200; at the root and inside the operators. '
              'Spines of random height in 6..19, 20..49, 50..99 per logic in the TALL stream. '
              'VERY TALL (iterative readers, preorder token lists): spines of height 271,280,288,292,294,296,298,300,305,320,350,400,520,700,1000 and random heights in '
              '271..340 and 341..1200 per logic; str() under a 2 s timer; RecursionError / no answer = not printed, nothing claimed (counted in very_tall_271_1200); a returned text '
              'must be the model print, parse back (implementation and model) to the tree, and be stable. '
              'EDIT (450 cases per logic in quick): random formula of depth 1-4, a random operator node at any depth; the root is first printed / hashed / compared with a fresh copy / '
              'repr-ed (or only the node or every node on the path is printed, or nothing), optionally a second formula not(node) is built and printed; then the node is edited by '
              'wrap_subformulas(list of old operands / new formulas / python bools, Formula) or in place through subformulas(): item and slice assignment, append, insert, pop, reverse '
              '(arity kept legal, edits that leave the tree unchanged discarded); after the edit tree_of(root) is read again and str(root) must be the model print of that tree, parse back '
              'to it, differ from the text before; the same for the second holder. '
              'Compared per formula: tree and node languages of Parser()(str(f)) (CTL: str of the CTL* object of the same tree and of cast_to(CTLS), '
              'read by CTL.Parser and CTLS.Parser), str(f) vs model print, model parse of that text vs the tree; over all of them: one printed form '
              '-> one tree, per logic and notation (incl. CTL compact). non-trivial = formula with >= 2 operators, distinct by (logic, tree)')
    sym = PG.symbol_table_diffs()
    if sym:
        R.violation('operator spellings of the live modules differ from the ones the parser/printer model was proved for',
                    {'symbol_tables': sym}, no_input=True)
    items, nshapes, pools = build_items(R)
    obs = PG.pmap(observe_chunk, [(logic, f) for (_, logic, f) in items])
    cmds, spans = [], []
    for (st, logic, f), o in zip(items, obs):
        if o[0] is None:
            spans.append((len(cmds), 0))
            continue
        c = model_cmds(logic, f, o[0], o[1])
        spans.append((len(cmds), len(c)))
        cmds += c
    outs = model_batch_parallel(cmds, jobs=PG.JOBS)
    printed = {}          # (logic, notation) -> text -> tree
    dist = {}
    ops_hist, ar_hist, h_hist = {}, {}, {}
    compact = {'accepted_same_tree': 0, 'accepted_other_tree': 0, 'rejected': 0}
    reported = 0
    sampled = {}
    pending_hard, pending_soft = [], []
    for (st, logic, f), o, (i0, k) in zip(items, obs, spans):
        R.evaluations += 1
        d = dist.setdefault(st, {})
        d[logic] = d.get(logic, 0) + 1
        bad, det = check_one(logic, f, o, outs[i0:i0 + k])
        # (iv) injectivity
        for note, txt in (('std', o[0]), ('compact', o[1])):
            if txt is None:
                continue
            g = printed.setdefault((logic, note), {})
            if txt in g and g[txt] != f:
                bad.append('print_not_injective_' + note)
                det['same_text_as'] = {'text': txt, 'other_tree': g[txt], 'other_str': fstr(g[txt])}
            else:
                g[txt] = f
        if bad:
            reported += 1
            # a text that merely differs from the model's while round trip and injectivity hold on this input
            soft = set(bad) <= {'print', 'print_compact', 'compact_parse_vs_model'}
            pend = pending_soft if soft else pending_hard
            if len(pend) < (10 if soft else 40):
                pend.append(('print/parse round trip breaks: %s' % ','.join(bad), violation_data(st, logic, f, o, bad, det), soft))
            continue
        no = PG.n_ops(f) if st != 'tall' else 12
        ops_hist[min(no, 12)] = ops_hist.get(min(no, 12), 0) + 1
        if st in ('wide', 'tall') or st.startswith('ident'):
            ar, hh = shape_stats(f)
            ak = ar if ar < 13 else (40 if ar <= 40 else 41 if ar <= 150 else 151 if ar <= 254 else 255 if ar <= 257 else 258)
            ar_hist[ak] = ar_hist.get(ak, 0) + 1
            hk = '%d-%d' % (hh // 50 * 50, hh // 50 * 50 + 49) if hh >= 50 else '<50'
            h_hist[hk] = h_hist.get(hk, 0) + 1
        if logic == 'CTL':
            c = o[2]
            compact['rejected' if c[0] != 'ok' else ('accepted_same_tree' if c[1] == f else 'accepted_other_tree')] += 1
        if no >= 2:
            R.nontriv((logic, f))
            if st == 'random' and fsize(f) <= 14 and sampled.get(logic, 0) < 2:
                sampled[logic] = sampled.get(logic, 0) + 1
                R.sample({'logic': logic, 'formula': fstr(f), 'printed': o[0], **({'ctl_compact': o[1]} if o[1] else {})}, limit=8)
    for what, data, soft in pending_hard + pending_soft:
        R.violation(what, data, no_input=soft)
    R.count('violating_formulas', reported)
    # (second audit) formulas taller than the recursive readers can follow, and objects edited between two prints
    X.run_tall(R, pools)
    X.run_edit(R, pools)
    R.cov['distribution'] = dist
    R.cov['operators_per_formula'] = {('%d' % k if k < 12 else '12+'): v for k, v in sorted(ops_hist.items())}
    R.cov['shapes_depth2'] = nshapes
    R.cov['identifier_pool_sizes'] = {L: len(v) for L, v in pools.items()}
    R.cov['identifier_pool_examples'] = {L: v[-6:] for L, v in pools.items()}
    R.cov['foreign_keywords_used_as_atoms'] = {L: [a for a in v if a in PG.KEYWORDS] for L, v in pools.items()}
    R.cov['max_arity_histogram'] = {('%d' % k if k < 13 else {40: '13-40', 41: '41-150', 151: '151-254', 255: '255-257', 258: '258+'}[k]): v for k, v in sorted(ar_hist.items())}
    R.cov['height_histogram'] = dict(sorted(h_hist.items()))
    R.cov['distinct_printed_forms'] = {'%s/%s' % k: len(v) for k, v in printed.items()}
    n_ctl = max(1, sum(compact.values()))
    R.cov['ctl_compact_notation_to_CTL_parser'] = dict(compact, accept_rate=round((n_ctl - compact['rejected']) / n_ctl, 4),
                                                       note='compared with the model only; not part of C09')
    R.exhaustive = False


def _short(x, n=700):
    t = x if isinstance(x, str) else repr(x)
    return t if len(t) <= n else t[:n // 2] + ' ... ' + t[-n // 2:]


def replay(R, data):
    d = data['data']
    if d.get('stream') == 'verytall':
        return X.replay_tall(R, d)
    if d.get('stream') == 'edit':
        return X.replay_edit(R, d)
    if 'formula' not in d and 'formula_flat' not in d:
        print('no formula in this replay (proof gate / symbol tables):', json.dumps(d, default=str)[:2000])
        if PG.symbol_table_diffs():
            R.violation('replayed: symbol tables differ', d, no_input=True)
        return
    f = formula_of(d)
    logic = d['logic']
    o = observe_formula((logic, f))
    print('formula        :', _short(fstr(f)))
    print('impl str       :', _short(repr(o[0])), '' if o[1] is None else ' compact: %s' % _short(repr(o[1])))
    for P in PARSED_BY[logic]:
        if o[0] is not None:
            print('impl parse %-4s:' % P, _short(PG.observe(P, o[0])))
    if o[0] is None:
        print('impl           :', o[3])
        R.violation('replayed', d)
        return
    outs = model_batch(model_cmds(logic, f, o[0], o[1]))
    print('model print    :', _short(repr(str(outs[0]))))
    for P, a in zip(PARSED_BY[logic], outs[1:]):
        print('model parse %-4s:' % P, _short(PG.model_parse_result(a)))
    if logic == 'CTL':
        print('compact: impl parse', _short(o[2]), ' model print %s parse %s' % (_short(repr(str(outs[-2]))), _short(PG.model_parse_result(outs[-1])),))
    bad, det = check_one(logic, f, o, outs)
    other = d.get('same_text_as')
    if other:
        g = formula_of(other['other_tree'])
        o2 = observe_formula((logic, g))
        print('other tree     :', _short(fstr(g)), '->', _short(repr(o2[0])), _short(repr(o2[1])))
        if g != f and (o2[0] == o[0] or (o[1] is not None and o2[1] == o[1])):
            bad.append('print_not_injective')
    print('differs        :', bad, _short(PG.compact(det), 3000))
    if bad:
        R.violation('replayed', d)
