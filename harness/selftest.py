"""selftest.py - guards extraction + OCaml driver: a sample of cases is evaluated by the
driver and, inside Coq, by vm_compute; the two must produce identical values."""
import sys, os, subprocess, random
sys.path.insert(0, os.path.dirname(os.path.abspath(__file__)))
from common import *


def coq_nat_list(l):
    return '[' + '; '.join(str(int(x)) for x in l) + ']'


def coq_str(s):
    assert all(32 <= ord(c) < 127 for c in s), s
    return '"%s"%%string' % s.replace('"', '""')


def coq_form(f):
    t = f[0]
    if t == 'true':
        return '(FBool true)'
    if t == 'false':
        return '(FBool false)'
    if t == 'ap':
        return '(FAtom %s)' % coq_str(f[1])
    c = {'not': 'FNot', 'or': 'FOr', 'and': 'FAnd', 'imp': 'FImp', 'X': 'FX', 'F': 'FF', 'G': 'FG',
         'U': 'FU', 'R': 'FR', 'A': 'FA', 'E': 'FE'}[t]
    if t in NARY:
        return '(%s [%s])' % (c, '; '.join(coq_form(g) for g in f[1:]))
    return '(%s %s)' % (c, ' '.join(coq_form(g) for g in f[1:]))


def coq_graph(g):
    return '[' + '; '.join('(%d, %s)' % (int(k), coq_nat_list(ds)) for k, ds in g) + ']'


def coq_kripke(ks):
    g, init, lab = ks
    labs = '[' + '; '.join('(%d, [%s])' % (int(k), '; '.join(coq_str(a) for a in ls)) for k, ls in lab) + ']'
    return '(mkK %s %s %s)' % (coq_graph(g), coq_nat_list(init), labs)


def coq_result_list(r):
    if r[0] == 'ok':
        return '(Ok %s)' % coq_nat_list(r[1])
    return {'TypeError': 'TypeErr', 'RuntimeError': 'RuntimeErr'}[r[1]]


def main():
    rng = random.Random(int(os.environ.get('VERIF_SEED', '1')))
    cmds, terms = [], []
    for i in range(45):
        kd = rand_kripke(rng, rng.randint(1, 3))
        ks = kripke_sx(kd_py(kd))
        m = i % 3
        if m == 0:
            f = rand_ctl(rng, 2)
            cmds.append(['ctl', ks, fsx(f)])
            terms.append('ctl_modelcheck %s %s' % (coq_kripke(ks), coq_form(f)))
        elif m == 1:
            f = ('A', rand_path(rng, 2))
            cmds.append(['ltl', ks, fsx(f)])
            terms.append('ltl_modelcheck %s %s' % (coq_kripke(ks), coq_form(f)))
        else:
            f = rand_ctls_state(rng, 2)
            cmds.append(['ctls', 'CTLS', ks, fsx(f)])
            terms.append('ctls_modelcheck %s %s' % (coq_kripke(ks), coq_form(f)))
    out = model_batch(cmds)
    lines = ['From PMC Require Import Model.Fair Model.BddHist.', 'From Coq Require Import String.', '']
    for i, (t, o) in enumerate(zip(terms, out)):
        lines.append('Example st%d : %s = %s. Proof. vm_compute. reflexivity. Qed.' % (i, t, coq_result_list(o)))
    # SCC yield order
    for i in range(15):
        n = rng.randint(1, 6)
        g = [[v, sorted(rng.sample(range(n), rng.randint(0, min(n, 3))))] for v in range(n)]
        o = model_batch([['scc', g]])[0]
        lines.append('Example sc%d : compute_SCCs %s = [%s]. Proof. vm_compute. reflexivity. Qed.'
                     % (i, coq_graph(g), '; '.join(coq_nat_list(c) for c in o)))
    # parser model: parse_string through the driver vs vm_compute
    ptexts = ['p orb', 'or', 'not', 'A F G', 'A F G q', 'U U U', 'not X', '(p)or(q)-->~r', 'p | q | r and s',
              'A(p U q) or E X "a b"', 'A (p or q) U r', 'A G (p --> F q)', 'p Until', '"x\\"y" & true', 'p -> q',
              'A((p) R (q))', '((p and q and r))', 'X p U G q']
    pcases = [(L, t) for t in ptexts for L in ('PL', 'CTLS', 'CTL', 'LTL')]
    pout = model_batch([['parse', L, Q(t)] for L, t in pcases])
    lines.append('From PMC Require Import Model.Parse.')
    for i, ((L, t), o) in enumerate(zip(pcases, pout)):
        val = '(Ok %s)' % coq_form(fparse(o[1])) if o[0] == 'ok' else 'ParseErr'
        lines.append('Example ps%d : parse_string %s "%s"%%string = %s. Proof. vm_compute. reflexivity. Qed.'
                     % (i, L, t.replace('"', '""'), val))
    # faithful (printed-form) models of Model/Memo.v on the hand-written collision cases
    import memo_probe
    mcases = ([('ctlmemo', 'ctl_modelcheck_memo', kd, f) for kd, f, _ in memo_probe.HAND['CTL'][:10]] +
              [('ltlprint', 'ltl_modelcheck_print', kd, f) for kd, f, _ in memo_probe.HAND['LTL'][:8]])
    mks = [kripke_sx(kd_py(kd)) for _, _, kd, _ in mcases]
    mout = model_batch([[c, ks, fsx(f)] for (c, _, _, f), ks in zip(mcases, mks)])
    lines.append('From PMC Require Import Model.Memo.')
    for i, ((_, fn, _, f), ks, o) in enumerate(zip(mcases, mks, mout)):
        lines.append('Example mm%d : %s %s %s = %s. Proof. vm_compute. reflexivity. Qed.'
                     % (i, fn, coq_kripke(ks), coq_form(f), coq_result_list(o)))
    d = os.path.join(VERIF, 'build')
    os.makedirs(d, exist_ok=True)
    p = os.path.join(d, 'SelfTest.v')
    open(p, 'w').write('\n'.join(lines) + '\n')
    r = subprocess.run(['timeout', '600', 'coqc', '-Q', COQ, 'PMC', p], capture_output=True, text=True, cwd=d)
    if r.returncode != 0:
        print('SELFTEST FAILED: extracted driver and vm_compute disagree (or SelfTest.v does not compile)')
        print((r.stdout + r.stderr)[-2000:])
        sys.exit(1)
    print('selftest ok: %d cases agree between driver and vm_compute' % (len(terms) + 15 + len(pcases) + len(mcases)))


if __name__ == '__main__':
    main()
