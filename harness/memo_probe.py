"""memo_probe.py - differential test of the FAITHFUL models of coq/Model/Memo.v
(driver commands `(ctlmemo K f)` = ctl_modelcheck_memo, `(ltlprint K f)` = ltl_modelcheck_print)
against the real CTL.modelcheck / LTL.modelcheck on formulas whose ATOM NAMES collide with
printed subformulas and reserved words (known finding KF-print-a: formula objects are compared
and hashed by printed form).

Three observations per case (structure K, formula tree f):
   impl      the library   (objects built bottom-up with the classes of the language module)
   faithful  ctlmemo / ltlprint      (memo dict keyed by printed form / set membership by print)
   clean     ctl / ltl               (the proved-exact models: structural equality, no memo)
Goal: impl == faithful on EVERY case (any difference is printed and makes the exit code 1);
the number of cases with impl != clean is the footprint of the known finding.

Case generation (all seeded by --seed / VERIF_SEED):
  * formulas: random CTL state formulas / LTL formulas A(path) of depth <= 3 over p, q and
      - FIXED exotic names (reserved words and printed forms: "(p or q)", "not p", "EX p", ...),
      - DERIVED exotic names: the printed form (str of the live object) of a random subformula
        of the formula itself, of its restricted form, or (LTL) of an element of its closure,
        substituted at random leaves - this aims the atom at a key the run really uses;
  * structures: EVERY total graph on <= 2 states (1 + 9 shapes), each with --labelings random
    labelings over p, q and the atoms of the formula (+ with --pq every labelling over p, q only:
    the full set of 148 small structures);
  * hand-written collision cases, among them the two witnesses of /verif/known_findings.json,
    which must reproduce: faithful == impl != clean.

The library's answers do not depend on PYTHONHASHSEED (the iteration order of the closure set
only renumbers tableau atoms); the probe gives zero mismatches under every hash seed tried.

Usage: PYTHONPATH=/repo PYTHONHASHSEED=0 /venv/bin/python harness/memo_probe.py
           [--n 3000] [--labelings 3] [--pq] [--seed 0] [--logic CTL|LTL] [--quick]
(to test a private copy of the library: PMC_REPO=<copy> PYTHONPATH=<copy> ... ; the case
generator itself calls str()/get_equivalent_restricted_formula()/_get_closure of the library,
so the cases are reproducible only against an unchanged tree.)
"""
import sys, os, random, itertools, time, argparse, json
sys.path.insert(0, os.path.dirname(os.path.abspath(__file__)))
from common import (Q, model_batch_parallel, lang_module, to_py, fsx, fstr, call, kripke_sx, kd_py,
                    kd_json, rand_ctl, rand_path, subformulas, fatoms, ints)

FIXED = {
    'CTL': ['(p or q)', 'not p', 'EX p', 'AX p', 'E(p U q)', 'true', 'false', 'not EX not p', 'EX not p',
            '(p and q)', 'not (not p or not q)', '(not p or not q)', '(p --> q)', '(not p or q)', 'EG p',
            'EF p', 'E(true U p)', 'not true', 'not q', 'A(p U q)', 'E(p R q)', 'not E(true U not p)',
            'AG p', 'or', 'A', 'X p', '(q or p)', '(p or q or p)'],
    'LTL': ['(p or q)', 'not p', 'true', 'false', 'X(p)', 'not X(p)', '(p U q)', 'X((p U q))', 'X(not p)',
            'not X(not p)', 'not (p U q)', 'X(not (p U q))', '(true U p)', 'not (true U not p)', 'not true',
            'X(true)', 'not q', '(not p or not q)', 'not (not p or not q)', 'X(q)', 'X(X(p))', 'U', 'X',
            '(q or p)', 'F(p)', 'G(p)', '(p and q)', 'not not p'],
}


# ----------------------------------------------------------------------------------------
def leaves_paths(f, path=()):
    if f[0] in ('true', 'false', 'ap'):
        yield path
    else:
        for i, g in enumerate(f[1:]):
            yield from leaves_paths(g, path + (i + 1,))


def replace_at(f, path, g):
    if not path:
        return g
    i = path[0]
    return f[:i] + (replace_at(f[i], path[1:], g),) + f[i + 1:]


def printed_names(logic, f):
    """printed forms the run on f may use as keys: subformulas, restricted forms, closure"""
    L = lang_module(logic)
    names = set()
    body = f[1] if logic == 'LTL' else f
    for g in subformulas(body):
        if logic == 'CTL' and g[0] in ('X', 'F', 'G', 'U', 'R'):
            continue
        o = to_py(g, L)
        names.add(str(o))
        r = call(lambda: o.get_equivalent_restricted_formula())
        if r[0] == 'ok':
            names.add(str(r[1]))
            if logic == 'CTL':
                for h in walk_objs(r[1]):
                    names.add(str(h))
    if logic == 'LTL':
        from pyModelChecking.LTL import model_checking as M
        from pyModelChecking.language import LNot
        r = call(lambda: M._get_closure(LNot(to_py(body, L)).get_equivalent_restricted_formula()))
        if r[0] == 'ok':
            names |= {str(x) for x in r[1]}
    return sorted(n for n in names if n not in ('p', 'q'))


def walk_objs(o):
    yield o
    if type(o).__name__ not in ('Bool', 'AtomicProposition'):
        for c in o.subformulas():
            if type(c).__name__ in ('X', 'F', 'G', 'U', 'R') and type(c).__module__.endswith('CTL.language'):
                for d in c.subformulas():
                    yield from walk_objs(d)
            else:
                yield from walk_objs(c)


def gen_formula(rng, logic):
    d = rng.choice([1, 2, 2, 3, 3])
    mode = rng.random()
    pool = ['p', 'q']
    if mode < 0.45:
        pool = pool + rng.sample(FIXED[logic], rng.choice([1, 2, 3]))
    if logic == 'CTL':
        f = rand_ctl(rng, d, pool)
    else:
        f = ('A', rand_path(rng, d, pool))
    if mode >= 0.35:
        # derived names: aim atoms at printed forms the run uses
        try:
            names = printed_names(logic, f)
        except Exception:
            names = []
        lp = list(leaves_paths(f))
        if names and lp:
            for _ in range(rng.choice([1, 1, 2, 3])):
                f = replace_at(f, rng.choice(lp), ('ap', rng.choice(names)))
    return f


SHAPES = [(1, [(0, 0)])] + [(2, [(0, d) for d in s0] + [(1, d) for d in s1])
                            for s0 in ((0,), (1,), (0, 1)) for s1 in ((0,), (1,), (0, 1))]
PQ_LABELS = [list(c) for r in range(3) for c in itertools.combinations(('p', 'q'), r)]


def structures(rng, f, labelings, pq):
    aps = sorted(set(fatoms(f)) | {'p', 'q'})
    for n, R in SHAPES:
        for _ in range(labelings):
            yield {'S': list(range(n)), 'S0': [], 'R': R,
                   'L': {s: [a for a in aps if rng.random() < 0.5] for s in range(n)}}
        if pq:
            for labs in itertools.product(PQ_LABELS, repeat=n):
                yield {'S': list(range(n)), 'S0': [], 'R': R, 'L': {s: list(labs[s]) for s in range(n)}}


def ap(n):
    return ('ap', n)


P, Qa = ap('p'), ap('q')
K2 = {'S': [0, 1], 'S0': [], 'R': [(0, 1), (1, 0)], 'L': {0: ['p'], 1: []}}
K1 = {'S': [0], 'S0': [], 'R': [(0, 0)], 'L': {0: ['p']}}


def with_labels(kd, L):
    d = dict(kd)
    d['L'] = L
    return d


# (structure, formula, must_differ_from_clean)
HAND = {
    'CTL': [
        (K2, ('or', ap('(p or q)'), ('or', P, Qa)), True),                       # KF-print-a witness
        (K2, ('or', ('or', P, Qa), ap('(p or q)')), None),
        (with_labels(K2, {0: ['p'], 1: ['(p or q)']}), ('or', ('or', P, Qa), ap('(p or q)')), True),
        (with_labels(K2, {0: ['p', 'true'], 1: []}), ('or', ap('true'), ('not', ('true',))), None),
        (with_labels(K2, {0: ['p', 'true'], 1: []}), ('or', ('not', ('true',)), ap('true')), None),
        (with_labels(K2, {0: ['p', 'true'], 1: []}), ('or', ('not', ap('true')), ('true',)), None),
        (with_labels(K2, {0: ['p', 'true'], 1: []}), ('or', ('true',), ('not', ap('true'))), None),
        (with_labels(K2, {0: ['p', 'true'], 1: []}), ('and', ap('true'), ('true',), ap('true')), None),
        (with_labels(K2, {0: ['false'], 1: []}), ('or', ap('false'), ('false',), ap('false')), None),
        (with_labels(K2, {0: ['false'], 1: []}), ('or', ('false',), ap('false'), ('false',)), None),
        (K2, ('and', ('A', ('X', P)), ('not', ap('not EX not p'))), None),
        (K2, ('and', ('not', ap('not EX not p')), ('A', ('X', P))), None),
        (K2, ('or', ap('EX p'), ('E', ('X', P))), None),
        (K2, ('or', ('E', ('X', P)), ap('EX p')), None),
        (K2, ('or', ap('not p'), ('not', P)), None),
        (K2, ('or', ('not', P), ('not', ap('not p'))), None),
        (K2, ('or', ap('E(p U q)'), ('E', ('U', P, Qa))), None),
        (K2, ('or', ap('(p and q)'), ('and', P, Qa), ap('(p and q)')), None),
        (with_labels(K2, {0: ['p', 'q'], 1: ['(p and q)']}), ('or', ap('(p and q)'), ('and', P, Qa), ap('(p and q)')), None),
        (with_labels(K2, {0: ['p', 'q'], 1: ['(p and q)']}), ('or', ('and', P, Qa), ap('(p and q)')), None),
        (with_labels(K2, {0: ['p', 'q'], 1: ['not (not p or not q)']}),
         ('or', ap('not (not p or not q)'), ('and', P, Qa)), None),
        (with_labels(K2, {0: ['p'], 1: ['(p --> q)']}), ('and', ('imp', P, Qa), ap('(p --> q)')), None),
        (with_labels(K2, {0: ['p'], 1: ['(not p or q)']}), ('and', ap('(not p or q)'), ('imp', P, Qa)), None),
        (with_labels(K2, {0: ['p'], 1: ['EF p']}), ('and', ('E', ('F', P)), ('not', ap('EF p'))), None),
        (with_labels(K2, {0: ['p'], 1: ['E(true U p)']}), ('and', ap('E(true U p)'), ('E', ('F', P))), None),
        (with_labels(K2, {0: ['p'], 1: []}), ('and', ('E', ('F', P)), ('not', ap('E(true U p)'))), None),
    ],
    'LTL': [
        (K1, ('A', ('and', ('X', P), ('not', ap('X(p)')))), True),               # KF-print-a witness
        (K1, ('A', ('and', ('not', ap('X(p)')), ('X', P))), None),
        (K1, ('A', ('or', ap('X(p)'), ('X', P))), None),
        (K2, ('A', ('or', ap('X(p)'), ('not', ('X', P)))), None),
        (with_labels(K2, {0: ['true'], 1: []}), ('A', ('or', ap('true'), ('not', ('true',)))), None),
        (with_labels(K2, {0: ['true'], 1: []}), ('A', ('or', ('not', ('true',)), ap('true'))), None),
        (with_labels(K2, {0: ['true'], 1: []}), ('A', ('and', ('true',), ap('true'))), None),
        (with_labels(K2, {0: ['true'], 1: []}), ('A', ('and', ap('true'), ('true',))), None),
        (with_labels(K2, {0: ['false'], 1: []}), ('A', ('or', ap('false'), ('false',))), None),
        (with_labels(K2, {0: ['false'], 1: []}), ('A', ('or', ('false',), ap('false'))), None),
        (K2, ('A', ('or', ap('(p U q)'), ('U', P, Qa))), None),
        (K2, ('A', ('or', ('U', P, Qa), ap('X((p U q))'))), None),
        (K2, ('A', ('or', ap('X((p U q))'), ('U', P, Qa))), None),
        (K2, ('A', ('or', ap('not p'), P)), None),
        (K2, ('A', ('or', P, ap('not p'))), None),
        (K2, ('A', ('and', ('not', P), ap('not p'))), None),
        (K2, ('A', ('or', ap('not X(p)'), ('X', P))), None),
        (K2, ('A', ('or', ('X', P), ap('not X(p)'))), None),
        (K2, ('A', ('or', ap('X(not p)'), ('X', P))), None),
        (K2, ('A', ('or', ('X', ap('not p')), ('X', P))), None),
        (K2, ('A', ('or', ('X', P), ('X', ap('not p')))), None),
        (K2, ('A', ('F', ap('(true U p)'))), None),
        (K2, ('A', ('or', ('G', P), ap('not (true U not p)'))), None),
        (K2, ('A', ('or', ap('(p or q)'), ('or', P, Qa))), None),
        (K2, ('A', ('and', ('or', P, Qa), ('not', ap('(p or q)')))), None),
    ],
}


def impl(logic, K, f):
    L = lang_module(logic)
    r = call(lambda: L.modelcheck(K, to_py(f, L)))
    if r[0] == 'ok':
        return ('ok', sorted(r[1]))
    return r


def obs(o):
    return ('ok', sorted(ints(o[1]))) if o[0] == 'ok' else ('err', str(o[1]))


def has_print_collision(logic, f):
    """two different subtrees (of the formula as given) with the same printed form"""
    L = lang_module(logic)
    seen = {}
    for g in subformulas(f):
        if logic == 'CTL' and g[0] in ('X', 'F', 'G', 'U', 'R'):
            continue
        s = str(to_py(g, L))
        if seen.setdefault(s, g) != g:
            return True
    return False


def run_logic(logic, args, rng):
    faithful_cmd = {'CTL': 'ctlmemo', 'LTL': 'ltlprint'}[logic]
    clean_cmd = {'CTL': 'ctl', 'LTL': 'ltl'}[logic]
    cases = [(kd, f, must, 'hand') for kd, f, must in HAND[logic]]
    nform = 0
    seen = set()
    while nform < args.n:
        f = gen_formula(rng, logic)
        if f in seen:
            continue
        seen.add(f)
        nform += 1
        for kd in structures(rng, f, args.labelings, args.pq):
            cases.append((kd, f, None, 'random'))
    t0 = time.time()
    cmds, impls = [], []
    for kd, f, must, kind in cases:
        K = kd_py(kd)
        impls.append(impl(logic, K, f))
        ks = kripke_sx(K)
        cmds.append([faithful_cmd, ks, fsx(f)])
        cmds.append([clean_cmd, ks, fsx(f)])
    t1 = time.time()
    outs = model_batch_parallel(cmds, jobs=16, timeout=3000)
    t2 = time.time()
    st = {'cases': len(cases), 'formulas': nform, 'hand': len(HAND[logic]), 'mismatch_faithful': 0,
          'differs_from_clean': 0, 'faithful_differs_from_clean': 0, 'errors': 0, 'hand_bad': 0,
          'formulas_differing': set(), 'exotic_formulas': 0}
    st['exotic_formulas'] = sum(1 for f in seen if any(a not in ('p', 'q') for a in fatoms(f)))
    examples = []
    for i, (kd, f, must, kind) in enumerate(cases):
        r, fa, cl = tuple(impls[i]), obs(outs[2 * i]), obs(outs[2 * i + 1])
        if r[0] != 'ok':
            st['errors'] += 1
        if r != fa:
            st['mismatch_faithful'] += 1
            print('MISMATCH %s %s: K=%s f=%s\n   impl=%s faithful=%s clean=%s tree=%s'
                  % (logic, kind, json.dumps(kd_json(kd)), fstr(f), r, fa, cl, json.dumps(f)))
        if fa != cl:
            st['faithful_differs_from_clean'] += 1
        if r != cl:
            st['differs_from_clean'] += 1
            st['formulas_differing'].add(f)
            if len(examples) < 8 and kind == 'random':
                examples.append((kd, f, r, cl))
        if must is True and not (r == fa and r != cl):
            st['hand_bad'] += 1
            print('WITNESS NOT REPRODUCED %s: K=%s f=%s impl=%s faithful=%s clean=%s'
                  % (logic, json.dumps(kd_json(kd)), fstr(f), r, fa, cl))
    ncoll = sum(1 for f in st['formulas_differing'] if has_print_collision(logic, f))
    print('%s: %d cases (%d hand-written + %d random formulas, %d with exotic atoms, x structures); '
          'implementation vs FAITHFUL model: %d mismatches; implementation vs CLEAN model: %d cases differ '
          '(%d distinct formulas, %d of them with two different subtrees of the given formula printing alike; '
          'the others collide with a rewritten/closure formula); faithful vs clean differ: %d; '
          'impl raised: %d; python %.1fs, models %.1fs'
          % (logic, st['cases'], st['hand'], st['formulas'], st['exotic_formulas'], st['mismatch_faithful'],
             st['differs_from_clean'], len(st['formulas_differing']), ncoll, st['faithful_differs_from_clean'],
             st['errors'], t1 - t0, t2 - t1))
    for kd, f, r, cl in examples[:args.examples]:
        print('   e.g. K=%s f=%s impl=%s clean=%s' % (json.dumps(kd_json(kd)), fstr(f), r, cl))
    return st['mismatch_faithful'] + st['hand_bad']


def main():
    ap_ = argparse.ArgumentParser()
    ap_.add_argument('--n', type=int, default=3000)
    ap_.add_argument('--labelings', type=int, default=3)
    ap_.add_argument('--pq', action='store_true')
    ap_.add_argument('--seed', type=int, default=int(os.environ.get('VERIF_SEED', '0')))
    ap_.add_argument('--logic', default=None)
    ap_.add_argument('--quick', action='store_true')
    ap_.add_argument('--examples', type=int, default=4)
    args = ap_.parse_args()
    if args.quick:
        args.n = 300
    bad = 0
    for logic in ('CTL', 'LTL'):
        if args.logic in (None, logic):
            rng = random.Random(args.seed * 1000003 + (1 if logic == 'CTL' else 2))
            bad += run_logic(logic, args, rng)
    print('memo_probe: %s' % ('OK (zero mismatches between implementation and faithful models)' if bad == 0
                              else '%d PROBLEMS' % bad))
    sys.exit(1 if bad else 0)


if __name__ == '__main__':
    main()
