"""graphgen.py - digraph enumeration / generation shared by C12 and C13."""
import itertools, random


def all_digraphs(n):
    """every edge set over nodes 0..n-1 (self-loops included): 2^(n*n) graphs"""
    pairs = [(i, j) for i in range(n) for j in range(n)]
    for mask in range(1 << len(pairs)):
        yield [pairs[k] for k in range(len(pairs)) if (mask >> k) & 1]


def digraph_by_mask(n, mask):
    pairs = [(i, j) for i in range(n) for j in range(n)]
    return [pairs[k] for k in range(len(pairs)) if (mask >> k) & 1]


def rand_digraph(rng, n, p=None):
    p = p if p is not None else rng.choice([0.1, 0.2, 0.3, 0.5])
    return [(i, j) for i in range(n) for j in range(n) if rng.random() < p]


def closure(n_nodes, edges):
    """reflexive-transitive closure as dict node -> set (plain fixpoint; the oracle)"""
    reach = {v: {v} for v in n_nodes}
    changed = True
    while changed:
        changed = False
        for (s, d) in edges:
            for v in n_nodes:
                if s in reach[v] and d not in reach[v]:
                    reach[v].add(d)
                    changed = True
    return reach


def oracle_sccs(nodes, edges):
    r = closure(nodes, edges)
    comps = set()
    for v in nodes:
        comps.add(frozenset(w for w in nodes if w in r[v] and v in r[w]))
    return comps
