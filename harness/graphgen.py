"""graphgen.py - digraph enumeration / generation shared by C12 and C13."""
import itertools, random


def all_digraphs(n):
    """every edge set over nodes 0..n-1 (self-loops included): 2^(n*n) graphs"""
    pairs = [(i, j) for i in range(n) for j in range(n)]
    for mask in range(1 << len(pairs)):
        yield [pairs[k] for k in range(len(pairs)) if (mask >> k) & 1]


def digraph_by_mask(n, mask):
    pairs = [(i, j) for i in range(n) for j in range(n)]
    return [pairs[k] for k in range(len(pairs)) if (mask >> k) & 1]


def rand_digraph(rng, n, p=None):
    p = p if p is not None else rng.choice([0.1, 0.2, 0.3, 0.5])
    return [(i, j) for i in range(n) for j in range(n) if rng.random() < p]


def closure(n_nodes, edges):
    """reflexive-transitive closure as dict node -> set (plain fixpoint; the oracle)"""
    reach = {v: {v} for v in n_nodes}
    changed = True
    while changed:
        changed = False
        for (s, d) in edges:
            for v in n_nodes:
                if s in reach[v] and d not in reach[v]:
                    reach[v].add(d)
                    changed = True
    return reach


def oracle_sccs(nodes, edges):
    r = closure(nodes, edges)
    comps = set()
    for v in nodes:
        comps.add(frozenset(w for w in nodes if w in r[v] and v in r[w]))
    return comps


# ----------------------------------------------------------------------------------------
# node objects that are not 0..n-1 (shared by C12 and C13).  A graph over indices 0..n-1 is RENAMED through a bijection
# index -> object; the library runs on the renamed graph, results are mapped back through the bijection and compared with
# the model run on the index graph.  Nodes only have to be hashable: None, falsy values, mutually unorderable values,
# distinct nodes with equal str() / repr() / hash() are all legal.
# ----------------------------------------------------------------------------------------
class Station(object):
    """an ordinary object: equality and hash by identity; every instance of one name prints the same"""
    def __init__(self, name):
        self.name = name

    def __repr__(self):
        return 'Station(%s)' % (self.name,)


class Named(object):
    """identity-hashed object whose str() and repr() are those of an int"""
    def __init__(self, k):
        self.k = k

    def __repr__(self):
        return str(self.k)


class Collide(object):
    """identity equality, but only two hash values: distinct nodes share hash buckets"""
    def __init__(self, k):
        self.k = k

    def __hash__(self):
        return self.k % 2

    def __repr__(self):
        return 'Collide(%s)' % (self.k,)


# family -> list of kinds; a kind maps a small label to a node object.  Two picks of one family may give EQUAL objects
# (None, 0, '' ... exist once): node_objects() replaces the later one by a fresh tuple.
NODE_FAMILIES = {
    'none_and_falsy': [lambda l: None, lambda l: 0, lambda l: '', lambda l: (), lambda l: frozenset(), lambda l: -1 - l,
                       lambda l: 'None', lambda l: l + 1],
    'unorderable': [lambda l: l, lambda l: 's%d' % l, lambda l: (l, 'p'), lambda l: None, lambda l: frozenset([l]),
                    lambda l: Station(l), lambda l: l + 0.5, lambda l: b'b%d' % l],
    'equal_str': [lambda l: l, lambda l: str(l), lambda l: (l,), lambda l: str((l,)), lambda l: Named(l), lambda l: repr(str(l))],
    'equal_repr_or_hash': [lambda l: Station(l % 2), lambda l: Collide(l), lambda l: Named(l % 2), lambda l: (l % 2, Station(0))],
}


def rand_picks(rng, family, n):
    """n (kind, label) picks; labels from a small range so that equal str() / repr() really collide"""
    k = len(NODE_FAMILIES[family])
    return [[rng.randrange(k), rng.randrange(3)] for _ in range(n)]


def rotated_picks(family, n, shift):
    k = len(NODE_FAMILIES[family])
    return [[(i + shift) % k, (i + shift // k) % 2] for i in range(n)]


def node_objects(family, picks):
    """the bijection index -> node object of one renamed graph (deterministic in (family, picks): replayable)"""
    kinds = NODE_FAMILIES[family]
    objs = []
    for i, (kind, label) in enumerate(picks):
        o = kinds[kind % len(kinds)](label)
        if any(o is p or o == p for p in objs):
            o = ('again', i)
        objs.append(o)
    return objs


def index_of(objs):
    """object -> index ('foreign:<type>' for anything that is not one of the node OBJECTS)"""
    idx = {}
    for i, o in enumerate(objs):
        idx[o] = i

    def num(o):
        try:
            return idx.get(o, 'foreign:%s' % type(o).__name__)
        except TypeError:
            return 'foreign:unhashable'
    return num


# ----------------------------------------------------------------------------------------
# histories over SEVERAL graph objects (shared by C12 and C13): a graph is built, then edited in place (add_edge between
# existing nodes, to / from new nodes, add_node) and derived from (clone, reversed, subgraph); work goes on either on the
# derived object or on the original; after every step EVERY object of the history is observed again (so: an operation run
# ON a clone / a reversed graph / a subgraph, and G asked again after an edited derived graph was asked).
# ----------------------------------------------------------------------------------------
def rand_chain(rng, nmax=5, kmax=5):
    n = rng.randint(1, nmax)
    V = list(range(n))
    rng.shuffle(V)
    E = rand_digraph(rng, n)
    rng.shuffle(E)
    m = n
    ops = []
    for _ in range(rng.randint(1, kmax)):
        t = rng.random()
        if t < 0.38:
            a, b = rng.randrange(m + 1), rng.randrange(m + 1)
            if rng.random() < 0.75:
                a, b = rng.randrange(m), rng.randrange(m)          # between nodes that (probably) exist already
            ops.append(['edge', a, b])
            m = max(m, a + 1, b + 1)
        elif t < 0.46:
            v = rng.randrange(m + 1)
            ops.append(['node', v])
            m = max(m, v + 1)
        elif t < 0.66:
            ops.append(['clone', int(rng.random() < 0.6)])
        elif t < 0.80:
            ops.append(['rev', int(rng.random() < 0.6)])
        elif t < 0.92:
            X = [v for v in range(m + 1) if rng.random() < 0.6]
            if X and rng.random() < 0.3:
                X = X + X[:2]
            rng.shuffle(X)
            ops.append(['sub', X, int(rng.random() < 0.6)])
        else:
            ops.append(['goto', rng.randrange(6)])
    Q = [[rng.randrange(m)], [v for v in range(m) if rng.random() < 0.4]]
    if rng.random() < 0.3:
        Q.append(Q[1] + Q[0] + Q[1][:1])                                 # a node collection that names a node twice
    return {'V': V, 'E': [list(e) for e in E], 'ops': ops, 'Q': Q}


def live_sx(G):
    """presentation of a live DiGraph (dict order and set iteration order read back)"""
    return [[k, list(ds)] for k, ds in G._next.items()]


def ints_only(p):
    return all(type(k) is int and all(type(d) is int for d in ds) for k, ds in p)


def exec_chain(chain, observe, call):
    """run one history on live objects.  Returns (steps, shared cells, the objects); a step is a dict: op, target (index of the object the
    op was applied to), before (presentation of the target before the op), outcome ('ok' / exception enum), new (index of the
    object the op returned, or None), obs: [(index, presentation, observe(object, index))] for every object of the history"""
    from pyModelChecking.graph import DiGraph
    G = DiGraph(V=list(chain['V']), E=[tuple(e) for e in chain['E']])
    objs = [G]
    cur = 0
    steps = [{'op': ['init'], 'target': 0, 'before': None, 'outcome': 'ok', 'new': 0,
              'obs': [(0, live_sx(G), observe(G, 0))]}]
    for op in chain['ops']:
        H = objs[cur]
        st = {'op': op, 'target': cur, 'before': live_sx(H), 'new': None}
        if op[0] == 'goto':
            cur = op[1] % len(objs)
            st['outcome'] = 'ok'
        else:
            if op[0] == 'edge':
                r = call(lambda: H.add_edge(op[1], op[2]))
            elif op[0] == 'node':
                r = call(lambda: H.add_node(op[1]))
            elif op[0] == 'clone':
                r = call(lambda: H.clone())
            elif op[0] == 'rev':
                r = call(lambda: H.get_reversed_graph())
            else:
                X = list(op[1])
                r = call(lambda: H.get_subgraph(X))
                if X != list(op[1]):
                    r = ('err', 'other:the list given to get_subgraph was modified')
            st['outcome'] = 'ok' if r[0] == 'ok' else r[1]
            if r[0] == 'ok' and op[0] in ('clone', 'rev', 'sub'):
                if not isinstance(r[1], DiGraph):
                    st['outcome'] = 'other:the result is not a DiGraph'
                else:
                    known = [i for i, o in enumerate(objs) if o is r[1]]
                    if known:
                        st['outcome'] = 'other:the result IS an object of the history (object %d)' % known[0]
                    else:
                        objs.append(r[1])
                        st['new'] = len(objs) - 1
                        if op[-1]:
                            cur = st['new']
        st['obs'] = [(i, live_sx(o), observe(o, i)) for i, o in enumerate(objs)]
        steps.append(st)
    # no two objects of a history may share a successor set (or the whole map)
    seen = {}
    shared = []
    for i, o in enumerate(objs):
        for key, cell in [('the node map', o._next)] + [('the successor set of %r' % (k,), c) for k, c in o._next.items()]:
            if id(cell) in seen:
                shared.append('object %d (%s) and object %d share %s' % (seen[id(cell)][0], seen[id(cell)][1], i, key))
            seen.setdefault(id(cell), (i, key))
    return steps, shared, objs
