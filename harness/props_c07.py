"""C07 - model checking is a pure function of its arguments.
Theorems (Properties/C07.v): C07_frame, C07_refine, C07_history (heap model) on top of the exactness
theorems of the pure Gallina checkers (C01-C03).
Correspondence: random HISTORIES of modelcheck calls (3 logics x text/object formula x F in {None, [], [sets]})
over a pool of 4 live Kripke objects and 8 live formula objects.  After every call a deep snapshot (contents
AND identities) of EVERY pool structure and EVERY pool formula object is compared with the snapshot taken
before the history; every result is compared with the answer of the extracted model for that call IN
ISOLATION (the model is a pure function, so any dependence on the history shows as a difference).
A failing step is re-run in FRESH interpreters and the history is shrunk to a minimal prefix."""
from common import *
from mccheck import *
LEVEL = 'proof'

LOGICS = ('CTL', 'LTL', 'CTLS')
MODEL_F = {'CTL': 'ctlf', 'LTL': 'ltlf', 'CTLS': 'ctlsf'}
_PARSERS = {}


class CallTimeout(BaseException):
    pass


CALL_LIMIT_S = 20
SHRINK_BUDGET_S = 90
TIMEOUTS = [0]


def guarded(fn, seconds=None):
    """common.call with a wall-clock guard: a call that does not return (e.g. state accumulated over earlier
    calls blowing up a tableau) becomes the observation ('err', 'other:Timeout') instead of hanging the check"""
    import signal
    seconds = seconds or CALL_LIMIT_S

    def on_alarm(sig, frame):
        raise CallTimeout()
    old = signal.signal(signal.SIGALRM, on_alarm)
    signal.setitimer(signal.ITIMER_REAL, seconds)
    try:
        return call(fn)
    except CallTimeout:
        TIMEOUTS[0] += 1
        return ('err', 'other:Timeout(no answer within %ds)' % seconds)
    finally:
        signal.setitimer(signal.ITIMER_REAL, 0)
        signal.signal(signal.SIGALRM, old)


def shared_parser(logic):
    """one explicit parser object per logic and interpreter (passed as parser=...)"""
    if logic not in _PARSERS:
        _PARSERS[logic] = lang_module(logic).Parser()
    return _PARSERS[logic]


# ----------------------------------------------------------------------------------------
# deep snapshots: contents and identities
# ----------------------------------------------------------------------------------------
def _leaf(x):
    if isinstance(x, (set, frozenset)):
        return (type(x).__name__, tuple(sorted(map(repr, x))))
    if isinstance(x, (list, tuple)):
        return (type(x).__name__, tuple(map(repr, x)))
    return repr(x)


def snap_kripke(K):
    """every attribute of the object: identity and contents; dict values (successor sets, label sets)
    with their own identity"""
    out = [('class', type(K).__module__ + '.' + type(K).__name__)]
    for name in sorted(vars(K)):
        v = getattr(K, name)
        if isinstance(v, dict):
            out.append((name, id(v), tuple(sorted((repr(k), id(x), _leaf(x)) for k, x in v.items()))))
        else:
            out.append((name, id(v), _leaf(v)))
    return (tuple(out), kripke_snapshot(K))


def internal_ids(K):
    ids = set()
    for v in vars(K).values():
        ids.add(id(v))
        if isinstance(v, dict):
            ids.update(id(x) for x in v.values())
    return ids


def snap_formula(o):
    """printed form, tree, and per node: identity, class, attributes, identity of the child list and children"""
    nodes = []

    def walk(n):
        items = []
        for k in sorted(vars(n)):
            v = vars(n)[k]
            if isinstance(v, list):
                items.append((k, id(v), tuple(id(c) for c in v)))
            else:
                items.append((k, repr(v)))
        nodes.append((id(n), type(n).__module__, type(n).__name__, tuple(items)))
        for c in vars(n).get('_subformula', ()):
            walk(c)
    walk(o)
    return (str(o), tree_of(o), tuple(nodes))


def describe_change(a, b):
    """what differs between two snapshots (short, for the report)"""
    kind = 'contents' if a[1] != b[1] else 'identity only'
    if a[0] and a[0][0][0] == 'class':                       # a structure snapshot
        da, db = {x[0]: x[1:] for x in a[0]}, {x[0]: x[1:] for x in b[0]}
        out = []
        for name in sorted(set(da) | set(db)):
            if name not in da or name not in db:
                out.append('attribute %s %s' % (name, 'added' if name not in da else 'removed'))
            elif da[name] != db[name]:
                if da[name][0] != db[name][0]:
                    out.append('%s is another object' % name)
                x, y = da[name][-1], db[name][-1]
                if isinstance(x, tuple) and x and isinstance(x[0], tuple) and len(x[0]) == 3:
                    ex, ey = {e[0]: e[1:] for e in x}, {e[0]: e[1:] for e in y}
                    for k in sorted(set(ex) | set(ey)):
                        if ex.get(k) != ey.get(k):
                            if k in ex and k in ey and ex[k][1] == ey[k][1]:
                                out.append('%s[%s] is another object (equal contents)' % (name, k))
                            else:
                                out.append('%s[%s]: %s -> %s' % (name, k, list(ex[k][1][1]) if k in ex else 'absent',
                                                                 list(ey[k][1][1]) if k in ey else 'absent'))
                elif x != y:
                    out.append('%s: %s -> %s' % (name, x, y))
        return '%s: %s' % (kind, '; '.join(out)[:600])
    out = []
    if a[0] != b[0]:
        out.append('printed form %r -> %r' % (a[0], b[0]))
    if a[1] != b[1]:
        out.append('tree %s -> %s' % (fstr(a[1]), fstr(b[1])))
    if a[2] != b[2] and not out:
        out.append('node identities / attributes: %s -> %s' % ([n for n in a[2] if n not in b[2]][:3], [n for n in b[2] if n not in a[2]][:3]))
    return '; '.join(out)[:600]


# ----------------------------------------------------------------------------------------
# pools, steps, histories
# ----------------------------------------------------------------------------------------
def n_temporal(f):
    return sum(1 for g in subformulas(f) if g[0] in TEMPORAL)


def n_quant(f):
    return sum(1 for g in subformulas(f) if g[0] in ('A', 'E'))


def in_logic(logic, f):
    return {'CTL': is_ctl_state, 'LTL': is_ltl_state, 'CTLS': is_ctls_state}[logic](f)


def gen_formula(rng, kind):
    while True:
        if kind == 'CTL':
            f = rand_ctl(rng, rng.randint(1, 3))
            if n_temporal(f) >= 1 and fsize(f) <= 14:
                return f
        elif kind == 'LTL':
            f = ('A', rand_path(rng, rng.randint(1, 3)))
            if 1 <= n_temporal(f) <= 4 and fsize(f) <= 12:
                return f
        elif kind == 'ALL':      # in all three logics: A <op> over propositional operands
            o = rng.choice(['X', 'F', 'G', 'U', 'R'])
            a, b = rand_pl(rng, 1), rand_pl(rng, 1)
            return ('A', (o, a) if o in 'XFG' else (o, a, b))
        else:                    # genuine CTL*: not CTL, not LTL, a quantifier nested below a quantifier
            f = rand_ctls_state(rng, rng.randint(2, 3))
            if (not is_ctl_state(f) and not is_ltl_state(f) and n_quant(f) >= 2 and 1 <= n_temporal(f) <= 5
                    and fsize(f) <= 14 and any(g[0] in ('A', 'E') and n_quant(g) >= 2 for g in subformulas(f))):
                return f


def gen_pool(rng):
    structs = [kd_json(rand_kripke(rng, rng.randint(1, 4))) for _ in range(4)]
    kinds = ['CTL', 'CTL', 'LTL', 'LTL', 'CTLS', 'CTLS', 'CTLS', 'ALL']
    return {'structs': structs, 'formulas': [gen_formula(rng, k) for k in kinds]}


def gen_F(rng, states):
    r = rng.random()
    if r < 0.5:
        return None
    if r < 0.62:
        return []
    return [sorted(s for s in states if rng.random() < 0.5) for _ in range(rng.randint(1, 3))]


def gen_step(rng, desc, p_text, p_textp):
    fi = rng.randrange(len(desc['formulas']))
    f = desc['formulas'][fi]
    si = rng.randrange(len(desc['structs']))
    ok = [l for l in LOGICS if in_logic(l, f)]
    if rng.random() < 0.04:
        bad = [l for l in LOGICS if l not in ok]
        if bad:      # out-of-logic object: documented TypeError, must be just as pure
            return {'logic': rng.choice(bad), 's': si, 'f': fi, 'mode': 'obj:CTLS',
                    'F': gen_F(rng, desc['structs'][si]['S'])}
    logic = rng.choice(ok)
    F = gen_F(rng, desc['structs'][si]['S'])
    r = rng.random()
    if r < p_text:
        mode = 'text'
    elif r < p_text + p_textp:
        mode = 'textp'
    else:
        mode = 'obj'
        x = rng.random()
        # objects of another language module (same tree): CTL.modelcheck casts CTL* objects,
        # CTLS.modelcheck accepts CTL / LTL objects, LTL.modelcheck accepts CTL* objects A g
        if x < 0.12 and logic in ('CTL', 'LTL'):
            mode = 'obj:CTLS'
        elif x < 0.12 and logic == 'CTLS' and F is None:
            other = [l for l in ('CTL', 'LTL') if l in ok]
            if other:
                mode = 'obj:' + rng.choice(other)
    return {'logic': logic, 's': si, 'f': fi, 'mode': mode, 'F': F}


def gen_history(rng, desc, maxlen, p_text, p_textp):
    n = rng.randint(2, maxlen)
    hist = []
    while len(hist) < n:
        r = rng.random()
        if hist and r < 0.25:
            hist.append(dict(rng.choice(hist)))                      # the same call again
        elif hist and r < 0.35:
            st = dict(rng.choice(hist))                              # same (structure, formula), other channel
            if not in_logic(st['logic'], desc['formulas'][st['f']]):
                st['mode'] = 'obj:CTLS'
            else:
                st['mode'] = 'obj' if st['mode'] != 'obj' else 'text'
            hist.append(st)
        else:
            hist.append(gen_step(rng, desc, p_text, p_textp))
    return hist


TEXTOP = {'not': 'not', 'or': 'or', 'and': 'and', 'imp': '-->'}


def ftext(f):
    """concrete syntax accepted by the three parsers (every non-leaf operand parenthesised)"""
    t = f[0]
    if t in ('true', 'false'):
        return t
    if t == 'ap':
        return f[1]

    def w(g):
        return ftext(g) if g[0] in ('true', 'false', 'ap') else '(' + ftext(g) + ')'
    op = TEXTOP.get(t, t)
    if t in UNARY:
        return op + ' ' + w(f[1])
    return (' %s ' % op).join(w(g) for g in f[1:])


class Pool:
    """the caller's live objects of one history"""

    def __init__(self, desc):
        self.desc = desc
        self.K = [kd_py(kd_from_json(s)) for s in desc['structs']]
        self.F = [detuple(f) for f in desc['formulas']]
        self.ks = [kripke_sx(K) for K in self.K]       # model presentation, read before any call
        self.base_k = [snap_kripke(K) for K in self.K]
        self.objs = {}
        self.base_f = {}
        self.texts = {}

    def obj(self, fi, lang):
        k = (fi, lang)
        if k not in self.objs:
            self.objs[k] = to_py(self.F[fi], lang_module(lang))
            self.base_f[k] = snap_formula(self.objs[k])
        return self.objs[k]

    def text(self, fi, logic):
        k = (fi, logic)
        if k not in self.texts:
            t = ftext(self.F[fi])
            back = call(lambda: tree_of(shared_parser(logic)(t)))
            if back != ('ok', self.F[fi]):
                raise RuntimeError('text form %r of %r does not parse back in %s: %r' % (t, self.F[fi], logic, back))
            self.texts[k] = t
        return self.texts[k]

    def changes(self):
        out = []
        for i, K in enumerate(self.K):
            s = snap_kripke(K)
            if s != self.base_k[i]:
                out.append('structure %d changed (%s)' % (i, describe_change(self.base_k[i], s)))
        for k, o in self.objs.items():
            s = snap_formula(o)
            if s != self.base_f[k]:
                out.append('formula object %s changed (%s)' % (k, describe_change(self.base_f[k], s)))
        return out

    def model_cmd(self, st):
        f = self.F[st['f']]
        ks = self.ks[st['s']]
        logic = st['logic']
        if st['F'] is None:
            if logic == 'CTL':
                return ['ctl', ks, fsx(f)]
            if logic == 'LTL':
                return ['ltl', ks, fsx(f)]
            lang = st['mode'][4:] if st['mode'].startswith('obj:') else 'CTLS'
            return ['ctls', lang, ks, fsx(f)]
        return [MODEL_F[logic], ks, fsx(f), [sorted(P) for P in st['F']]]


def exec_step(pool, st, kept):
    """one call of the real library on the caller's objects; observation = result + what changed"""
    L = lang_module(st['logic'])
    K = pool.K[st['s']]
    mode = st['mode']
    if mode.startswith('text'):
        arg = pool.text(st['f'], st['logic'])
    else:
        arg = pool.obj(st['f'], mode[4:] or st['logic'])
    kw = {}
    Fsnap = None
    if st['F'] is not None:
        kw['F'] = [set(P) for P in st['F']]
        Fsnap = [set(P) for P in kw['F']]
    if mode == 'textp':
        kw['parser'] = shared_parser(st['logic'])
    r = guarded(lambda: L.modelcheck(K, arg, **kw))
    notes = []
    if r[0] == 'ok':
        v = r[1]
        if type(v) is not set:
            res = ['err', 'other:not-a-set:' + type(v).__name__]
        else:
            res = ['ok', sorted(v)]
            if any(v is e for e in kept):
                notes.append('the returned set IS the object returned by an earlier call')
            if any(id(v) in internal_ids(Kx) for Kx in pool.K):
                notes.append('the returned set IS an internal object of a caller structure')
            kept.append(v)
    else:
        res = list(r)
    notes += pool.changes()
    if Fsnap is not None and (kw['F'] != Fsnap):
        notes.append('the fairness argument F was modified: %r -> %r' % (Fsnap, kw['F']))
    return {'res': res, 'notes': notes}


def exec_history(desc, hist):
    pool = Pool(desc)
    kept = []
    obs = []
    for st in hist:
        o = exec_step(pool, st, kept)
        obs.append(o)
        if o['notes']:
            break        # the caller's objects are no longer the ones the model was given
    return pool, obs


def exec_history_fresh(desc, hist, prelude=()):
    """the same in a fresh interpreter (no module-level state from earlier histories of this run); `prelude` =
    earlier (pool, history) episodes to execute first in that interpreter"""
    import subprocess
    p = subprocess.run([sys.executable, os.path.abspath(__file__), '--exec'],
                       input=json.dumps({'pool': desc, 'hist': hist, 'prelude': list(prelude)}),
                       capture_output=True, text=True, timeout=900)
    lines = [l for l in p.stdout.split('\n') if l.startswith('OBS ')]
    if not lines:
        raise RuntimeError('fresh interpreter failed: rc=%s %s' % (p.returncode, p.stderr[-500:]))
    return json.loads(lines[-1][4:])


def step_fails(o, exp):
    return bool(o['notes']) or list(o['res']) != list(exp)


def shrink(desc, hist, exps, earlier):
    """hist[-1] fails in the main process.  Re-run in fresh interpreters: first the history alone, then (module-level
    state) preceded by the last 1, 2, 4, ... 64 earlier episodes of this run; then drop prelude episodes and steps
    while the last step still fails (within a time budget).  Returns (prelude, history, expectations, fresh observations, reproduced?)"""
    t_end = time.time() + SHRINK_BUDGET_S

    def fails(pre, h, e):
        if time.time() > t_end:          # out of budget: keep what we have
            return False, None
        o = exec_history_fresh(desc, h, pre)
        return (len(o) == len(h) and step_fails(o[-1], e[-1])), o
    pre = []
    ok, obs = fails(pre, hist, exps)
    k = 1
    while not ok and earlier and k <= 64:
        pre = [{'pool': d, 'hist': h} for d, h in earlier[-k:]]
        ok, obs = fails(pre, hist, exps)
        if k >= len(earlier):
            break
        k *= 2
    if not ok:
        return [], hist, exps, obs, False
    i = 0
    while i < len(pre):                       # whole earlier episodes
        cand = pre[:i] + pre[i + 1:]
        ok, o = fails(cand, hist, exps)
        if ok:
            pre, obs = cand, o
        else:
            i += 1
    for ep in range(len(pre)):                # steps of the remaining earlier episodes
        i = 0
        while i < len(pre[ep]['hist']) and sum(len(e['hist']) for e in pre) <= 60:
            cand = [dict(e) for e in pre]
            cand[ep] = {'pool': pre[ep]['pool'], 'hist': pre[ep]['hist'][:i] + pre[ep]['hist'][i + 1:]}
            ok, o = fails(cand, hist, exps)
            if ok:
                pre, obs = cand, o
            else:
                i += 1
    pre = [e for e in pre if e['hist']]
    cur, cexp = list(hist), list(exps)
    i = 0
    while i < len(cur) - 1:                   # steps of the failing history itself
        cand, candexp = cur[:i] + cur[i + 1:], cexp[:i] + cexp[i + 1:]
        ok, o = fails(pre, cand, candexp)
        if ok:
            cur, cexp, obs = cand, candexp, o
        else:
            i += 1
    return pre, cur, cexp, obs, True


def step_str(desc, st):
    return '%s.modelcheck(K%d, %s %s%s)' % (st['logic'], st['s'], st['mode'], fstr(detuple(desc['formulas'][st['f']])),
                                            '' if st['F'] is None else ', F=%s' % st['F'])


def exp_of(o):
    m = model_obs(o)
    return [m[0], m[1]]


# ----------------------------------------------------------------------------------------
def run(R):
    R.rule = ('histories of modelcheck calls over a fresh random pool per history (4 structures <= 4 states, labels over {p,q}; '
              '8 formulas: 2 CTL, 2 LTL, 3 genuine CTL* with a quantifier nested below a quantifier, 1 in all three logics); '
              'step = (logic, structure, formula, object | object of another language module | text | text with an explicit shared parser, '
              'F in {None, [], 1-3 random state sets}); 25% of the steps repeat an earlier call, 10% repeat it through the other channel, '
              '4% out-of-logic objects (TypeError); after every step deep snapshots (contents + identities) of all 4 structures and all '
              'formula objects, the result compared with the extracted model on that call in isolation (with F: the faithful model of the '
              "library's reduction); non-trivial = a history in which the same (structure, formula) is queried at least twice with other "
              'calls in between and a CTL* or fairness call occurred; distinct by (pool, history)')
    rng = R.rng
    if R.thorough:
        n_hist, maxlen, p_text, p_textp = 3000, 40, 0.06, 0.2
    else:
        n_hist, maxlen, p_text, p_textp = 150, 12, 0.2, 0.12
    runs = []
    cmd_index = {}
    cmds = []
    for h in range(n_hist):
        desc = gen_pool(rng)
        desc = json.loads(json.dumps(desc))          # exactly what a replay will see
        hist = gen_history(rng, desc, maxlen, p_text, p_textp)
        if TIMEOUTS[0] >= 3:
            R.cov['stopped_after_call_timeouts'] = TIMEOUTS[0]
            break
        pool, obs = exec_history(desc, hist)
        keys = []
        for st in hist[:len(obs)]:
            c = pool.model_cmd(st)
            k = sx_str(c)
            if k not in cmd_index:
                cmd_index[k] = len(cmds)
                cmds.append(c)
            keys.append(cmd_index[k])
        runs.append((desc, hist, obs, keys))
    outs = model_batch_parallel(cmds)
    R.cov['model_commands_distinct'] = len(cmds)
    shrunk = 0
    for ri, (desc, hist, obs, keys) in enumerate(runs):
        exps = [exp_of(outs[k]) for k in keys]
        R.evaluations += len(obs)
        R.count('histories')
        R.count('len_%02d-%02d' % ((len(hist) - 1) // 5 * 5 + 1, (len(hist) - 1) // 5 * 5 + 5))
        bad = None
        for j, (st, o, e) in enumerate(zip(hist, obs, exps)):
            R.count('logic_' + st['logic'])
            R.count('mode_' + st['mode'])
            R.count('F_' + ('None' if st['F'] is None else 'empty' if not st['F'] else 'sets'))
            R.count('result_' + (o['res'][0] if o['res'][0] == 'ok' else o['res'][1]))
            if step_fails(o, e):
                bad = j
                break
        if bad is not None:
            report(R, desc, hist, obs, exps, bad, shrunk < 3, [(d, h) for d, h, _, _ in runs[:ri]])
            shrunk += 1
            if len(R.violations) >= 25:
                break
            continue
        # evidence: repeated (structure, formula) with other calls in between + a CTL* / fairness call
        seen = {}
        rep = False
        for j, st in enumerate(hist):
            k = (st['s'], st['f'])
            if k in seen and j - seen[k] >= 2:
                rep = True
            seen.setdefault(k, j)
        same_call = {}
        for st, o in zip(hist, obs):
            same_call.setdefault(json.dumps([st['logic'], st['s'], st['f'], st['F']]), []).append(o['res'])
        nrep = sum(1 for v in same_call.values() if len(v) > 1)
        R.count('calls_executed_more_than_once', nrep)
        star = any(st['F'] is not None or (st['logic'] == 'CTLS' and not is_ctl_state(detuple(desc['formulas'][st['f']])))
                   for st in hist)
        if rep and star:
            R.nontriv((desc, hist))
            R.sample({'structures': desc['structs'], 'history': [step_str(desc, st) for st in hist],
                      'results': [o['res'] for o in obs]}, limit=3)


def report(R, desc, hist, obs, exps, j, do_shrink, earlier):
    st, o, e = hist[j], obs[j], exps[j]
    # another execution of the same call in this history with a different observation?
    other = [i for i in range(j) if (hist[i]['logic'], hist[i]['s'], hist[i]['f'], hist[i]['F']) ==
             (st['logic'], st['s'], st['f'], st['F']) and obs[i]['res'] != o['res']]
    data = {'pool': desc, 'history': hist[:j + 1], 'expected': exps[:j + 1], 'failing_step': j,
            'step': step_str(desc, st), 'impl': o['res'], 'model_in_isolation': e, 'notes': o['notes'],
            'same_call_earlier_in_history_gave': [[i, obs[i]['res']] for i in other]}
    data['prelude'] = []
    if do_shrink:
        try:
            pre, mh, mexp, mobs, ok = shrink(desc, hist[:j + 1], exps[:j + 1], earlier)
            data['reproduced_in_fresh_interpreter'] = ok
            if ok:
                data['prelude'], data['history'], data['expected'], data['failing_step'] = pre, mh, mexp, len(mh) - 1
                data['minimal_history'] = (['(earlier pool %d) %s' % (i, step_str(e['pool'], s)) for i, e in enumerate(pre) for s in e['hist']]
                                           + [step_str(desc, s) for s in mh])
                data['minimal_observations'] = mobs
                alone = exec_history_fresh(desc, mh[-1:])
                data['failing_call_alone_in_fresh_interpreter'] = alone[-1]
        except Exception as ex:  # noqa
            data['shrink_failed'] = repr(ex)
    ncalls = len(data['history']) - 1 + sum(len(e['hist']) for e in data['prelude'])
    alone = data.get('failing_call_alone_in_fresh_interpreter')
    if o['notes']:
        what = 'modelcheck modified the caller\'s objects / leaked an object: ' + '; '.join(o['notes'])[:400]
    elif ncalls >= 1 and data.get('reproduced_in_fresh_interpreter') and alone is not None and not step_fails(alone, e):
        what = ('history dependence: %s returns %s after %d earlier call(s); the model and the same call alone in a fresh interpreter give %s'
                % (data['step'], o['res'], ncalls, e))
    elif other:
        what = 'history dependence: two executions of %s in one history differ (%s vs %s; model %s)' % (
            data['step'], obs[other[0]]['res'], o['res'], e)
    else:
        what = 'result of %s differs from the proved model on the same arguments: %s vs %s' % (data['step'], o['res'], e)
        if data.get('reproduced_in_fresh_interpreter') is False:
            what += ' (not reproduced in a fresh interpreter, even after the last 64 histories of this run)'
    R.violation(what, data)


def replay(R, data):
    d = data['data']
    desc, hist = d['pool'], d['history']
    for e in d.get('prelude', []):
        _, o = exec_history(e['pool'], e['hist'])
        for st, x in zip(e['hist'], o):
            print('earlier %-60s impl=%s' % (step_str(e['pool'], st), x['res']))
    pool, obs = exec_history(desc, hist)
    outs = model_batch([pool.model_cmd(st) for st in hist[:len(obs)]])
    bad = False
    for j, (st, o, m) in enumerate(zip(hist, obs, outs)):
        e = exp_of(m)
        f = step_fails(o, e)
        bad = bad or f
        print('step %2d %-60s impl=%s model=%s %s %s' % (j, step_str(desc, st), o['res'], e, '; '.join(o['notes']), '<-- VIOLATION' if f else ''))
    if bad:
        R.violation('replayed: history violates purity / differs from the model', d)


if __name__ == '__main__' and len(sys.argv) > 1 and sys.argv[1] == '--exec':
    _j = json.loads(sys.stdin.read())
    for _e in _j.get('prelude', []):
        exec_history(_e['pool'], _e['hist'])
    _pool, _obs = exec_history(_j['pool'], _j['hist'])
    print('OBS ' + json.dumps(_obs))
