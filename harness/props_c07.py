"""C07 - model checking is a pure function of its arguments.
Theorems (Properties/C07.v): C07_frame, C07_refine, C07_history (heap model) on top of the exactness
theorems of the pure Gallina checkers (C01-C03).
Correspondence: random HISTORIES over a pool of 4 live Kripke objects and 8 live formula objects.  A quarter of the
structures is installed with equal label sets sharing ONE set object; in 30% the states are plain objects compared
by identity (class Site: default address hash, only called with F=None; class SiteH: hashed like the int - see there)
instead of ints: the model stays on ints, arguments (F, relabelling) and results go through the
bijection int <-> object BY IDENTITY, and a result element that is not one of the structure's own state objects is a
violation (the objects are re-created deterministically from the description in every interpreter).  A step is
  * a modelcheck CALL (3 logics x formula channel x F in {None, [], [sets]} in several container forms), the formula
    channel being: an object built with constructors | an object of another language module | an object obtained
    from a parser and kept by the caller | text with the default parser | text with an explicit parser= that is the
    caller's SHARED parser object, a FRESH parser object, or (CTLS.modelcheck only, formula inside the sub-logic) a
    shared / fresh parser of the SUB-LOGIC (LTL.Parser() for A g, CTL.Parser() for CTL formulas);
  * or a RELABEL: the CALLER changes the labelling of a pool structure through the public routes K.labels(s) (live
    set: add / discard), K.labelling_function() (live dict: add / discard / assign a new set) and
    K.replace_labelling_function(L) (new dict, optionally with states sharing ONE set object, with omitted states
    and with an extra key that is not a state).  A relabel is the caller's change, not the library's: the model
    presentation and the snapshot baseline of that structure are refreshed, and every LATER call must equal the
    model on the CURRENT labelling (a relabel is usually followed by re-issuing earlier calls on that structure);
  * or an EDIT: the CALLER changes the TRANSITIONS / STATES / initial states of a pool structure through the public
    routes K.add_edge(a, b) (between existing states), K.next(a) (live successor set: add / discard, never the last
    successor), a NEW STATE with its edges (K.add_node / K.add_edge creating it, in-edges, out-edges and
    K.labelling_function()[n] = set(..) in varying order; one step, so that the structure is total and fully
    labelled at every call) and K.S0 (add / discard).  Treated exactly as a relabel: presentation and baseline are
    refreshed, later calls must equal the model on the structure AS IT IS NOW, earlier calls are re-issued.  In the
    general histories edits are rare; the EVOLVING-DESIGN stream is made of them: 2 small structures that the caller
    keeps editing (30% of the steps), most earlier calls re-issued after every change, formulas mostly one CTL
    operator (EX / AX, EG, EU, ..) over propositional operands, F=None in 75% of the calls;
  * or a REBUILD: the caller DISCARDS the structure of a pool slot (it is garbage before the next one is built) and
    builds another small structure in that slot - a loop over candidate designs.  The CHURN stream consists of such
    loops: 8-16 short-lived structures of 1-3 states, one after the other in 1-2 slots, each queried once or twice
    (mostly EX / AX-type formulas, all three logics) and compared with the model; how often the new object got the
    address of the discarded one is reported as coverage (anything keyed by id(K) that outlives a call).
After every call a deep snapshot (contents AND identities) of EVERY pool structure and EVERY pool formula object is
compared with its baseline; every result is compared with the answer of the extracted model for that call IN
ISOLATION on the presentation of the structure that is current at that step (the model is a pure function, so any
dependence on the history shows as a difference).  The model command of a step is produced DURING execution, in
step order, by the interpreter that executes the step.  A failing step is re-run in FRESH interpreters (which report
observations and their own model commands, so expectations are re-derived for every candidate) and the history is
shrunk to a minimal one (candidates whose caller steps are no longer applicable - an edit of a state that was never
added - are skipped).
ORDER INDEPENDENCE (model-free): look-alike formula pairs (f, f') with one subformula replaced by an atom named like its
printed form, executed in two fresh interpreters in opposite orders; a third of the pairs are CTL pairs in which a
whole CTL STATE subformula (Or(p,q) -> atom '(p or q)', E X p -> atom named like it) is replaced, so that both
members go through CTL.modelcheck on the same live structure.  The same once more UNDER FAIRNESS (85% of the calls carry F, a third
of the pairs are LTL pairs through LTL.modelcheck, a third of the structures carry the caller's atoms 'fair', 'fair0', ..).
FRESH-LABEL stream (executed first): histories over 2-4 structures that mostly share ONE shape and differ in which of the
caller's own atoms 'fair', 'fair0', 'fair1' label some of their states, so that the fresh fairness label picked by
Kripke.label_fair_states differs between the structures (and changes when the caller adds / discards such an atom); a few
formulas over p, q of one logic asked again and again, 88% of the calls with F; every answer against the model, which makes
the same fresh-label choice."""
from common import *
from mccheck import *
LEVEL = 'proof'

LOGICS = ('CTL', 'LTL', 'CTLS')
MODEL_F = {'CTL': 'ctlf', 'LTL': 'ltlf', 'CTLS': 'ctlsf'}
_PARSERS = {}


class CallTimeout(BaseException):
    pass


CALL_LIMIT_S = 20
SHRINK_BUDGET_S = 90
TIMEOUTS = [0]


def guarded(fn, seconds=None):
    """common.call with a wall-clock guard: a call that does not return (e.g. state accumulated over earlier
    calls blowing up a tableau) becomes the observation ('err', 'other:Timeout') instead of hanging the check"""
    import signal
    seconds = seconds or CALL_LIMIT_S

    def on_alarm(sig, frame):
        raise CallTimeout()
    old = signal.signal(signal.SIGALRM, on_alarm)
    signal.setitimer(signal.ITIMER_REAL, seconds)
    try:
        return call(fn)
    except CallTimeout:
        TIMEOUTS[0] += 1
        return ('err', 'other:Timeout(no answer within %ds)' % seconds)
    finally:
        signal.setitimer(signal.ITIMER_REAL, 0)
        signal.signal(signal.SIGALRM, old)


def shared_parser(logic):
    """one explicit parser object per logic and interpreter (passed as parser=...)"""
    if logic not in _PARSERS:
        _PARSERS[logic] = lang_module(logic).Parser()
    return _PARSERS[logic]


# ----------------------------------------------------------------------------------------
# deep snapshots: contents and identities
# ----------------------------------------------------------------------------------------
def _leaf(x):
    if isinstance(x, (set, frozenset)):
        return (type(x).__name__, tuple(sorted(map(repr, x))))
    if isinstance(x, (list, tuple)):
        return (type(x).__name__, tuple(map(repr, x)))
    return repr(x)


class Site(object):
    """a state that is a plain object: default identity __eq__ / __hash__ (the repr is deterministic so that
    snapshots can be compared; a COPY of a Site prints the same but is another state)"""

    def __init__(self, i):
        self.i = i

    def __repr__(self):
        return '%s(%d)' % (type(self).__name__, self.i)


class SiteH(Site):
    """identity __eq__ as well, but hashed by its number: sets and dicts of such states iterate exactly like those of the
    ints, in every interpreter.  This matters for calls with F=: the library's fair-SCC gate looks only at the FIRST
    member of an SCC (known defect, C15), so their results depend on the iteration orders inside the internal clone;
    the model derives those from the caller's structure, which is right for int-like hashes but not for address hashes
    (a clone's sets of address-hashed objects may iterate in another order than the original's: seen as 3 spurious
    differences in 62 000 thorough evaluations).  Plain Site states are therefore only used with F=None, where results
    do not depend on any iteration order (C06)."""

    def __hash__(self):
        return self.i


SITE_CLASS = {'id': Site, True: Site, 'hash': SiteH}


def snap_kripke(K):
    """every attribute of the object: identity and contents; dict values (successor sets, label sets)
    with their own identity; identities of the state OBJECTS themselves where states are not plain values"""
    out = [('class', type(K).__module__ + '.' + type(K).__name__)]
    for name in sorted(vars(K)):
        v = getattr(K, name)
        if isinstance(v, dict):
            out.append((name, id(v), tuple(sorted((repr(k), id(x), _leaf(x)) for k, x in v.items()))))
        else:
            out.append((name, id(v), _leaf(v)))
    objs = [('node', k) for k in K._next] + [('succ', d) for ds in K._next.values() for d in ds] + \
           [('label key', k) for k in K._labels] + [('S0', k) for k in K.S0]
    out.append(('identities of state objects', 0, tuple(sorted('%s %r @%x' % (w, k, id(k)) for w, k in objs if isinstance(k, Site)))))
    return (tuple(out), kripke_snapshot(K))


def internal_ids(K):
    ids = set()
    for v in vars(K).values():
        ids.add(id(v))
        if isinstance(v, dict):
            ids.update(id(x) for x in v.values())
    return ids


def snap_formula(o):
    """printed form, tree, and per node: identity, class, attributes, identity of the child list and children"""
    nodes = []

    def walk(n):
        items = []
        for k in sorted(vars(n)):
            v = vars(n)[k]
            if isinstance(v, list):
                items.append((k, id(v), tuple(id(c) for c in v)))
            else:
                items.append((k, repr(v)))
        nodes.append((id(n), type(n).__module__, type(n).__name__, tuple(items)))
        for c in vars(n).get('_subformula', ()):
            walk(c)
    walk(o)
    return (str(o), tree_of(o), tuple(nodes))


def describe_change(a, b):
    """what differs between two snapshots (short, for the report)"""
    kind = 'contents' if a[1] != b[1] else 'identity only'
    if a[0] and a[0][0][0] == 'class':                       # a structure snapshot
        da, db = {x[0]: x[1:] for x in a[0]}, {x[0]: x[1:] for x in b[0]}
        out = []
        for name in sorted(set(da) | set(db)):
            if name not in da or name not in db:
                out.append('attribute %s %s' % (name, 'added' if name not in da else 'removed'))
            elif da[name] != db[name]:
                if da[name][0] != db[name][0]:
                    out.append('%s is another object' % name)
                x, y = da[name][-1], db[name][-1]
                if isinstance(x, tuple) and x and isinstance(x[0], tuple) and len(x[0]) == 3:
                    ex, ey = {e[0]: e[1:] for e in x}, {e[0]: e[1:] for e in y}
                    for k in sorted(set(ex) | set(ey)):
                        if ex.get(k) != ey.get(k):
                            if k in ex and k in ey and ex[k][1] == ey[k][1]:
                                out.append('%s[%s] is another object (equal contents)' % (name, k))
                            else:
                                out.append('%s[%s]: %s -> %s' % (name, k, list(ex[k][1][1]) if k in ex else 'absent',
                                                                 list(ey[k][1][1]) if k in ey else 'absent'))
                elif x != y:
                    out.append('%s: %s -> %s' % (name, x, y))
        return '%s: %s' % (kind, '; '.join(out)[:600])
    out = []
    if a[0] != b[0]:
        out.append('printed form %r -> %r' % (a[0], b[0]))
    if a[1] != b[1]:
        out.append('tree %s -> %s' % (fstr(a[1]), fstr(b[1])))
    if a[2] != b[2] and not out:
        out.append('node identities / attributes: %s -> %s' % ([n for n in a[2] if n not in b[2]][:3], [n for n in b[2] if n not in a[2]][:3]))
    return '; '.join(out)[:600]


# ----------------------------------------------------------------------------------------
# pools, steps, histories
# ----------------------------------------------------------------------------------------
def n_temporal(f):
    return sum(1 for g in subformulas(f) if g[0] in TEMPORAL)


def n_quant(f):
    return sum(1 for g in subformulas(f) if g[0] in ('A', 'E'))


def in_logic(logic, f):
    return {'CTL': is_ctl_state, 'LTL': is_ltl_state, 'CTLS': is_ctls_state}[logic](f)


def is_call(st):
    return st.get('kind', 'call') == 'call'


def gen_formula(rng, kind):
    while True:
        if kind == 'CTL':
            f = rand_ctl(rng, rng.randint(1, 3))
            if n_temporal(f) >= 1 and fsize(f) <= 14:
                return f
        elif kind == 'LTL':
            f = ('A', rand_path(rng, rng.randint(1, 3)))
            if 1 <= n_temporal(f) <= 4 and fsize(f) <= 12:
                return f
        elif kind == 'ALL':      # in all three logics: A <op> over propositional operands
            o = rng.choice(['X', 'F', 'G', 'U', 'R'])
            a, b = rand_pl(rng, 1), rand_pl(rng, 1)
            return ('A', (o, a) if o in 'XFG' else (o, a, b))
        elif kind == 'CTLOP':    # one CTL operator over propositional operands: the answer is sensitive to single transitions
            o = rng.choice(['X', 'F', 'G', 'G', 'U', 'R'])
            a, b = rand_pl(rng, 1), rand_pl(rng, 1)
            return (rng.choice('AE'), (o, a) if o in 'XFG' else (o, a, b))
        elif kind == 'NEXT':     # EX / AX-type: one step along the transitions (A X g is in all three logics, E X g in CTL and CTL*)
            g = rand_pl(rng, 1)
            if rng.random() < 0.3:
                g = (rng.choice('AE'), ('X', g))
            f = (rng.choice('AEE'), ('X', g))
            r = rng.random()
            if r < 0.15:
                f = ('not', f)
            elif r < 0.3:
                f = (rng.choice(['or', 'and']), f, rand_leaf(rng, ('p', 'q')))
            return f
        else:                    # genuine CTL*: not CTL, not LTL, a quantifier nested below a quantifier
            f = rand_ctls_state(rng, rng.randint(2, 3))
            if (not is_ctl_state(f) and not is_ltl_state(f) and n_quant(f) >= 2 and 1 <= n_temporal(f) <= 5
                    and fsize(f) <= 14 and any(g[0] in ('A', 'E') and n_quant(g) >= 2 for g in subformulas(f))):
                return f


def gen_pool(rng):
    structs = [kd_json(rand_kripke(rng, rng.randint(1, 4))) for _ in range(4)]
    kinds = ['CTL', 'CTL', 'LTL', 'LTL', 'CTLS', 'CTLS', 'CTLS', 'ALL']
    # 'alias': the structure is installed with equal label sets SHARING one set object (mccheck.kd_py_aliased)
    # 'objstates': the states are plain objects compared by identity instead of the ints i (the model stays on ints):
    # 'id' = Site(i), default address hash, only called with F=None; 'hash' = SiteH(i), hashed like the int i
    return {'structs': structs, 'formulas': [gen_formula(rng, k) for k in kinds],
            'alias': [rng.random() < 0.25 for _ in structs],
            'objstates': [rng.choice(['id', 'hash']) if rng.random() < 0.3 else False for _ in structs]}


def objstates_of(desc, si):
    return (desc.get('objstates') or [False] * (si + 1))[si]


def gen_F(rng, states, objstates=False, p_none=0.5):
    r = rng.random()
    if r < p_none or objstates in ('id', True):
        return None
    if r < p_none + 0.12:
        return []
    if not objstates and rng.random() < 0.3:
        # a fairness set may mention states of ANOTHER structure of the caller (one F for a family of structures): they are simply
        # not states here.  With 'Fshared' the very same set objects are then passed to calls on different structures.
        states = sorted(set(states) | {0, 1, 2, 3, 4})
    return [sorted(s for s in states if rng.random() < 0.5) for _ in range(rng.randint(1, 3))]


# container forms of the fairness argument: (outer, inner).  Lists as INNER containers are not used: the library
# evaluates `set(scc) & P`, a TypeError for a list that is raised only if some SCC passes the first gate - nothing
# the model speaks about.
FFORMS = {'ls': (list, set), 'lf': (list, frozenset), 'ts': (tuple, set), 'tf': (tuple, frozenset)}


def gen_Fform(rng, st):
    if st['F'] is not None:
        r = rng.random()
        if r < 0.3:
            st['Fform'] = rng.choice(['lf', 'ts', 'tf'])
        if rng.random() < 0.3:
            st['Fshared'] = True       # the caller passes ONE container object to every call with this F
    return st


def gen_step(rng, desc, p_text, p_textp, sims=None, si=None, p_none=0.5):
    """`sims`: the generator's picture of the structures as they are NOW (states of a fairness argument are taken from it)"""
    fi = rng.randrange(len(desc['formulas']))
    f = desc['formulas'][fi]
    if si is None:
        si = rng.randrange(len(desc['structs']))
    states = sims[si].S if sims is not None else desc['structs'][si]['S']
    ok = [l for l in LOGICS if in_logic(l, f)]
    if rng.random() < 0.04:
        bad = [l for l in LOGICS if l not in ok]
        if bad:      # out-of-logic object: documented TypeError, must be just as pure
            return gen_Fform(rng, {'logic': rng.choice(bad), 's': si, 'f': fi, 'mode': 'obj:CTLS',
                                   'F': gen_F(rng, states, objstates_of(desc, si), p_none)})
    logic = rng.choice(ok)
    F = gen_F(rng, states, objstates_of(desc, si), p_none)
    r = rng.random()
    if r < p_text:
        mode = 'text'
    elif r < p_text + p_textp:
        mode = rng.choice(['textp', 'textn'])
        # CTLS.modelcheck with the parser of a SUB-LOGIC the formula belongs to (the objects it yields are objects of
        # that language module, which CTLS.modelcheck accepts); F is None as for the obj:CTL / obj:LTL channel
        sub = [l for l in ('CTL', 'LTL') if l in ok]
        if logic == 'CTLS' and F is None and sub and rng.random() < 0.5:
            mode = rng.choice(['textsub:', 'textsubp:']) + rng.choice(sub)
    else:
        mode = 'obj'
        x = rng.random()
        # objects of another language module (same tree): CTL.modelcheck casts CTL* objects,
        # CTLS.modelcheck accepts CTL / LTL objects, LTL.modelcheck accepts CTL* objects A g
        if x < 0.12 and logic in ('CTL', 'LTL'):
            mode = 'obj:CTLS'
        elif x < 0.12 and logic == 'CTLS' and F is None:
            other = [l for l in ('CTL', 'LTL') if l in ok]
            if other:
                mode = 'obj:' + rng.choice(other)
        elif x < 0.24:
            mode = 'pobj'      # the object the caller got from a parser of the called logic (and keeps)
    return gen_Fform(rng, {'logic': logic, 's': si, 'f': fi, 'mode': mode, 'F': F})


# ---- relabel steps ------------------------------------------------------------------------
EXTRA_KEY = 10 ** 6 + 7          # a key of the caller's labelling dict that is not a state
ATOMS = ('p', 'q')


class SimK:
    """plain-Python stand-in for the label and transition API of a Kripke object (a dict of label sets with the same
    aliasing, a dict of successor sets, S0): the generator tracks the current structure with it so that relabel and edit
    steps are effective and applicable"""

    def __init__(self, states, L, aliased=False, R=(), S0=()):
        self.N = {s: set() for s in states}
        for a, b in R:
            self.N.setdefault(a, set()).add(b)
            self.N.setdefault(b, set())
        self.S0 = set(S0)
        self.L = {s: set(L.get(s, ())) for s in self.N}
        if aliased:
            groups = {}
            self.L = {s: groups.setdefault(frozenset(v), v) for s, v in self.L.items()}

    @property
    def S(self):
        return list(self.N)

    def add_node(self, v):
        if v in self.N:
            raise RuntimeError('already a node')
        self.N[v] = set()

    def add_edge(self, a, b):
        if a not in self.N:
            self.N[a] = set()
        elif b in self.N[a]:
            raise RuntimeError('already an edge')
        if b not in self.N:
            self.add_node(b)
        self.N[a].add(b)

    def next(self, a):
        return self.N[a]

    def ok(self):
        """total, closed, fully labelled: a structure a modelcheck call may be given"""
        return (all(ds and ds <= set(self.N) for ds in self.N.values()) and all(s in self.L for s in self.N)
                and self.S0 <= set(self.N))

    def labels(self, s):
        return self.L[s]

    def labelling_function(self):
        return self.L

    def replace_labelling_function(self, L):
        old, self.L = self.L, L
        for s in self.S:
            L.setdefault(s, set())
        return old


def build_L(st, state=lambda i: i):
    """the caller's new labelling dict of a 'replace' step (`state`: int of the description -> state of the structure)"""
    groups, L = {}, {}
    items = [(state(k), list(v)) for k, v in st['L']]
    if st.get('extra'):
        items.insert(min(st['extra'] - 1, len(items)), (EXTRA_KEY, list(ATOMS)))
    for k, atoms in items:
        L[k] = groups.setdefault(frozenset(atoms), set(atoms)) if st.get('share') else set(atoms)
    return L


def apply_relabel(K, st, state=lambda i: i):
    """the caller changes the labelling of K (a live Kripke object, or a SimK) through a public route"""
    r = st['route']
    if r == 'labels.add':
        K.labels(state(st['state'])).add(st['atom'])
    elif r == 'labels.discard':
        K.labels(state(st['state'])).discard(st['atom'])
    elif r == 'dict.add':
        K.labelling_function()[state(st['state'])].add(st['atom'])
    elif r == 'dict.discard':
        K.labelling_function()[state(st['state'])].discard(st['atom'])
    elif r == 'dict.set':
        K.labelling_function()[state(st['state'])] = set(st['atoms'])
    elif r == 'replace':
        K.replace_labelling_function(build_L(st, state))
    else:
        raise ValueError('unknown relabel route %r' % (r,))


def sim_of(struct, aliased=False):
    return SimK(struct['S'], {int(k): v for k, v in struct['L'].items()}, aliased, [tuple(e) for e in struct['R']], struct['S0'])


def sims_of(desc):
    return [sim_of(s, a) for s, a in zip(desc['structs'], desc.get('alias') or [False] * len(desc['structs']))]


# ---- edit steps: the caller changes transitions / states / initial states --------------------
MAX_STATES = 6


def apply_edit(K, st, state=lambda i: i):
    """the caller changes the transitions / states of K (a live Kripke object, or a SimK) through public routes"""
    for op in st['ops']:
        k = op[0]
        if k == 'add_edge':
            K.add_edge(state(op[1]), state(op[2]))
        elif k == 'add_node':
            K.add_node(state(op[1]))
        elif k == 'next.add':
            K.next(state(op[1])).add(state(op[2]))
        elif k == 'next.discard':
            K.next(state(op[1])).discard(state(op[2]))
        elif k == 'label':
            K.labelling_function()[state(op[1])] = set(op[2])
        elif k == 'init':
            (K.S0.add if op[2] else K.S0.discard)(state(op[1]))
        else:
            raise ValueError('unknown edit op %r' % (op,))


def gen_edit(rng, si, sim):
    """always an effective change that leaves the structure total and fully labelled"""
    S = sim.S
    missing = [(a, b) for a in S for b in S if b not in sim.N[a]]
    removable = [(a, b) for a in S for b in sorted(sim.N[a]) if len(sim.N[a]) >= 2]
    r = rng.random()
    order = ['add', 'remove', 'new', 'init']
    first = 'add' if r < 0.4 else 'remove' if r < 0.62 else 'new' if r < 0.9 else 'init'
    order.remove(first)
    for what in [first] + order:
        if what == 'add' and missing:
            es = rng.sample(missing, 2 if len(missing) >= 2 and rng.random() < 0.25 else 1)
            ops = [['add_edge' if rng.random() < 0.7 else 'next.add', a, b] for a, b in es]
        elif what == 'remove' and removable:
            a, b = rng.choice(removable)
            ops = [['next.discard', a, b]]
            if missing and rng.random() < 0.3:       # an edge moved
                c = rng.choice([m for m in missing if m[0] == a] or missing)
                ops.insert(rng.randrange(2), ['add_edge', c[0], c[1]])
        elif what == 'new' and len(S) < MAX_STATES:
            n = max(S) + 1
            outs = rng.sample(S + [n], rng.randint(1, 2))
            ins = rng.sample(S, rng.randint(0 if rng.random() < 0.2 else 1, min(2, len(S))))
            edges = [['add_edge', n, d] for d in outs] + [['add_edge', a, n] for a in ins]
            form = rng.choice(['node', 'out', 'in'] if ins else ['node', 'out'])
            if form == 'node':
                rng.shuffle(edges)
                ops = [['add_node', n]] + edges
            else:
                head = edges[0] if form == 'out' else edges[len(outs)]
                rest = [e for e in edges if e is not head]
                rng.shuffle(rest)
                ops = [head] + rest
            ops.insert(rng.randint(0, len(ops)), ['label', n, sorted(a for a in ATOMS if rng.random() < 0.5)])
            if rng.random() < 0.15:
                ops.append(['init', n, True])
        elif what == 'init':
            s = rng.choice(S)
            ops = [['init', s, s not in sim.S0]]
        else:
            continue
        return {'kind': 'edit', 's': si, 'ops': ops}


def gen_rebuild(rng, si, maxn=4):
    """the caller discards the structure of slot si and builds another one there"""
    return {'kind': 'rebuild', 's': si, 'struct': kd_json(rand_kripke(rng, rng.randint(1, maxn)))}


def valid_history(desc, hist):
    """are all caller steps applicable in this order, and is every structure total and fully labelled after each of them?
    (a shrink candidate that dropped the step which added a state is not a history of the caller)"""
    try:
        sims = sims_of(desc)
        alias = desc.get('alias') or [False] * len(sims)
        for st in hist:
            k, si = st.get('kind', 'call'), st['s']
            if k == 'call':
                if st['F'] is not None and objstates_of(desc, si) and not all(x in sims[si].N for P in st['F'] for x in P):
                    return False
                continue
            if k == 'relabel':
                if 'state' in st and st['state'] not in sims[si].N:
                    return False
                apply_relabel(sims[si], st)
            elif k == 'edit':
                apply_edit(sims[si], st)
            elif k == 'rebuild':
                sims[si] = sim_of(st['struct'], alias[si])
            if not sims[si].ok():
                return False
        return True
    except Exception:  # noqa
        return False


def gen_relabel(rng, si, sim, atoms=ATOMS):
    """`atoms`: the atoms a single add / discard is about (the FRESH-LABEL stream adds the caller's atoms 'fair', 'fair0', ..)"""
    s = rng.choice(sim.S)
    cur = sim.L[s]
    r = rng.random()
    if r < 0.55:
        a = rng.choice(atoms)
        via = 'labels.' if rng.random() < 0.6 else 'dict.'
        return {'kind': 'relabel', 's': si, 'route': via + ('discard' if a in cur else 'add'), 'state': s, 'atom': a}
    if r < 0.7:
        new = rng.choice([x for x in ([], ['p'], ['q'], ['p', 'q']) if set(x) != cur])
        return {'kind': 'relabel', 's': si, 'route': 'dict.set', 'state': s, 'atoms': new}
    while True:
        L, changed = [], False
        for t in sim.S:
            if len(sim.S) > 1 and rng.random() < 0.1:
                changed = changed or bool(sim.L[t])
                continue                                      # omitted: the method installs an empty set
            new = sorted(sim.L[t]) if rng.random() < 0.4 else sorted(a for a in ATOMS if rng.random() < 0.5)
            changed = changed or set(new) != sim.L[t]
            L.append([t, new])
        if changed:
            break
    if rng.random() < 0.3:
        rng.shuffle(L)
    st = {'kind': 'relabel', 's': si, 'route': 'replace', 'L': L, 'share': rng.random() < 0.5}
    if rng.random() < 0.4:
        st['extra'] = rng.randint(1, len(L) + 1)              # position (1-based) of the non-state key in the dict
    return st


def gen_history(rng, desc, maxlen, p_text, p_textp, p_relabel=0.0, p_edit=0.0, p_rebuild=0.0, reissue=(0, 1, 1, 2, 2, 3), p_none=0.5):
    n = rng.randint(2, maxlen)
    hist, queue = [], []
    sims = sims_of(desc)
    alias = desc.get('alias') or [False] * len(sims)
    def applicable(c):
        """(after a rebuild of a slot with state OBJECTS) F names only states the structure has now"""
        return c['F'] is None or not objstates_of(desc, c['s']) or all(x in sims[c['s']].N for P in c['F'] for x in P)
    while len(hist) < n or queue:
        calls = [st for st in hist if is_call(st)]
        if p_rebuild:
            calls = [c for c in calls if applicable(c)]
        if queue:
            hist.append(queue.pop(0))
            continue
        r = rng.random()
        if calls and r < p_relabel + p_edit + p_rebuild:
            # the caller changes (or replaces) a structure, mostly one that was queried already; afterwards re-issue earlier calls on it
            si = rng.choice(calls)['s'] if rng.random() < 0.8 else rng.randrange(len(sims))
            if r < p_relabel:
                st = gen_relabel(rng, si, sims[si], tuple(desc.get('atoms') or ATOMS))
                apply_relabel(sims[si], st)
            elif r < p_relabel + p_edit:
                st = gen_edit(rng, si, sims[si])
                apply_edit(sims[si], st)
            else:
                st = gen_rebuild(rng, si)
                sims[si] = sim_of(st['struct'], alias[si])
            hist.append(st)
            earlier, seen = [], set()
            for c in calls:
                k = json.dumps(c, sort_keys=True)
                if c['s'] == si and k not in seen and applicable(c):
                    seen.add(k)
                    earlier.append(c)
            rng.shuffle(earlier)
            k = rng.choice(list(reissue))
            queue = [dict(c) for c in earlier[:k]]
            continue
        r = rng.random()
        if calls and r < 0.25:
            hist.append(dict(rng.choice(calls)))                     # the same call again
        elif calls and r < 0.35:
            st = dict(rng.choice(calls))                             # same (structure, formula), other channel
            if not in_logic(st['logic'], desc['formulas'][st['f']]):
                st['mode'] = 'obj:CTLS'
            else:
                st['mode'] = 'obj' if st['mode'] != 'obj' else 'text'
            hist.append(st)
        else:
            hist.append(gen_step(rng, desc, p_text, p_textp, sims, p_none=p_none))
    return hist


def gen_evolving(rng):
    """a design that evolves: 2 structures that the caller keeps editing (transitions, new states; some relabels), queried
    before and after every change (2-6 of the distinct earlier calls on a structure are re-issued after each change of it) with a small pool of formulas, half of them one CTL operator (EX / AX, EG, EU, ..) over
    propositional operands"""
    desc = {'structs': [kd_json(rand_kripke(rng, rng.randint(1, 3), maxdeg=2)) for _ in range(2)],
            'formulas': [gen_formula(rng, k) for k in ('NEXT', 'NEXT', 'CTLOP', 'CTLOP', 'CTLOP', 'ALL', 'CTL', 'LTL', 'CTLS')],
            'alias': [rng.random() < 0.25 for _ in range(2)],
            'objstates': [rng.choice(['id', 'hash']) if rng.random() < 0.25 else False for _ in range(2)]}
    return desc, gen_history(rng, desc, 24, 0.12, 0.08, 0.06, 0.3, 0.02, reissue=(2, 4, 6, 6), p_none=0.75)


def gen_churn(rng):
    """a loop over short-lived structures: 1-2 slots, 8-16 small designs built one after the other, each queried once or twice"""
    ns = rng.choice([1, 1, 2])
    desc = {'structs': [kd_json(rand_kripke(rng, rng.randint(1, 3))) for _ in range(ns)],
            'formulas': [gen_formula(rng, k) for k in ('NEXT', 'NEXT', 'NEXT', 'ALL', 'CTL', 'LTL', 'CTLS')],
            'alias': [rng.random() < 0.2 for _ in range(ns)],
            'objstates': [rng.choice(['id', 'hash']) if rng.random() < 0.2 else False for _ in range(ns)]}
    sims = sims_of(desc)
    hist = []
    for d in range(rng.randint(8, 16)):
        si = rng.randrange(ns)
        if d >= ns or rng.random() < 0.5:
            st = gen_rebuild(rng, si, 3)
            sims[si] = sim_of(st['struct'], desc['alias'][si])
            hist.append(st)
        for _ in range(rng.choice([1, 1, 1, 2])):
            hist.append(gen_step(rng, desc, 0.15, 0.1, sims, si))
    return desc, hist


# ---- the caller's own atoms spelled like the library's fresh fairness label ------------------------
# Kripke.label_fair_states picks the first of 'fair', 'fair0', 'fair1', .. that labels no state: the name depends on the STRUCTURE.
# Only structures carry these names; the formulas stay over p, q (a formula atom spelled like the label is captured: KF-fair-capture).
FAIR_NAMES = ('fair', 'fair0', 'fair1')
FAIR_DECOR = [(), ('fair',), ('fair',), ('fair', 'fair0'), ('fair', 'fair0'), ('fair0',), ('fair', 'fair0', 'fair1'), ('fair', 'fair1')]
FRESH_FORMULAS = {
    'CTL': [('E', ('G', ('ap', 'p'))), ('E', ('G', ('true',))), ('E', ('F', ('ap', 'q'))), ('A', ('F', ('ap', 'q'))), ('E', ('X', ('ap', 'p'))),
            ('E', ('U', ('ap', 'p'), ('ap', 'q'))), ('A', ('G', ('ap', 'p'))), ('A', ('X', ('ap', 'q')))],
    'LTL': [('A', ('F', ('false',))), ('A', ('F', ('ap', 'q'))), ('A', ('G', ('ap', 'p'))), ('A', ('U', ('ap', 'p'), ('ap', 'q'))), ('A', ('X', ('ap', 'q'))),
            ('A', ('G', ('or', ('ap', 'p'), ('ap', 'q'))))],
    'CTLS': [('E', ('G', ('F', ('ap', 'p')))), ('A', ('F', ('G', ('ap', 'q')))), ('E', ('G', ('ap', 'p'))), ('E', ('X', ('E', ('G', ('ap', 'p'))))),
             ('A', ('G', ('E', ('F', ('ap', 'q')))))],
}


def decorate(rng, kd, names):
    """the caller's atoms `names` on random states of kd (each on at least one state)"""
    L = {s: list(v) for s, v in kd['L'].items()}
    for a in names:
        for s in [s for s in kd['S'] if rng.random() < 0.4] or [rng.choice(kd['S'])]:
            L[s] = sorted(set(L[s]) | {a})
    return dict(kd, L=L)


def fresh_label_of(sim):
    """the label Kripke.label_fair_states will pick on the structure as it is now"""
    used = set(a for v in sim.L.values() for a in v)
    name, i = 'fair', 0
    while name in used:
        name, i = 'fair%d' % i, i + 1
    return name


def rand_loopy_kripke(rng, m):
    kd = rand_kripke(rng, m, maxdeg=2)
    for s in kd['S']:
        if rng.random() < 0.6 and (s, s) not in kd['R']:
            kd['R'].append((s, s))
    return kd


def gen_freshlabel(rng):
    """2-4 structures, most of them ONE shape (states, transitions, p/q labels) that differ only in which of the caller's atoms
    'fair', 'fair0', 'fair1' they carry on some states - so the fresh fairness label differs from structure to structure - queried
    mostly WITH fairness constraints, a few formulas (over p, q only) of one logic asked again and again; relabels add / discard
    the caller's fair-like atoms as well (the fresh label of ONE structure changes between two calls)"""
    ns = rng.randint(2, 4)
    base = rand_loopy_kripke(rng, rng.randint(2, 4))
    structs = []
    for i in range(ns):
        kd = base if i == 0 or rng.random() < 0.65 else rand_loopy_kripke(rng, rng.randint(2, 4))
        names = () if i == 0 and rng.random() < 0.6 else rng.choice(FAIR_DECOR)
        structs.append(kd_json(decorate(rng, kd, names)))
    logic = rng.choice(LOGICS)
    forms = rng.sample(FRESH_FORMULAS[logic], 3) + [gen_formula(rng, 'ALL'), gen_formula(rng, logic)]
    desc = {'structs': structs, 'formulas': forms, 'alias': [rng.random() < 0.15 for _ in range(ns)], 'objstates': [False] * ns,
            'atoms': ['p', 'q', 'fair', 'fair', 'fair0']}
    return desc, gen_history(rng, desc, 14, 0.1, 0.06, p_relabel=0.1, reissue=(1, 2, 3), p_none=0.12)


TEXTOP = {'not': 'not', 'or': 'or', 'and': 'and', 'imp': '-->'}


def ftext(f):
    """concrete syntax accepted by the three parsers (every non-leaf operand parenthesised)"""
    t = f[0]
    if t in ('true', 'false'):
        return t
    if t == 'ap':
        return f[1]

    def w(g):
        return ftext(g) if g[0] in ('true', 'false', 'ap') else '(' + ftext(g) + ')'
    op = TEXTOP.get(t, t)
    if t in UNARY:
        return op + ' ' + w(f[1])
    return (' %s ' % op).join(w(g) for g in f[1:])


def parser_lang(st):
    """language of the parser that turns the text of a text step into a formula (None: not a text step)"""
    m = st['mode']
    if m.startswith('textsub'):
        return m.split(':')[1]
    if m.startswith('text') or m == 'pobj':
        return st['logic']
    return None


def object_lang(st):
    """language module of the formula object the entry point works on"""
    m = st['mode']
    if m.startswith('obj:') or m.startswith('textsub'):
        return m.split(':')[1]
    return st['logic']


class Pool:
    """the caller's live objects of one history"""

    def __init__(self, desc):
        self.desc = desc
        alias = desc.get('alias') or [False] * len(desc['structs'])
        objst = desc.get('objstates') or [False] * len(desc['structs'])
        self.K, self.site, self.byid = [], [], []
        self.alias, self.objst = list(alias), list(objst)
        self.rebuilds = self.rebuilds_same_address = 0
        for s, a, ob in zip(desc['structs'], alias, objst):
            kd, site, byid = self.prepare(s, ob)
            self.K.append((kd_py_aliased if a else kd_py)(kd))
            self.site.append(site)
            self.byid.append(byid)
        self.F = [detuple(f) for f in desc['formulas']]
        self.ks = [self.sx(i) for i in range(len(self.K))]       # model presentation; refreshed when the CALLER relabels
        self.base_k = [snap_kripke(K) for K in self.K]
        self.objs = {}
        self.base_f = {}
        self.texts = {}
        self.Fobjs = {}

    @staticmethod
    def prepare(s, ob):
        """constructor arguments of the structure described by s (+ the bijection int <-> state object)"""
        kd = kd_from_json(s)
        site = byid = None
        if ob:      # the same structure over fresh identity-hashed state objects; bijection int <-> object
            ints = list(kd['S']) + [x for e in kd['R'] for x in e if x not in kd['S']]
            site = {}
            for i in ints:
                site.setdefault(i, SITE_CLASS[ob](i))
            byid = {id(o): i for i, o in site.items()}
            kd = {'S': [site[i] for i in kd['S']], 'S0': [site[i] for i in kd['S0']],
                  'R': [(site[x], site[y]) for x, y in kd['R']], 'L': {site[i]: v for i, v in kd['L'].items()}}
        return kd, site, byid

    def state(self, si, i):
        """the state of structure si that the description calls i"""
        return i if self.site[si] is None else self.site[si][i]

    def num(self, si, o):
        """the int of the description for state object o of structure si, by IDENTITY (None: not one of its states)"""
        if self.site[si] is None:
            return o
        i = self.byid[si].get(id(o))
        return i if i is not None and self.site[si][i] is o else None

    def sx(self, si):
        """model presentation (over ints) of structure si as it is now"""
        if self.site[si] is None:
            return kripke_sx(self.K[si])

        def num(o):
            i = self.num(si, o)
            if i is None:
                raise RuntimeError('structure %d contains the object %r that is not one of its states' % (si, o))
            return i
        return kripke_sx(self.K[si], num)

    def obj(self, fi, lang, parsed=False):
        k = (fi, lang, 'parsed') if parsed else (fi, lang)
        if k not in self.objs:
            if parsed:
                o = shared_parser(lang)(self.text(fi, lang))
                if tree_of(o) != self.F[fi]:
                    raise RuntimeError('parsed object of %r in %s has tree %r' % (self.F[fi], lang, tree_of(o)))
            else:
                o = to_py(self.F[fi], lang_module(lang))
            self.objs[k] = o
            self.base_f[k] = snap_formula(o)
        return self.objs[k]

    def text(self, fi, plang):
        """the text of formula fi, validated by parsing it back with the parser of language plang"""
        k = (fi, plang)
        if k not in self.texts:
            t = ftext(self.F[fi])
            back = call(lambda: tree_of(shared_parser(plang)(t)))
            if back != ('ok', self.F[fi]):
                raise RuntimeError('text form %r of %r does not parse back in %s: %r' % (t, self.F[fi], plang, back))
            self.texts[k] = t
        return self.texts[k]

    def fair_arg(self, st):
        outer, inner = FFORMS[st.get('Fform', 'ls')]
        si = st['s']

        def make():
            return outer(inner(self.state(si, i) for i in P) for P in st['F'])
        if not st.get('Fshared'):
            return make()
        k = (json.dumps(st['F']), st.get('Fform', 'ls'), None if self.site[si] is None else si)
        if k not in self.Fobjs:
            self.Fobjs[k] = make()
        return self.Fobjs[k]

    def changes(self):
        out = []
        for i, K in enumerate(self.K):
            s = snap_kripke(K)
            if s != self.base_k[i]:
                out.append('structure %d changed (%s)' % (i, describe_change(self.base_k[i], s)))
        for k, o in self.objs.items():
            s = snap_formula(o)
            if s != self.base_f[k]:
                out.append('formula object %s changed (%s)' % (k, describe_change(self.base_f[k], s)))
        return out

    def relabel(self, st):
        """the CALLER changes the labelling of a pool structure: new presentation, new baseline"""
        i = st['s']
        apply_relabel(self.K[i], st, lambda x: self.state(i, x))
        self.ks[i] = self.sx(i)
        self.base_k[i] = snap_kripke(self.K[i])

    def edit(self, st):
        """the CALLER changes transitions / states / initial states of a pool structure: new presentation, new baseline"""
        i = st['s']
        if self.site[i] is not None:       # state objects for the ints that are new
            for op in st['ops']:
                for x in op[1:3]:
                    if isinstance(x, int) and not isinstance(x, bool) and x not in self.site[i]:
                        o = SITE_CLASS[self.objst[i]](x)
                        self.site[i][x] = o
                        self.byid[i][id(o)] = x
        apply_edit(self.K[i], st, lambda x: self.state(i, x))
        self.ks[i] = self.sx(i)
        self.base_k[i] = snap_kripke(self.K[i])

    def rebuild(self, st):
        """the CALLER discards the structure of slot i - nothing of the caller refers to it any more when the next one is built -
        and builds another one there: new presentation, new baseline"""
        i = st['s']
        kd, site, byid = self.prepare(st['struct'], self.objst[i])
        make = kd_py_aliased if self.alias[i] else kd_py
        for k in [k for k in self.Fobjs if k[2] == i]:
            del self.Fobjs[k]              # fairness containers over the state OBJECTS of the discarded structure
        old = id(self.K[i])
        self.K[i] = None
        self.K[i] = make(kd)
        self.rebuilds += 1
        self.rebuilds_same_address += (id(self.K[i]) == old)     # coverage only
        self.site[i], self.byid[i] = site, byid
        self.ks[i] = self.sx(i)
        self.base_k[i] = snap_kripke(self.K[i])

    def model_cmd(self, st):
        """the model's view of a call, with the presentation of the structure that is current NOW"""
        f = self.F[st['f']]
        ks = self.ks[st['s']]
        logic = st['logic']
        if st['F'] is None:
            if logic == 'CTL':
                return ['ctl', ks, fsx(f)]
            if logic == 'LTL':
                return ['ltl', ks, fsx(f)]
            return ['ctls', object_lang(st), ks, fsx(f)]
        return [MODEL_F[logic], ks, fsx(f), [sorted(P) for P in st['F']]]


RELABEL_RES = ['ok', 'relabel']


def snap_F(F):
    """container types, order and contents of a fairness argument"""
    return [type(F).__name__, [[type(P).__name__, [x if isinstance(x, int) else '%r @%x' % (x, id(x)) for x in sorted(P, key=repr)]]
                               for P in F]]


def exec_step(pool, st, kept):
    """one step on the caller's objects; observation = result + what changed; also the model command of the step
    (None for a relabel), produced BEFORE the call from the presentation that is current at this step"""
    if not is_call(st):
        if st['kind'] == 'relabel':
            pool.relabel(st)
            return {'res': list(RELABEL_RES), 'notes': pool.changes(), 'labelling_now': sx_str(pool.ks[st['s']][2])}, None
        if st['kind'] == 'edit':
            pool.edit(st)
        elif st['kind'] == 'rebuild':
            pool.rebuild(st)
        else:
            raise ValueError('unknown step kind %r' % (st['kind'],))
        return {'res': list(RELABEL_RES), 'notes': pool.changes(), 'structure_now': sx_str(pool.ks[st['s']])}, None
    cmd = sx_str(pool.model_cmd(st))
    L = lang_module(st['logic'])
    K = pool.K[st['s']]
    mode = st['mode']
    kw = {}
    if mode.startswith('text'):
        pl = parser_lang(st)
        arg = pool.text(st['f'], pl)
        if mode == 'textp' or mode.startswith('textsubp:'):
            kw['parser'] = shared_parser(pl)                 # the caller's long-lived parser object of that language
        elif mode == 'textn' or mode.startswith('textsub:'):
            kw['parser'] = lang_module(pl).Parser()          # a parser object made for this call
    elif mode == 'pobj':
        arg = pool.obj(st['f'], st['logic'], parsed=True)
    else:
        arg = pool.obj(st['f'], mode[4:] or st['logic'])
    Fsnap = None
    if st['F'] is not None:
        kw['F'] = pool.fair_arg(st)
        Fsnap = snap_F(kw['F'])
    r = guarded(lambda: L.modelcheck(K, arg, **kw))
    notes = []
    if r[0] == 'ok':
        v = r[1]
        if type(v) is not set:
            res = ['err', 'other:not-a-set:' + type(v).__name__]
        else:
            if pool.site[st['s']] is None:
                res = ['ok', sorted(v)]
            else:       # back to the ints of the description through the bijection, BY IDENTITY
                mapped = [(pool.num(st['s'], e), e) for e in v]
                foreign = sorted(repr(e) for i, e in mapped if i is None)
                res = ['ok', sorted(i for i, e in mapped if i is not None)]
                if foreign:
                    res[1] += ['not a state: ' + x for x in foreign]
                    notes.append("result contains an object that is not a state of the caller's structure: %s (the states are "
                                 "plain objects compared by identity)" % ', '.join(foreign))
            if any(v is e for e in kept):
                notes.append('the returned set IS the object returned by an earlier call')
            if any(id(v) in internal_ids(Kx) for Kx in pool.K):
                notes.append('the returned set IS an internal object of a caller structure')
            if Fsnap is not None and any(v is P for P in kw['F']):
                notes.append('the returned set IS a member of the fairness argument')
            kept.append(v)
    else:
        res = list(r)
    notes += pool.changes()
    if Fsnap is not None and snap_F(kw['F']) != Fsnap:
        notes.append('the fairness argument F was modified: %s -> %s' % (Fsnap, snap_F(kw['F'])))
    return {'res': res, 'notes': notes}, cmd


def exec_history(desc, hist):
    """returns the pool, the observations and the model commands (s-expression text; None for relabel steps) of the
    executed steps"""
    pool = Pool(desc)
    kept = []
    obs, cmds = [], []
    for st in hist:
        o, c = exec_step(pool, st, kept)
        obs.append(o)
        cmds.append(c)
        if o['notes']:
            break        # the caller's objects are no longer the ones the model was given
    return pool, obs, cmds


def exec_history_fresh(desc, hist, prelude=()):
    """the same in a fresh interpreter (no module-level state from earlier histories of this run); `prelude` =
    earlier (pool, history) episodes to execute first in that interpreter.  Returns (observations, model commands)"""
    import subprocess
    p = subprocess.run([sys.executable, os.path.abspath(__file__), '--exec'],
                       input=json.dumps({'pool': desc, 'hist': hist, 'prelude': list(prelude)}),
                       capture_output=True, text=True, timeout=900)
    lines = [l for l in p.stdout.split('\n') if l.startswith('OBS ')]
    if not lines:
        raise RuntimeError('fresh interpreter failed: rc=%s %s' % (p.returncode, p.stderr[-500:]))
    j = json.loads(lines[-1][4:])
    return j['obs'], j['cmds']


MODEL_CACHE = {}


def expectations(cmds):
    """model answers of a list of commands (None = relabel step), memoised over the run"""
    todo = sorted({c for c in cmds if c is not None and c not in MODEL_CACHE})
    for c, o in zip(todo, model_batch_parallel(todo)):
        MODEL_CACHE[c] = exp_of(o)
    return [list(RELABEL_RES) if c is None else MODEL_CACHE[c] for c in cmds]


def step_fails(o, exp):
    return bool(o['notes']) or list(o['res']) != list(exp)


def relabels_and_last(hist):
    """the failing call 'alone': only the caller's own relabelling / editing of that structure before it (from the last
    rebuild of that slot on)"""
    last = hist[-1]
    own = [st for st in hist[:-1] if not is_call(st) and st['s'] == last['s']]
    for i in range(len(own) - 1, -1, -1):
        if own[i]['kind'] == 'rebuild':
            own = own[i:]
            break
    return own + [last]


def shrink(desc, hist, earlier):
    """hist[-1] fails in the main process.  Re-run in fresh interpreters: first the history alone, then (module-level
    state) preceded by the last 1, 2, 4, ... 64 earlier episodes of this run; then drop prelude episodes and steps
    (calls and relabels) while the last step still fails (within a time budget).  The expectations of every candidate
    are re-derived from the model commands that the fresh interpreter produced while executing it (dropping a
    relabel changes what later steps must return).
    Returns (prelude, history, expectations, fresh observations, reproduced?)"""
    t_end = time.time() + SHRINK_BUDGET_S

    def fails(pre, h):
        if time.time() > t_end:          # out of budget: keep what we have
            return False, None, None
        if not valid_history(desc, h) or not all(valid_history(e['pool'], e['hist']) for e in pre):
            return False, None, None     # not a history of the caller (e.g. an edit of a state whose creation was dropped)
        o, c = exec_history_fresh(desc, h, pre)
        if len(o) != len(h):
            return False, o, None
        e = expectations(c)
        return step_fails(o[-1], e[-1]), o, e
    pre = []
    ok, obs, exps = fails(pre, hist)
    k = 1
    while not ok and earlier and k <= 64:
        pre = [{'pool': d, 'hist': h} for d, h in earlier[-k:]]
        ok, obs, exps = fails(pre, hist)
        if k >= len(earlier):
            break
        k *= 2
    if not ok:
        return [], hist, None, obs, False
    i = 0
    while i < len(pre):                       # whole earlier episodes
        cand = pre[:i] + pre[i + 1:]
        ok, o, e = fails(cand, hist)
        if ok:
            pre, obs, exps = cand, o, e
        else:
            i += 1
    for ep in range(len(pre)):                # steps of the remaining earlier episodes
        i = 0
        while i < len(pre[ep]['hist']) and sum(len(e['hist']) for e in pre) <= 60:
            cand = [dict(e) for e in pre]
            cand[ep] = {'pool': pre[ep]['pool'], 'hist': pre[ep]['hist'][:i] + pre[ep]['hist'][i + 1:]}
            ok, o, e = fails(cand, hist)
            if ok:
                pre, obs, exps = cand, o, e
            else:
                i += 1
    pre = [e for e in pre if e['hist']]
    cur = list(hist)
    i = 0
    while i < len(cur) - 1:                   # steps of the failing history itself
        cand = cur[:i] + cur[i + 1:]
        ok, o, e = fails(pre, cand)
        if ok:
            cur, obs, exps = cand, o, e
        else:
            i += 1
    return pre, cur, exps, obs, True


def F_str(st):
    if st['F'] is None:
        return ''
    form = st.get('Fform', 'ls')
    return ', F=%s%s%s' % (st['F'], '' if form == 'ls' else ' as %s of %ss' % tuple(t.__name__ for t in FFORMS[form]),
                           ' (one shared object)' if st.get('Fshared') else '')


def kname(desc, si):
    """K2, or K2[Site] / K2[SiteH] when state i of the description is the object Site(i) / SiteH(i)"""
    ob = objstates_of(desc, si)
    return 'K%d%s' % (si, '[%s]' % SITE_CLASS[ob].__name__ if ob else '')


def step_str(desc, st):
    K = kname(desc, st['s'])
    if st.get('kind') == 'edit':
        def one(op):
            k = op[0]
            if k in ('add_edge', 'add_node'):
                return '%s.%s(%s)' % (K, k, ', '.join(map(str, op[1:])))
            if k.startswith('next.'):
                return '%s.next(%s).%s(%s)' % (K, op[1], k[5:], op[2])
            if k == 'label':
                return '%s.labelling_function()[%s] = set(%s)' % (K, op[1], op[2])
            return '%s.S0.%s(%s)' % (K, 'add' if op[2] else 'discard', op[1])
        return 'caller: ' + '; '.join(one(op) for op in st['ops'])
    if st.get('kind') == 'rebuild':
        j = st['struct']
        return 'caller: discards %s; %s = Kripke(S=%s, S0=%s, R=%s, L=%s)%s' % (
            K, K, j['S'], j['S0'], [tuple(e) for e in j['R']], {int(k): v for k, v in j['L'].items()},
            ' (labels re-installed with shared set objects)' if (desc.get('alias') or [False] * (st['s'] + 1))[st['s']] else '')
    if not is_call(st):
        r = st['route']
        if r == 'replace':
            return 'caller: %s.replace_labelling_function(%s%s%s)' % (
                K, {k: v for k, v in st['L']}, ', equal sets shared' if st.get('share') else '',
                ', + non-state key at position %d' % st['extra'] if st.get('extra') else '')
        if r == 'dict.set':
            return 'caller: %s.labelling_function()[%s] = set(%s)' % (K, st['state'], st['atoms'])
        acc = 'labels(%s)' % st['state'] if r.startswith('labels.') else 'labelling_function()[%s]' % st['state']
        return 'caller: %s.%s.%s(%r)' % (K, acc, r.split('.')[1], st['atom'])
    f = detuple(desc['formulas'][st['f']])
    return '%s.modelcheck(%s, %s %s%s)' % (st['logic'], K, st['mode'], repr(ftext(f)) if st['mode'].startswith('text') else fstr(f), F_str(st))


def exp_of(o):
    m = model_obs(o)
    return [m[0], m[1]]


def call_key(st):
    return (st['logic'], st['s'], st['f'], json.dumps(st['F']))


# ----------------------------------------------------------------------------------------
# ---- order independence on look-alike formulas (model-free) ---------------------------------
def _replace_sub(f, h, new):
    if f == h:
        return new
    if f[0] in ('ap', 'true', 'false'):
        return f
    return (f[0],) + tuple(_replace_sub(g, h, new) for g in f[1:])


# ---------- fairness containers that are temporaries of the call expression / one container edited between calls ----------
FAIR_FORMULAS = {
    'CTL': [('E', ('G', ('true',))), ('E', ('G', ('ap', 'p'))), ('E', ('F', ('ap', 'q'))), ('A', ('F', ('ap', 'q'))), ('E', ('X', ('true',))),
            ('E', ('U', ('ap', 'p'), ('ap', 'q'))), ('A', ('G', ('ap', 'p'))), ('not', ('E', ('G', ('true',))))],
    'LTL': [('A', ('F', ('false',))), ('A', ('F', ('ap', 'q'))), ('A', ('G', ('ap', 'p'))), ('A', ('U', ('ap', 'p'), ('ap', 'q'))), ('A', ('X', ('false',)))],
    'CTLS': [('E', ('G', ('true',))), ('E', ('G', ('F', ('ap', 'p')))), ('A', ('F', ('G', ('ap', 'q')))), ('E', ('F', ('ap', 'q'))), ('A', ('F', ('false',))),
             ('E', ('X', ('E', ('G', ('true',)))))],
}


def gen_fair_episode(rng):
    m = rng.randint(2, 5)
    kd = rand_kripke(rng, m, maxdeg=2)
    for s in kd['S']:
        if rng.random() < 0.6 and (s, s) not in kd['R']:
            kd['R'].append((s, s))
    logic = rng.choice(LOGICS)
    Fds = []
    for _ in range(rng.randint(6, 12)):
        r = rng.random()
        if r < 0.55:
            Fds.append([[rng.randrange(m)]])
        elif r < 0.65:
            Fds.append([])
        elif r < 0.72:
            Fds.append([[]])
        else:
            Fds.append([sorted(x for x in range(m) if rng.random() < 0.4) for _ in range(rng.randint(1, 2))])
    return {'stream': 'fairness containers', 'logic': logic, 'kripke': kd_json(kd), 'formula': rng.choice(FAIR_FORMULAS[logic]),
            'mode': rng.choice(['temporary list of sets', 'temporary tuple of frozensets', 'one list edited in place', 'one list, its sets edited in place']),
            'Fs': Fds}


def exec_fair_episode(ep):
    """the calls of one episode, back to back; returns (raw results, model commands)"""
    kd = kd_from_json(ep['kripke'])
    K = kd_py(kd)
    L = lang_module(ep['logic'])
    f = detuple(ep['formula'])
    arg = to_py(f, L)
    mc = L.modelcheck
    ks = kripke_sx(K)
    n = len(ep['Fs'])
    raw = [None] * n
    mode = ep['mode']
    own = []
    for i in range(n):
        Fd = ep['Fs'][i]
        try:
            if mode == 'temporary list of sets':
                raw[i] = mc(K, arg, F=[set(P) for P in Fd])
            elif mode == 'temporary tuple of frozensets':
                raw[i] = mc(K, arg, F=tuple(frozenset(P) for P in Fd))
            elif mode == 'one list edited in place':
                own[:] = [set(P) for P in Fd]
                raw[i] = mc(K, arg, F=own)
            else:
                while len(own) > len(Fd):
                    own.pop()
                while len(own) < len(Fd):
                    own.append(set())
                for P, Q_ in zip(own, Fd):
                    P.clear()
                    P.update(Q_)
                raw[i] = mc(K, arg, F=own)
        except Exception as e:  # noqa
            raw[i] = e
    res = []
    for r in raw:
        if isinstance(r, Exception):
            res.append(['err', exc_name(r)])
        elif type(r) is not set:
            res.append(['err', 'other:not-a-set:' + type(r).__name__])
        else:
            res.append(['ok', sorted(r)])
    unchanged = kripke_sx(K) == ks
    cmds = [sx_str([MODEL_F[ep['logic']], ks, fsx(f), [sorted(P) for P in Fd]]) for Fd in ep['Fs']]
    return res, cmds, unchanged


def fair_containers(R):
    """every call gets its fairness constraints in a container that did not exist (or had other contents) at the previous call"""
    rng = random.Random(R.seed + 7171)
    eps = [json.loads(json.dumps(gen_fair_episode(rng))) for _ in range(1500 if R.thorough else 150)]
    done = [(ep,) + exec_fair_episode(ep) for ep in eps]
    expectations(sorted({c for _, _, cmds, _ in done for c in cmds}))
    nbad = 0
    for ep, res, cmds, unchanged in done:
        exps = expectations(cmds)
        R.evaluations += len(res)
        R.count('fairness_container_episodes:' + ep['mode'])
        bad = [i for i, (r, e) in enumerate(zip(res, exps)) if list(r) != list(e)]
        if bad or not unchanged:
            nbad += 1
            if nbad <= 4:
                i = bad[0] if bad else -1
                R.violation('%s.modelcheck(K, %s, F=<%s>): call %d of a sequence of calls that differ only in F (%s) returns %s, the proved model on '
                            'the same arguments %s%s' % (ep['logic'], fstr(detuple(ep['formula'])), ep['mode'], i, ep['Fs'][i], res[i], exps[i],
                                                         '' if unchanged else '; K was modified'),
                            dict(ep, impl=res, model=exps, failing_call=i))
        elif len({json.dumps(r) for r in res}) > 1:
            R.nontriv(('fair-containers', json.dumps(ep, sort_keys=True)))
    return nbad


def replay_fair(R, d):
    # whether a temporary container gets the address of an earlier one depends on the allocator: the episode is repeated until the
    # difference shows (at most 200 times; every repetition is the same sequence of calls on a new structure)
    for rep in range(200 if d['mode'].startswith('temporary') else 1):
        res, cmds, unchanged = exec_fair_episode(d)
        exps = expectations(cmds)
        if not unchanged or any(list(r) != list(e) for r, e in zip(res, exps)):
            break
    print('repetition %d of the episode:' % (rep + 1))
    bad = not unchanged
    for i, (Fd, r, e) in enumerate(zip(d['Fs'], res, exps)):
        print('call %2d  %s.modelcheck(K, %s, F=%s as %s)  impl=%s model=%s %s' % (i, d['logic'], fstr(detuple(d['formula'])), Fd, d['mode'], r, e,
                                                                                 '<-- VIOLATION' if list(r) != list(e) else ''))
        bad = bad or list(r) != list(e)
    if bad:
        R.violation('replayed: the answer depends on the fairness container of an earlier call', d)


def order_independence(R, fair=False):
    """"interleaving a call with arbitrary other calls returns an equal set", checked WITHOUT the model on formulas the model is
    not exact for: pairs (f, f') where f' is f with one subformula h replaced by an ATOM whose name is the printed form of h
    (so f and f' print alike: the library compares formulas by printed form, known finding KF-print-a - per call, which is
    deterministic).  The same calls are executed in a fresh interpreter in one order and in another fresh interpreter in the
    reversed order: every call must return the same answer in both (anything keyed by formulas that outlives a call - a
    module-level closure / result table, a memo table kept per structure - makes the later look-alike inherit the earlier
    one's entry).  Every third pair is a CTL pair: a whole CTL STATE subformula h (a connective, or a quantified
    subformula) of a CTL formula is replaced, so that f' is in CTL as well and both go through CTL.modelcheck (when h is
    a path operator - the usual case otherwise - f' = E(atom) is outside CTL).
    fair=True: the same UNDER FAIRNESS - 85% of the calls carry F (mostly one singleton set; structures with many self loops, so
    that the constraints bite), every third pair is an LTL pair A g / A g' called through LTL.modelcheck, every third a CTL
    state-subformula pair through CTL.modelcheck, and a third of the structures carry the caller's own atoms 'fair', 'fair0', ..
    on some states (the fresh fairness label differs between structures): anything that outlives a call and is keyed by the
    formula, with or without the fairness label - a table of fairness translations / restricted rewritings - shows here"""
    rng = random.Random(R.seed + (717 if fair else 707))
    nb = npairs = nctl = nltl = nF = 0
    for ep in range((6 if R.thorough else 2) if fair else (8 if R.thorough else 3)):
        if fair:
            structs = [kd_json(decorate(rng, rand_loopy_kripke(rng, rng.randint(2, 4)), rng.choice(FAIR_DECOR) if rng.random() < 0.34 else ()))
                       for _ in range(3)]
        else:
            structs = [kd_json(rand_kripke(rng, rng.randint(2, 4))) for _ in range(3)]
        forms, hist = [], []
        for pi in range(12):
            if fair and pi % 3 == 1:
                while True:
                    f = gen_formula(rng, 'LTL')
                    subs = [h for h in subformulas(f) if h[0] not in ('ap', 'true', 'false') and h != f and h[0] not in ('A', 'E')]
                    if subs:
                        break
                logic = 'LTL'
            elif pi % 3 == 0:
                while True:
                    f = gen_formula(rng, 'CTL')
                    subs = [h for h in subformulas(f) if h[0] in ('not', 'or', 'and', 'imp', 'A', 'E') and h != f]
                    if subs:
                        break
                logic = 'CTL'
            else:
                kind = rng.choice(['LTL', 'LTL', 'CTL', 'CTLS'])
                f = gen_formula(rng, kind)
                logic = rng.choice([l for l in LOGICS if in_logic(l, f)])
                subs = [h for h in subformulas(f) if h[0] not in ('ap', 'true', 'false') and h != f and h[0] not in ('A', 'E')]
            pair = [f]
            if subs:
                h = rng.choice(subs)
                nm = call(lambda: str(to_py(h, lang_module(logic))))
                if nm[0] == 'ok':
                    pair.append(_replace_sub(f, h, ('ap', nm[1])))
            both = len(pair) == 2 and all(in_logic(logic, g) for g in pair)
            npairs += both
            nctl += both and logic == 'CTL'
            nltl += both and logic == 'LTL'
            for g in pair:
                if not in_logic(logic, g):
                    continue
                forms.append(g)
                for si in rng.sample(range(3), 2):
                    F = None
                    if fair and rng.random() < 0.85:
                        S = structs[si]['S']
                        F = [[rng.choice(S)]] if rng.random() < 0.6 else [sorted(x for x in S if rng.random() < 0.4) for _ in range(rng.randint(1, 2))]
                        nF += 1
                    hist.append({'logic': logic, 's': si, 'f': len(forms) - 1, 'mode': 'obj', 'F': F})
        desc = {'structs': structs, 'formulas': forms, 'alias': [False] * 3, 'objstates': [False] * 3}
        rng.shuffle(hist)
        o1, _ = exec_history_fresh(desc, hist)
        o2, _ = exec_history_fresh(desc, list(reversed(hist)))
        o2 = list(reversed(o2)) if len(o2) == len(hist) else None
        if o2 is None or len(o1) != len(hist):
            R.count('order_independence_episodes_cut_short')
            continue
        for j, (st, a, b) in enumerate(zip(hist, o1, o2)):
            R.evaluations += 1
            if a['res'] != b['res']:
                nb += 1
                if nb <= 3:
                    R.violation('the answer of a call%s depends on which calls were made before it in the same process' % (' under fairness' if fair else ''),
                                {'stream': 'order independence', 'pool': desc, 'history': hist, 'step': j, 'call': step_str(desc, st),
                                 'answer_in_this_order': a['res'], 'answer_in_reversed_order': b['res']})
            else:
                R.count('order_independent_calls_under_fairness' if fair else 'order_independent_calls')
    R.cov['order_independence_under_fairness' if fair else 'order_independence'] = {
        'differences': nb, 'look_alike_pairs_with_both_members_called': npairs, 'of_which_both_through_CTL.modelcheck': nctl,
        'of_which_both_through_LTL.modelcheck': nltl, 'calls_with_F': nF}


def run(R):
    R.rule = ('histories of steps over a fresh random pool per history (4 structures <= 4 states, labels over {p,q}, 25% installed with '
              'equal label sets sharing one set object, 30% with states that are plain objects compared by identity instead of ints (half '
              'Site(i): default address hash, called with F=None only; half SiteH(i): hashed like the int i, so that iteration orders - on '
              'which results with F= depend through the known fair-SCC gate defect - are those of the ints) - the model stays on ints, arguments and results go through the bijection BY IDENTITY and a result element that is not one of the '
              'own state objects of the structure is a violation; 8 formulas: 2 CTL, 2 LTL, 3 genuine CTL* with a quantifier nested below a '
              'quantifier, 1 in all three logics); step = modelcheck call (logic, structure, formula, channel, F) or a RELABEL by the caller; '
              'channel = object | object of another language module | object obtained from a parser and kept | text | text with parser= '
              'a shared / a fresh parser object of the called logic | (CTLS.modelcheck, formula in the sub-logic) text with parser= a '
              'shared / fresh LTL or CTL parser; F in {None, [], 1-3 random state sets} as list/tuple of sets/frozensets, 30% one container '
              'object reused by all calls with that F; 25% of the call steps repeat an earlier call, 10% repeat it through the other channel, '
              '4% out-of-logic objects (TypeError); relabel (quick 12% / thorough 5% of the steps) = the caller edits the labelling of a pool '
              'structure through K.labels(s) (add/discard), K.labelling_function() (add/discard/assign) or K.replace_labelling_function '
              '(new dict; shared set objects, omitted states, non-state key), always an effective change, usually of a structure already '
              'queried and followed by 0-3 re-issued earlier calls on it; after a relabel the model presentation and the snapshot baseline of that '
              'structure are re-read; after every step deep snapshots (contents + identities) of all 4 structures and all formula objects, '
              'the result compared with the extracted model on that call in isolation on the CURRENT presentation (with F: the faithful model of '
              "the library's reduction); every text is also parsed by the MODEL parser of the language whose parser is used and must yield the "
              'formula the model checker is given; non-trivial = a history in which the same (structure, formula) is queried at least twice with '
              'other steps in between and a CTL* or fairness call occurred; distinct by (pool, history).  EDIT steps (quick 8% / thorough 4%): '
              'the caller changes transitions / states of a pool structure: K.add_edge between existing states, K.next(a).add / .discard '
              '(live successor set; never the last successor), a NEW state (<= 6 states) with 1-2 out-edges, 0-2 in-edges and its label set '
              '(K.add_node / K.add_edge creating it / K.labelling_function()[n] = .. in varying order, one step), K.S0.add / .discard; REBUILD '
              'steps (2% / 1%): the caller discards the structure of a slot and builds another random one there; both are handled like a relabel '
              '(presentation and baseline re-read, earlier calls on that slot re-issued, model on the structure as it is NOW).  EVOLVING-DESIGN '
              'stream (quick 120 / thorough 400 episodes): 2 structures of 1-3 states (growing to <= 6), histories of <= 24 steps with 30% edits, '
              '6% relabels, 2% rebuilds, 2-6 of the distinct earlier calls on the changed structure re-issued after every change, F=None in 75% '
              'of the calls, pool = 2 EX/AX-type + 3 one-CTL-operator-over-propositional-operands + 1 A-op + 1 CTL + 1 LTL + 1 CTL* formula.  '
              'CHURN stream (quick 40 / thorough 300 episodes): 1-2 slots, 8-16 short-lived structures of 1-3 states built one after the other (each garbage '
              'before the next is built; the share that got the address of its predecessor is in cov), each queried 1-2 times with a pool of 3 '
              'EX/AX-type formulas + 1 A-op + 1 CTL + 1 LTL + 1 CTL* formula, every answer compared with the model.  ORDER INDEPENDENCE '
              '(model-free, quick 3 / thorough 8 episodes of 12 look-alike pairs (f, f with a subformula replaced by an atom named like its '
              'printed form), each member called on 2 of 3 structures, in two fresh interpreters in opposite orders; every third pair replaces a '
              'whole CTL state subformula so that both members go through CTL.modelcheck) FAIRNESS CONTAINERS: episodes of 6-12 back-to-back calls that differ only in F, the container being a temporary of the call expression (list of sets / tuple of frozensets, garbage before the next one is built) or ONE list that the caller edits in place between the calls (slice assignment / its sets cleared and refilled); every answer against the model on the same arguments.  FRESH-LABEL stream (quick 60 / thorough 500 episodes, EXECUTED FIRST so that a finding is reproduced with a prelude of its own stream): 2-4 loopy structures of 2-4 states, 65% of them ONE shape (states, transitions, p/q labels), each decorated with a random subset of the OWN atoms of the caller fair / fair0 / fair1 on random states (the fresh label that Kripke.label_fair_states picks - fair, fair0, fair1, fair2 - differs between structures of one history; histogram in cov), pool = 3 fixed-list formulas of one logic + 1 A-op + 1 random formula of that logic, all over p, q only (KF-fair-capture is about FORMULA atoms), histories <= 14 steps, 88% of the calls with F, 10% relabels whose single add / discard is about p, q, fair, fair0 (the fresh label of ONE structure changes between calls), every answer against ctlf / ltlf / ctlsf of the model on the current presentation.  ORDER INDEPENDENCE UNDER FAIRNESS (model-free, quick 2 / thorough 6 episodes of 12 look-alike pairs on 3 loopy structures, a third of them decorated with fair / fair0 / fair1): 85% of the calls carry F (60% one singleton set), pairs cycle CTL state-subformula pair through CTL.modelcheck / LTL pair through LTL.modelcheck / random logic; two fresh interpreters in opposite orders.')
    rng = R.rng
    if R.thorough:
        n_hist, maxlen, p_text, p_textp, p_relabel, p_edit, p_rebuild, n_churn = 2500, 40, 0.08, 0.2, 0.05, 0.04, 0.01, 300
        n_evolving, n_fresh = 400, 500
    else:
        n_hist, maxlen, p_text, p_textp, p_relabel, p_edit, p_rebuild, n_churn = 320, 12, 0.2, 0.16, 0.12, 0.08, 0.02, 40
        n_evolving, n_fresh = 120, 60
    runs, executed = {}, []
    all_cmds = set()
    parse_checks = {}
    rng_churn = random.Random(R.seed + 7070)
    rng_fresh = random.Random(R.seed + 7272)
    rebuilds = [0, 0]
    fresh_cov = {}

    def stream_of(ri):
        return ('general' if ri < n_hist else 'evolving' if ri < n_hist + n_evolving else
                'churn' if ri < n_hist + n_evolving + n_churn else 'freshlabel')
    n_ded = n_hist + n_evolving + n_churn
    # EXECUTION order: the fresh-label episodes first (what they find does then not depend on module-level state left by hundreds of
    # general histories: a failing episode is reproduced and shrunk with a prelude of a few episodes of its own stream)
    for h in list(range(n_ded, n_ded + n_fresh)) + list(range(n_ded)):
        if h < n_hist:
            desc = gen_pool(rng)
            desc = json.loads(json.dumps(desc))          # exactly what a replay will see
            hist = gen_history(rng, desc, maxlen, p_text, p_textp, p_relabel, p_edit, p_rebuild)
        elif stream_of(h) == 'freshlabel':
            desc, hist = gen_freshlabel(rng_fresh)
            desc = json.loads(json.dumps(desc))
        else:
            desc, hist = (gen_evolving if h < n_hist + n_evolving else gen_churn)(rng_churn)
            desc = json.loads(json.dumps(desc))
        hist = json.loads(json.dumps(hist))
        if TIMEOUTS[0] >= 3:
            R.cov['stopped_after_call_timeouts'] = TIMEOUTS[0]
            break
        pool, obs, cmds = exec_history(desc, hist)
        all_cmds.update(c for c in cmds if c is not None)
        for (fi, plang), t in pool.texts.items():
            parse_checks[sx_str(['parse', plang, Q(t)])] = (plang, t, pool.F[fi])
        runs[h] = (desc, hist, obs, cmds)
        executed.append(h)
        rebuilds[0] += pool.rebuilds
        rebuilds[1] += pool.rebuilds_same_address
        if h >= n_hist:
            R.count({'evolving': 'evolving_design_episodes', 'churn': 'churn_episodes', 'freshlabel': 'fresh_label_episodes'}[stream_of(h)])
        if stream_of(h) == 'freshlabel':
            # coverage: the fresh label of every call with F, and formulas asked (with F, one entry point) under two different fresh labels
            sims, seen = sims_of(desc), {}
            for st in hist[:len(obs)]:
                if st.get('kind') == 'relabel':
                    apply_relabel(sims[st['s']], st)
                elif is_call(st) and st['F'] is not None:
                    lab = fresh_label_of(sims[st['s']])
                    fresh_cov[lab] = fresh_cov.get(lab, 0) + 1
                    seen.setdefault((st['logic'], st['f']), set()).add(lab)
            n2 = sum(1 for v in seen.values() if len(v) >= 2)
            fresh_cov['(entry point, formula) asked under >= 2 different fresh labels in one history'] = \
                fresh_cov.get('(entry point, formula) asked under >= 2 different fresh labels in one history', 0) + n2
    R.cov['structures_discarded_and_rebuilt'] = {'rebuilds': rebuilds[0], 'new_object_at_the_address_of_the_discarded_one': rebuilds[1]}
    # the text given to a text call denotes, for the MODEL parser of the language whose parser is used, the formula
    # the model checker is asked about (a failure here is a defect of this check's printer, not of the library)
    pk = sorted(parse_checks)
    for k, o in zip(pk, model_batch_parallel(pk)):
        plang, t, f = parse_checks[k]
        if o[0] != 'ok' or fparse(o[1]) != f:
            raise RuntimeError('model parser %s reads %r as %s, expected %r' % (plang, t, sx_str(o), f))
    R.cov['texts_validated_by_model_parser'] = len(pk)
    expectations(sorted(all_cmds))
    R.cov['model_commands_distinct'] = len(all_cmds)
    order_independence(R)
    order_independence(R, fair=True)
    fair_containers(R)
    R.cov['fresh_fairness_label_of_calls_with_F_in_the_fresh_label_stream'] = fresh_cov
    shrunk = {'general': 0, 'evolving': 0, 'churn': 0, 'freshlabel': 0}
    # verdicts: the two dedicated streams (short, self-contained episodes: the most readable counterexamples) first, then the
    # general histories; `earlier` (candidates for a prelude) is always the prefix in EXECUTION order
    for ri in [k for k in list(range(n_ded, n_ded + n_fresh)) + list(range(n_hist, n_ded)) + list(range(n_hist)) if k in runs]:
        desc, hist, obs, cmds = runs[ri]
        stream = stream_of(ri)
        exps = expectations(cmds)
        R.evaluations += len(obs)
        R.count('histories')
        R.count('len_%02d-%02d' % ((len(hist) - 1) // 5 * 5 + 1, (len(hist) - 1) // 5 * 5 + 5))
        bad = None
        for j, (st, o, e) in enumerate(zip(hist, obs, exps)):
            if is_call(st):
                R.count('logic_' + st['logic'])
                R.count('mode_' + st['mode'])
                R.count('F_' + ('None' if st['F'] is None else 'empty' if not st['F'] else 'sets'))
                if st['F'] is not None:
                    R.count('Fform_' + st.get('Fform', 'ls') + ('_shared' if st.get('Fshared') else ''))
                R.count('result_' + (o['res'][0] if o['res'][0] == 'ok' else o['res'][1]))
                if objstates_of(desc, st['s']):
                    cls = SITE_CLASS[objstates_of(desc, st['s'])].__name__
                    R.count('calls_on_structures_with_%s_states' % cls)
                    if o['res'][0] == 'ok' and o['res'][1]:
                        R.count('calls_on_structures_with_%s_states_nonempty_result' % cls)
            elif st['kind'] == 'edit':
                for op in st['ops']:
                    R.count('edit_' + op[0])
                if any(op[0] == 'label' for op in st['ops']):
                    R.count('edit_new_state')
            elif st['kind'] == 'rebuild':
                R.count('rebuild')
            else:
                R.count('relabel_' + st['route'] + ('_shared_sets' if st.get('share') else '') + ('_nonstate_key' if st.get('extra') else ''))
            if step_fails(o, e):
                bad = j
                break
        if bad is not None:
            report(R, desc, hist, obs, exps, bad, shrunk[stream] < (3 if stream == 'general' else 2), [runs[k][:2] for k in executed[:executed.index(ri)]])
            shrunk[stream] += 1
            if len(R.violations) >= 25:
                break
            continue
        # evidence: repeated (structure, formula) with other steps in between + a CTL* / fairness call
        seen = {}
        rep = False
        for j, st in enumerate(hist):
            if not is_call(st):
                continue
            k = (st['s'], st['f'])
            if k in seen and j - seen[k] >= 2:
                rep = True
            seen.setdefault(k, j)
        same_call, epoch, last, lastkind = {}, {}, {}, {}
        for st, o in zip(hist, obs):
            if not is_call(st):
                epoch[st['s']] = epoch.get(st['s'], 0) + 1
                lastkind[st['s']] = st['kind']
                continue
            ck = call_key(st)
            same_call.setdefault(ck + (epoch.get(st['s'], 0),), []).append(o['res'])
            if ck in last and last[ck][0] != epoch.get(st['s'], 0):
                R.count('requery_after_' + lastkind[st['s']])
                if last[ck][1] != o['res']:
                    R.count('requery_after_%s_with_another_result' % lastkind[st['s']])
            last[ck] = (epoch.get(st['s'], 0), o['res'])
        nrep = sum(1 for v in same_call.values() if len(v) > 1)
        R.count('calls_executed_more_than_once', nrep)
        calls = [st for st in hist if is_call(st)]
        star = any(st['F'] is not None or (st['logic'] == 'CTLS' and not is_ctl_state(detuple(desc['formulas'][st['f']])))
                   for st in calls)
        if rep and star:
            R.nontriv((desc, hist))
            R.sample({'structures': desc['structs'], 'history': [step_str(desc, st) for st in hist],
                      'results': [o['res'] for o in obs]}, limit=3)


def report(R, desc, hist, obs, exps, j, do_shrink, earlier):
    st, o, e = hist[j], obs[j], exps[j]
    # another execution of the same call in this history (no relabel of that structure in between) with a different observation?
    other = []
    for i in range(j - 1, -1, -1):
        if not is_call(hist[i]):
            if hist[i]['s'] == st['s']:
                break
        elif call_key(hist[i]) == call_key(st) and obs[i]['res'] != o['res']:
            other.append(i)
    data = {'pool': desc, 'history': hist[:j + 1], 'expected': exps[:j + 1], 'failing_step': j,
            'step': step_str(desc, st), 'impl': o['res'], 'model_in_isolation': e, 'notes': o['notes'],
            'same_call_earlier_in_history_gave': [[i, obs[i]['res']] for i in other]}
    data['prelude'] = []
    if do_shrink:
        try:
            pre, mh, mexp, mobs, ok = shrink(desc, hist[:j + 1], earlier)
            data['reproduced_in_fresh_interpreter'] = ok
            if ok:
                data['prelude'], data['history'], data['expected'], data['failing_step'] = pre, mh, mexp, len(mh) - 1
                data['minimal_history'] = (['(earlier pool %d) %s' % (i, step_str(e['pool'], s)) for i, e in enumerate(pre) for s in e['hist']]
                                           + [step_str(desc, s) for s in mh])
                data['minimal_observations'] = mobs
                data['impl'], data['model_in_isolation'] = mobs[-1]['res'], mexp[-1]
                ah = relabels_and_last(mh)
                aobs, acmds = exec_history_fresh(desc, ah)
                data['failing_call_alone_in_fresh_interpreter'] = dict(aobs[-1], expected=expectations(acmds)[len(aobs) - 1],
                                                                       steps=[step_str(desc, s) for s in ah])
        except Exception as ex:  # noqa
            data['shrink_failed'] = repr(ex)
    else:
        data['not_shrunk'] = ('only the first 3 failing general histories (and the first 2 of the fresh-label, of the evolving-design and of the churn stream) of a run are re-run in fresh interpreters and shrunk; if this one depends on '
                              'module-level state left by EARLIER histories of the run, its replay alone does not reproduce it')
    ncalls = (sum(1 for s in data['history'][:-1] if is_call(s))
              + sum(1 for e in data['prelude'] for s in e['hist'] if is_call(s)))
    alone = data.get('failing_call_alone_in_fresh_interpreter')
    res, e = data['impl'], data['model_in_isolation']
    if o['notes']:
        what = 'modelcheck modified the caller\'s objects / leaked or invented an object: ' + '; '.join(o['notes'])[:400]
    elif ncalls >= 1 and data.get('reproduced_in_fresh_interpreter') and alone is not None and not step_fails(alone, alone['expected']):
        what = ('history dependence: %s returns %s after %d earlier call(s); the model and the same call alone%s in a fresh interpreter give %s'
                % (data['step'], res, ncalls, ' (after only the caller\'s own relabelling / editing / building of that structure)' if len(alone['steps']) > 1 else '', e))
    elif other:
        what = 'history dependence: two executions of %s in one history differ (%s vs %s; model %s)' % (
            data['step'], obs[other[0]]['res'], o['res'], exps[j])
    else:
        what = 'result of %s differs from the proved model on the same arguments: %s vs %s' % (data['step'], res, e)
        if data.get('reproduced_in_fresh_interpreter') is False:
            what += ' (not reproduced in a fresh interpreter, even after the last 64 histories of this run)'
    R.violation(what, data)


def replay(R, data):
    d = data['data']
    if d.get('stream') == 'fairness containers':
        return replay_fair(R, d)
    desc, hist = d['pool'], d['history']
    if d.get('stream') == 'order independence':
        o1, _ = exec_history_fresh(desc, hist)
        o2, _ = exec_history_fresh(desc, list(reversed(hist)))
        o2 = list(reversed(o2))
        bad = False
        for st, a, b in zip(hist, o1, o2):
            diff = a['res'] != b['res']
            bad = bad or diff
            print('%-70s in this order %s, in reversed order %s %s' % (step_str(desc, st), a['res'], b['res'], '<-- VIOLATION' if diff else ''))
        if bad:
            R.violation('replayed: the answer of a call depends on the calls made before it', d)
        return
    for e in d.get('prelude', []):
        _, o, _ = exec_history(e['pool'], e['hist'])
        for st, x in zip(e['hist'], o):
            print('earlier %-60s impl=%s' % (step_str(e['pool'], st), x['res']))
    pool, obs, cmds = exec_history(desc, hist)
    bad = False
    for j, (st, o, e) in enumerate(zip(hist, obs, expectations(cmds))):
        f = step_fails(o, e)
        bad = bad or f
        if is_call(st):
            print('step %2d %-60s impl=%s model=%s %s %s' % (j, step_str(desc, st), o['res'], e, '; '.join(o['notes']), '<-- VIOLATION' if f else ''))
        else:
            print('step %2d %-60s %s %s %s' % (j, step_str(desc, st), 'labelling now %s' % o['labelling_now'] if 'labelling_now' in o
                                               else 'structure now %s' % o.get('structure_now'), '; '.join(o['notes']),
                                               '<-- VIOLATION' if f else ''))
    if bad:
        R.violation('replayed: history violates purity / differs from the model', d)


if __name__ == '__main__' and len(sys.argv) > 1 and sys.argv[1] == '--exec':
    _j = json.loads(sys.stdin.read())
    for _e in _j.get('prelude', []):
        exec_history(_e['pool'], _e['hist'])
    _pool, _obs, _cmds = exec_history(_j['pool'], _j['hist'])
    print('OBS ' + json.dumps({'obs': _obs, 'cmds': _cmds}))
