"""mccheck.py - shared driver for the model-checking properties C01-C03 (and reused by others)."""
from common import *
import ref


def succ_of(kd):
    s = {v: [] for v in kd['S']}
    for (a, b) in kd['R']:
        s.setdefault(a, [])
        s.setdefault(b, [])
        if b not in s[a]:
            s[a].append(b)
    return s


def ref_check(kd, f, fair=None):
    succ = succ_of(kd)
    states = list(succ.keys())
    labels = {v: set(kd['L'].get(v, [])) for v in states}
    return ref.check(states, succ, labels, f, fair)


def impl_mc(logic, K, f, F=None, as_text=False):
    L = lang_module(logic)
    if as_text:
        arg = f
    else:
        arg = to_py(f, L)
    if F is None:
        r = call(lambda: L.modelcheck(K, arg))
    else:
        r = call(lambda: L.modelcheck(K, arg, F=F))
    if r[0] == 'ok':
        v = r[1]
        if not isinstance(v, set):
            return ('err', 'other:not-a-set:' + type(v).__name__)
        return ('ok', sorted(v))
    return r


def model_cmd(logic, K, f, F=None):
    ks = kripke_sx(K)
    if F is None:
        if logic == 'CTL':
            return ['ctl', ks, fsx(f)]
        if logic == 'LTL':
            return ['ltl', ks, fsx(f)]
        return ['ctls', 'CTLS', ks, fsx(f)]
    Fs = [sorted(P) for P in F]
    return [{'CTL': 'ctlf', 'LTL': 'ltlf', 'CTLS': 'ctlsf'}[logic], ks, fsx(f), Fs]


def model_obs(o):
    if o[0] == 'ok':
        return ('ok', sorted(ints(o[1])))
    return ('err', o[1])


def has_temporal(f):
    return any(g[0] in TEMPORAL for g in subformulas(f))


def kd_py_aliased(kd):
    """the same structure, labels installed with shared set objects (common.alias_labels)"""
    return alias_labels(kd_py({k: v for k, v in kd.items() if k != 'alias'}))


def run_mc(R, logic, cases, label='', alias_every=5):
    """cases: list of (kd, f).  Compares implementation and model; on a difference consults the
    reference semantics to say which side violates exactness.  Returns number of mismatches."""
    cmds, meta = [], []
    for ci, (kd, f) in enumerate(cases):
        aliased = alias_every and ci % alias_every == alias_every - 1
        K = kd_py_aliased(kd) if aliased else kd_py(kd)
        if aliased:
            R.count('structures_with_shared_label_set_objects')
        snap0 = kripke_snapshot(K)
        r = impl_mc(logic, K, f)
        cmds.append(model_cmd(logic, K, f))
        meta.append((kd, f, r, kripke_snapshot(K) == snap0, len(K.states()), aliased))
    outs = model_batch_parallel(cmds)
    bad = 0
    for (kd, f, r, unchanged, n, aliased), o in zip(meta, outs):
        R.evaluations += 1
        m = model_obs(o)
        if tuple(r) != m or not unchanged:
            bad += 1
            try:
                rr = sorted(ref_check(kd, f))
            except Exception as e:  # noqa
                rr = 'ref-failed: %r' % e
            R.violation('%s.modelcheck differs from the proved model%s' % (logic, '' if unchanged else ' (and modified K)'),
                        {'logic': logic, 'kripke': kd_json(kd), 'formula': f, 'formula_str': fstr(f),
                         'impl': r, 'model': m, 'reference': rr, 'labels_installed_with_shared_set_objects': bool(aliased),
                         'impl_wrong_by_reference': (r[0] != 'ok' or r[1] != rr)})
            continue
        R.count('agree_' + logic + label)
        if r[0] == 'ok' and has_temporal(f) and 0 < len(r[1]) < n:
            R.nontriv((logic, json.dumps(kd_json(kd), sort_keys=True), f))
            R.sample({'logic': logic, 'kripke': kd_json(kd), 'formula': fstr(f), 'result': r[1]})
    return bad


def replay_mc(R, data):
    d = data['data']
    if d.get('stream') == 'long structures':
        print('long structures re-run: %d difference(s)' % long_structures(R, data.get('property', '?'), d['logic']))
        return
    kd = kd_from_json(d['kripke'])
    f = detuple(d['formula'])
    K = kd_py_aliased(kd) if d.get('labels_installed_with_shared_set_objects') else kd_py(kd)
    r = impl_mc(d['logic'], K, f)
    m = model_obs(model_batch([model_cmd(d['logic'], K, f)])[0])
    rr = sorted(ref_check(kd, f))
    print('formula  :', fstr(f))
    print('impl     :', r)
    print('model    :', m)
    print('reference:', rr)
    if tuple(r) != m:
        R.violation('replayed: implementation differs from the proved model', d)


def detuple(x):
    if isinstance(x, list):
        return tuple(detuple(y) for y in x)
    return x


# ---------- formula pools ----------
def ctl_formulas_depth(d, aps=('p', 'q')):
    """all CTL state formulas with quantifier/connective nesting <= d (or/and binary)"""
    leaves = [('true',), ('false',)] + [('ap', a) for a in aps]
    cur = list(leaves)
    for _ in range(d):
        new = list(cur)
        seen = set(cur)
        for f in cur:
            cand = [('not', f)] + [(q, (o, f)) for q in 'AE' for o in 'XFG']
            for c in cand:
                if c not in seen:
                    seen.add(c); new.append(c)
        for f in cur:
            for g in cur:
                cand = [('or', f, g), ('and', f, g), ('imp', f, g)] + [(q, (o, f, g)) for q in 'AE' for o in 'UR']
                for c in cand:
                    if c not in seen:
                        seen.add(c); new.append(c)
        cur = new
    return cur


def path_formulas_ops(k, aps=('p', 'q'), quant=False):
    """all path formulas with at most k operators (or/and binary)"""
    leaves = [('true',), ('false',)] + [('ap', a) for a in aps]
    by_ops = {0: leaves}
    un = ['not', 'X', 'F', 'G'] + (['A', 'E'] if quant else [])
    bi = ['or', 'and', 'imp', 'U', 'R']
    for n in range(1, k + 1):
        out = []
        for u in un:
            out += [(u, f) for f in by_ops[n - 1]]
        for a in range(0, n):
            b = n - 1 - a
            for op in bi:
                out += [(op, f, g) for f in by_ops[a] for g in by_ops[b]]
        by_ops[n] = out
    return [f for n in range(k + 1) for f in by_ops[n]]


# ---------- long structures: "every finite total Kripke structure" includes structures with thousands of states ----------
def long_structures(R, pid, logic):
    """a ring 0 -> 1 -> ... -> n-1 -> 0 with p exactly at state 0 and q elsewhere: answers are known in closed form (the extracted
    model works with unary numbers and is not run at this size).  Exactness must not depend on the length of paths: no helper may
    recurse along them (RecursionError), no fixpoint may be cut off after a fixed number of rounds."""
    from pyModelChecking.kripke import Kripke
    M = lang_module(logic)
    bad = 0
    for n in (1400, 2300):
        K = Kripke(R=[(i, (i + 1) % n) for i in range(n)], L=dict([(0, {'p'})] + [(i, {'q'}) for i in range(1, n)]))
        everything, nothing, only0, rest = list(range(n)), [], [0], list(range(1, n))
        if logic == 'CTL':
            qs = [('E F p', everything), ('A F p', everything), ('E G q', nothing), ('A G (E F p)', everything), ('E (q U p)', everything),
                  ('A X q', [i for i in range(n) if i != n - 1]), ('not E (q U p) or p', only0), ('A (q R (q or p))', everything), ('E G (q or p)', everything)]
        elif logic == 'LTL':
            qs = [('A G F p', everything), ('A F p', everything), ('A G q', nothing), ('A (q U p)', everything), ('A X q', [i for i in range(n) if i != n - 1])]
        else:
            qs = [('A G F p', everything), ('E F G q', nothing), ('A F (p and X q)', everything), ('E (q U (p and E X q))', everything)]
        if n > 2000:
            qs = qs[:4]
        for text, want in qs:
            R.evaluations += 1
            r = call(lambda: M.modelcheck(K, text))
            if r[0] != 'ok' or not isinstance(r[1], set) or sorted(r[1]) != want:
                bad += 1
                R.violation('on a ring of %d states %s.modelcheck(K, %r) %s' % (n, logic, text, ('raised ' + str(r[1])) if r[0] != 'ok' else
                                                                               'is not exact (%d states returned, %d expected)' % (len(r[1]), len(want))),
                            {'stream': 'long structures', 'logic': logic, 'n_states': n, 'formula_text': text,
                             'impl': list(r) if r[0] != 'ok' else ['ok', '%d states' % len(r[1])], 'expected': '%d states' % len(want)})
            else:
                R.nontriv(('ring', n, logic, text))
    R.cov['long_structures'] = {'ring_sizes': [1400, 2300], 'differences': bad}
    return bad


# ---------- long quantified subformulas that share a long prefix ----------
def long_prefix_cases(rng, n):
    """(structure, CTL state formula) with two DIFFERENT quantified subformulas whose printed forms agree on their first 40+
    characters (Q(x U a) next to Q(x U b) for a long propositional x), one of them with an empty or full truth set, combined
    non-monotonically: anything that identifies subformulas by a truncated / hashed printed form (fresh label names, memo keys)
    confuses them.  The formulas are CTL, so all three checkers apply."""
    out = []
    aps = ('p', 'q', 'r')
    while len(out) < n:
        k = rng.randint(3, 5)
        x = (rng.choice(['and', 'or']),) + tuple((rng.choice(['or', 'and']), ('ap', rng.choice(aps)), rng.choice([('ap', rng.choice(aps)), ('not', ('ap', rng.choice(aps)))]))
                                                for _ in range(k))
        a, b = rng.sample([('ap', 'p'), ('ap', 'q'), ('ap', 'r'), ('not', ('ap', 'p')), ('false',), ('true',)], 2)
        q1, q2 = rng.choice('AE'), rng.choice('AE')
        o = rng.choice(['U', 'U', 'R', 'G', 'F'])
        mk = (lambda q, t: (q, (o, x, t))) if o in 'UR' else (lambda q, t: (q, (o, ('and', x, t))))
        g1, g2 = mk(q1, a), mk(q2, b)
        f = rng.choice([('and', g1, g2), ('and', g1, ('not', g2)), ('or', ('not', g1), g2), ('imp', g1, g2), ('and', g2, g1)])
        out.append((rand_kripke(rng, rng.randint(1, 3), aps=aps), f))
    return out


# ---------- dense structures x nested temporal path formulas ----------
def dense_cases(rng, n, kind):
    """structures with 3-5 states in which most transitions are present (the tableau then has large, nested strongly connected
    components, where an error in how components are delimited shows up) x path formulas with two or three nested temporal
    operators under A / E"""
    ops2 = [g for g in path_formulas_ops(2) if sum(1 for h in subformulas(g) if h[0] in TEMPORAL) >= 2]
    out = []
    while len(out) < n:
        m = rng.randint(3, 5)
        st = list(range(m))
        R_ = [(a, b) for a in st for b in st if rng.random() < 0.75]
        for a in st:
            if not any(x == a for x, _ in R_):
                R_.append((a, rng.choice(st)))
        rng.shuffle(R_)
        kd = {'S': st, 'S0': [], 'R': R_, 'L': {a: [p for p in ('p', 'q') if rng.random() < 0.4] for a in st}}
        if rng.random() < 0.65:
            # simple properties (G a, F a, a U b, a R b, G F a, F G a) spelled so that they are NOT CTL path formulas and go through
            # the tableau: an operand x is written (x or (x U false)) - cheap tableaux, many structures
            lit = lambda: rng.choice([('ap', 'p'), ('ap', 'q'), ('not', ('ap', 'p')), ('not', ('ap', 'q')), ('true',)])
            a, b = lit(), lit()
            # persistence shapes (F G a, b U G a, ...) are over-weighted: their tableau has a 'waiting' component above a
            # 'committed' one, i.e. a multi-node component that finishes while another one is still open
            g = rng.choice([('G', a), ('F', a), ('U', a, b), ('R', a, b), ('G', ('F', a)), ('R', ('U', a, ('false',)), b)] +
                           [('F', ('G', a))] * 5 + [('U', b, ('G', a))] * 4 + [('F', ('and', b, ('G', a)))] * 2 + [('G', ('F', ('G', a)))])
            x = g[1]
            g = (g[0], ('or', x, ('U', x, ('false',)))) + tuple(g[2:])
        else:
            g = rng.choice(ops2)
            if rng.random() < 0.3:
                g = (rng.choice(['U', 'R']), g, rng.choice(ops2[:40]))
        out.append((kd, (('A' if kind == 'LTL' else rng.choice('AE')), g)))
    return out


# ---------- wide connectives: Or/And are VARIADIC (the parsers fold 'a or b or c' into one node) ----------
def wide_cases(rng, n, kind):
    """(structure, formula) cases whose or/and nodes have 3-5 operands (1 operand in a few cases), every operand a distinct
    temporal formula, so that an operand in position >= 3 matters.  kind: 'LTL' (A over a wide path connective),
    'CTLS' (A/E over a wide path connective, operands possibly quantified), 'CTL' (wide connective of quantified CTL formulas)"""
    ops1 = [g for g in path_formulas_ops(1) if g[0] in ('X', 'F', 'G', 'U', 'R')]
    ops2 = [g for g in path_formulas_ops(2) if g[0] in ('X', 'F', 'G', 'U', 'R') and g[1][0] != 'true']
    out = []
    leaves = [('ap', 'p'), ('ap', 'q'), ('true',), ('not', ('ap', 'p')), ('not', ('ap', 'q'))]
    while len(out) < n // 4:
        # a wide connective TOGETHER WITH ITS PREFIX (a or b or c next to a or b), both under temporal operators: the two are
        # different formulas (a printer / comparison that looks at the first two operands only would conflate them)
        k = rng.choice([3, 3, 4])
        gs = rng.sample(leaves + ([g for g in ops1 if g[0] == 'X'] if kind != 'CTL' else []), k)
        op = rng.choice(['or', 'and'])
        w3, w2 = (op,) + tuple(gs), (op,) + tuple(gs[:rng.choice([2, k - 1])])
        if kind == 'CTL':
            qa, qb = rng.choice('AE'), rng.choice('AE')
            f = rng.choice([('imp', (qa, ('X', w3)), (qb, ('X', w2))), (qa, ('U', w3, w2)), ('and', (qa, ('F', w3)), ('not', (qb, ('F', w2)))),
                            (qa, ('G', ('or', w2, (qb, ('X', w3)))))])
        else:
            body = rng.choice([('imp', ('X', w3), ('X', w2)), ('U', w3, w2), ('and', ('F', w3), ('G', ('not', w2))), ('or', ('X', w2), ('not', ('X', w3))),
                               ('U', ('X', w2), ('X', w3))])
            f = ((rng.choice('AE') if kind == 'CTLS' else 'A'), body)
        out.append((rand_kripke(rng, rng.randint(1, 3), aps=('p', 'q')), f))
    while len(out) < n:
        # (the tableau is exponential in the number of temporal operands: keep LTL/CTL* bodies small)
        k = rng.choice([3, 3, 3, 4, 4, 5, 1]) if kind == 'CTL' else rng.choice([3, 3, 3, 3, 4, 1])
        pool = ops1 if (rng.random() < 0.6 if kind == 'CTL' else (k > 3 or rng.random() < 0.85)) else ops2
        gs = rng.sample(pool, k)
        if kind == 'CTL':
            gs = [(rng.choice('AE'), g) for g in gs]
            gs = [g for g in gs if is_ctl_state(g)]
            if len(gs) != k:
                continue
        elif kind == 'CTLS':
            gs = [(rng.choice('AE'), g) if rng.random() < 0.3 else g for g in gs]
        gs = [('not', g) if rng.random() < 0.25 else g for g in gs]
        rng.shuffle(gs)
        w = (rng.choice(['or', 'and']),) + tuple(gs)
        if rng.random() < 0.3:
            w = rng.choice([('not', w), ('X', w), ('G', w), ('F', w)]) if kind != 'CTL' else ('not', w)
        f = w if kind == 'CTL' else ((rng.choice('AE') if kind == 'CTLS' else 'A'), w)
        m = rng.randint(2, 4)
        out.append((rand_kripke(rng, m, aps=('p', 'q')), f))
    return out


# ---------- exotic atom names: the faithful (printed-form) models of coq/Model/Memo.v ----------
def run_print_stream(R, pid, logic, nform, kf_id='KF-print-a'):
    """formulas whose ATOM NAMES collide with printed subformulas / reserved words (known finding
    KF-print-a).  Three observers: implementation, FAITHFUL model (memo dict / set membership keyed by
    printed form, proved equal to the exact model on identifier atoms: MemoP.v), EXACT model.
      impl == exact                      fine
      impl == faithful != exact          the known finding (counted, never an alarm)
      impl != faithful and != exact      VIOLATION (a new way of being wrong)
      impl == exact != faithful          no alarm; recorded as known_finding_no_longer_reproduces"""
    import memo_probe
    rng = random.Random(R.seed + 77)
    faithful_cmd = {'CTL': 'ctlmemo', 'LTL': 'ltlprint'}[logic]
    clean_cmd = {'CTL': 'ctl', 'LTL': 'ltl'}[logic]
    cases = [(kd, f) for kd, f, _ in memo_probe.HAND[logic]]
    seen = set()
    while len(seen) < nform:
        f = memo_probe.gen_formula(rng, logic)
        if f in seen:
            continue
        seen.add(f)
        for kd in memo_probe.structures(rng, f, 2, False):
            cases.append((kd, f))
    cmds, impls = [], []
    for kd, f in cases:
        K = kd_py(kd)
        impls.append(tuple(memo_probe.impl(logic, K, f)))
        ks = kripke_sx(K)
        cmds.append([faithful_cmd, ks, fsx(f)])
        cmds.append([clean_cmd, ks, fsx(f)])
    outs = model_batch_parallel(cmds)
    kf = stale = 0
    example = None
    for i, (kd, f) in enumerate(cases):
        R.evaluations += 1
        r, fa, cl = impls[i], memo_probe.obs(outs[2 * i]), memo_probe.obs(outs[2 * i + 1])
        if r == cl:
            R.count('exotic_atoms_agree_with_exact_model')
            continue
        if r == fa:
            kf += 1
            if example is None:
                example = (kd, f, r, cl)
            continue
        if r != fa and r != cl:
            R.violation('%s.modelcheck on exotic atom names differs from the faithful (printed-form) model and from the exact model' % logic,
                        {'logic': logic, 'kripke': kd_json(kd), 'formula': f, 'formula_str': fstr(f), 'impl': r,
                         'faithful_model': fa, 'exact_model': cl, 'stream': 'exotic atom names'})
    if kf:
        R.known_hits[kf_id] = R.known_hits.get(kf_id, 0) + kf
        kd, f, r, cl = example
        known_finding_line(pid, kf_id, '%s: formulas compared by printed form - %d explored inputs with atoms named like printed subformulas are answered as the '
                           'faithful model predicts, not exactly (e.g. %s on %s: got %s, exact %s)' % (logic, kf, fstr(f), json.dumps(kd_json(kd)), r, cl))
    R.cov['exotic_atom_stream'] = {'cases': len(cases), 'known_finding_cases': kf}
